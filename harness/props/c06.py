"""C06 — spatial lookups agree with the geometry they index.
oracle: brute-force scan over the current lanelets with geometry built from raw vertices / parameters
        (shapely on raw data where the decision is clear, exact rational arithmetic where it is close;
        the disc test is analytic) vs LaneletNetwork.find_lanelet_by_position / find_lanelet_by_shape,
        Lanelet.contains_points / get_obstacles, map_obstacles_to_lanelets, filter_obstacles_in_network,
        Shape.contains_point and Shape.shapely_object
corr:   Model/Spatial.v evaluated by vm_compute on the same cases (Corr/C06.v)"""
import copy
import math
import os
import pickle
import shutil
import tempfile
from fractions import Fraction as F

import numpy as np
import shapely
import shapely.geometry as sg

from vlib.core import qb, qlist, qq, qz

from commonroad.common.file_reader import CommonRoadFileReader
from commonroad.common.file_writer import CommonRoadFileWriter, OverwriteExistingFile
from commonroad.common.util import FileFormat
from commonroad.geometry.shape import Circle, Polygon, Rectangle, ShapeGroup
from commonroad.planning.planning_problem import PlanningProblemSet
from commonroad.scenario.lanelet import LaneletNetwork
from commonroad.scenario.obstacle import ObstacleType, StaticObstacle
from commonroad.scenario.scenario import Scenario, ScenarioID, Tag
from commonroad.scenario.state import InitialState

from props import c06_geom as G

GUARD = G.GUARD
CLOSE = 1e-6       # below this distance the decision is taken in exact rational arithmetic
DISC_BAND = 0.002  # Point.buffer(r) is a 64-gon: relative deviation from the disc < 0.13 %

RULE = ("cases from one seeded PRNG: (a) shapes (rectangle / circle / polygon / group; orientation 0, pi/2, +-0.05, "
        "arbitrary; dyadic and decimal parameters) x points (inside, outside, on the boundary where exactly "
        "representable, far); (b) raw lanelet networks (1-3 lanes x 1-3 segments, curved or straight, plus an "
        "overlapping and a disjoint road; shared boundaries are bit-identical) x construction routes (from list, one by "
        "one, via Scenario, add / duplicate add / remove, add_lanelets_from_network, deepcopy (copy and original), "
        "pickle, XML and protobuf write+read, cut-out by shape, empty network) x queries (points on vertices / edge "
        "midpoints / interior / around / far; rectangle, circle, polygon query shapes; contains_points; static "
        "obstacles of every shape kind for get_obstacles / map / filter). distinct = distinct case dicts; non-trivial = "
        "at least one decision not excluded by the near-boundary guard")
ASSUME = ["decisions closer than 1e-9 to a boundary are excluded (counted) unless every coordinate involved is dyadic "
          "(multiples of 1/16, axis-parallel or vertex / edge-midpoint positions), where model, oracle and GEOS are exact",
          "Point.buffer(r) is GEOS' 64-gon inscribed in the circle: shape queries with a circle are excluded when the "
          "distance to the lanelet is within 0.2 % of the radius",
          "cos / sin of a rectangle orientation are taken from libm as exact rationals (model and oracle)",
          "object identity id(polygon) is modelled by a handle; distinct live objects have distinct identities"]

_TMP = None


def tmpdir():
    global _TMP
    if _TMP is None:
        base = "/var/tmp/g4" if os.path.isdir("/var/tmp/g4") else None
        _TMP = tempfile.mkdtemp(prefix="c06_", dir=base)
    return _TMP


# ------------------------------------------------------------------------------------------ generators
ROUTE_STARTS = ["from_list", "one_by_one", "scenario_net", "scenario_each"]
_FORKS = []
ROUTE_STEPS = ["add", "add_dup", "remove", "lazy", "fork", "add_from", "deepcopy", "deepcopy_self", "pickle", "xml", "pb", "cutout",
               "scenario_copy", "add_clone"]


def gen_route(rng, net):
    ids = sorted(int(i) for i in net["lanelets"])
    rng.shuffle(ids)
    if rng.random() < 0.04:
        return [["empty"]] + ([["add", ids[0]]] if rng.random() < 0.5 else [])
    k = rng.randint(1, len(ids))
    start, rest = ids[:k], ids[k:]
    route = [[rng.choice(ROUTE_STARTS), start]]
    present = list(start)
    for _ in range(rng.choice([0, 0, 1, 1, 2, 3, 4])):
        op = rng.choice(ROUTE_STEPS)
        if op == "add" and rest:
            i = rest.pop()
            present.append(i)
            route.append(["add", i])
        elif op == "add_dup" and present:
            route.append(["add_dup", rng.choice(present)])
        elif op == "add_clone" and present and not any(r_[0] == "add_clone" for r_ in route):
            # an overlay lane: a deep copy of a lanelet of the network, given a new id, added to the same network
            route.append(["add_clone", rng.choice(present)])
        elif op == "remove" and present:
            i = rng.choice(present)
            present.remove(i)
            rest.append(i)
            route.append(["remove", i])
        elif op == "lazy" and (rest or present):
            # edits with the index rebuild switched off (rtree=False), closed by a call with the default rtree=True
            # (documented: "whether rtree should be initialized"), which has to leave a complete index
            for _ in range(rng.randint(1, 3)):
                if rest and (not present or rng.random() < 0.5):
                    i = rest.pop()
                    present.append(i)
                    route.append(["add_lazy", i])
                elif present:
                    i = rng.choice(present)
                    present.remove(i)
                    rest.append(i)
                    route.append(["remove_lazy", i])
            r = rng.random()
            if r < 0.45 and rest:
                route.append(["remove_absent", rng.choice(rest)])     # an id that is not (or no longer) in the network
            elif r < 0.55:
                route.append(["remove_absent", 99999])
            elif rest and r < 0.8:
                i = rest.pop()
                present.append(i)
                route.append(["add", i])
            elif present:
                i = rng.choice(present)
                present.remove(i)
                rest.append(i)
                route.append(["remove", i])
            else:
                route.append(["remove_absent", 99999])
        elif op == "fork" and present:
            # a deep copy of the network is edited (a lanelet removed / one added there); the ORIGINAL then rebuilds its
            # index (a default-rtree call that changes nothing) and is queried: copies must not share index state
            if rest and rng.random() < 0.4:
                route.append(["fork_add", rest[-1]])
            else:
                route.append(["fork_remove", rng.choice(present)])
            route.append(["remove_absent", 99999])
        elif op == "add_from" and rest:
            m = rng.randint(1, len(rest))
            part, rest = rest[:m], rest[m:]
            present += part
            route.append(["add_from", part + ([rng.choice(present)] if rng.random() < 0.3 else [])])
        elif op == "cutout" and present:
            route.append(["cutout", G.gen_prim(rng, net, exact=net["exact"])])
            present = None  # decided by geometry; later ops only use what the network then holds
            break
        elif op in ("deepcopy", "deepcopy_self", "pickle", "scenario_copy"):
            route.append([op])
        elif op in ("xml", "pb") and present:
            route.append([op])
    return route


def gen_net_case(rng):
    while True:
        net = G.gen_network(rng)
        if all(G.ring_is_simple(G.lanelet_ring(ll)) for ll in net["lanelets"].values()):
            break
    route = gen_route(rng, net)
    queries = []
    for _ in range(rng.randint(3, 7)):
        p, where = G.gen_point(rng, net)
        queries.append({"k": "pos", "p": p, "where": where})
    for _ in range(rng.randint(2, 4)):
        queries.append({"k": "shape", "s": G.gen_prim(rng, net, exact=net["exact"] and rng.random() < 0.7)})
    if rng.random() < 0.3:
        queries.append({"k": "shape", "s": G.gen_shape(rng, net, exact=net["exact"])})
    for _ in range(rng.randint(1, 2)):
        p, where = G.gen_point(rng, net)
        queries.append({"k": "contains", "p": p, "where": where})
    if rng.random() < 0.6:
        obs = []
        for j in range(rng.randint(1, 4)):
            at, _ = G.gen_point(rng, net)
            sh = G.gen_shape(rng, net, at=[0.0, 0.0], exact=net["exact"])
            if sh["k"] == "rect":
                sh["o"] = 0.0
            o = 0.0 if (net["exact"] or sh["k"] in ("poly", "group")) else rng.choice([0.0, 0.3, -1.1, math.pi / 2])
            ob = {"id": 900 + j, "shape": sh, "pos": at, "o": o}
            if rng.random() < 0.35:
                # the obstacle reaches its place by a public history: built elsewhere with the lanelet assignment a file
                # reader / assign_obstacles_to_lanelets records there, then moved by translate_rotate (dyadic offsets)
                ob["from"] = [at[0] + rng.choice([-12.0, -6.5, 4.0, 9.25, 30.0]), at[1] + rng.choice([-7.0, -3.5, 3.0, 6.25])]
            obs.append(ob)
        queries.append({"k": "obstacles", "obs": obs})
    return {"op": "net", "net": net, "route": route, "queries": queries}


def gen_shape_case(rng):
    exact = rng.random() < 0.4
    quant = G.q16 if exact else G.q3
    fake = {"exact": exact, "lanelets": {"1": {"left": [[-8.0, 4.0], [8.0, 4.0]], "right": [[-8.0, -4.0], [8.0, -4.0]]}}}
    at = [quant(rng.uniform(-5, 5)), quant(rng.uniform(-5, 5))]
    s = G.gen_shape(rng, fake, at=at, exact=exact)
    pts = []
    for m in G.prims(s):
        for _ in range(3):
            k = rng.random()
            if m["k"] == "circ":
                c, r = m["c"], m["r"]
                if k < 0.3:  # exactly on the circle: axis points and 3-4-5 points
                    dx, dy = rng.choice([(1, 0), (0, -1), (0.6, 0.8), (-0.8, 0.6), (0.28, 0.96)])
                    pts.append([c[0] + r * dx, c[1] + r * dy])
                elif k < 0.6:  # between the exported half radius and the radius
                    a = rng.uniform(0, 2 * math.pi)
                    t = rng.uniform(0.55, 0.95)
                    pts.append([quant(c[0] + t * r * math.cos(a)), quant(c[1] + t * r * math.sin(a))])
                else:
                    a = rng.uniform(0, 2 * math.pi)
                    t = rng.choice([0.2, 1.05, 1.5, 3.0])
                    pts.append([quant(c[0] + t * r * math.cos(a)), quant(c[1] + t * r * math.sin(a))])
            else:
                ring = [[float(x), float(y)] for x, y in G.shape_ring(m)]
                i = rng.randrange(len(ring))
                a, b = ring[i], ring[(i + 1) % len(ring)]
                if k < 0.2:
                    pts.append(list(a))
                elif k < 0.4:
                    pts.append([(a[0] + b[0]) / 2, (a[1] + b[1]) / 2])
                elif k < 0.7:
                    cx = sum(v[0] for v in ring) / len(ring)
                    cy = sum(v[1] for v in ring) / len(ring)
                    t = rng.choice([0.5, 0.9, 0.999, 1.001, 1.1, 1.5])
                    pts.append([quant(cx + t * (a[0] - cx)), quant(cy + t * (a[1] - cy))])
                else:
                    pts.append([quant(at[0] + rng.uniform(-6, 6)), quant(at[1] + rng.uniform(-6, 6))])
    if rng.random() < 0.2:
        pts.append([quant(rng.uniform(-1e5, 1e5)), quant(rng.uniform(-1e5, 1e5))])
    case = {"op": "shape", "s": s, "pts": pts, "exact": exact}
    if rng.random() < 0.3:
        case["via"] = rng.randrange(1 << 30)    # the object reaches these values through its setters, after being queried
    elif rng.random() < 0.25:
        # the object is the result of translate_rotate of an object that answered queries before (seed C06-15)
        case["moved"] = rng.choice([[3.0, -2.0, 0.0], [0.5, 4.0, 0.0], [-10.0, 0.25, 0.3], [2.0, 1.0, -1.2]])
        case["exact"] = False    # the motion is computed in floating point: decisions on the boundary itself are not judged
    return case


def gen(rng, n):
    return [gen_shape_case(rng) if rng.random() < 0.4 else gen_net_case(rng) for _ in range(n)]


def kind(c):
    if c["op"] == "shape":
        return "shape:" + c["s"]["k"]
    return "net:" + "+".join(r[0] for r in c["route"])[:60]


# ------------------------------------------------------------------------------------------ brute-force truth
def is_dyadic(x, bits=8):
    f = F(x)
    return f.denominator & (f.denominator - 1) == 0 and f.denominator <= 2 ** bits


def all_dyadic(vals):
    return all(is_dyadic(v) for v in vals)


def pip_truth(ring, p):
    """(inside, near): ring / p raw floats.  near = within the guard of the boundary and not exactly decidable"""
    poly = sg.Polygon(ring)
    d = poly.exterior.distance(sg.Point(p))
    if d > CLOSE:
        return bool(poly.contains(sg.Point(p))), False
    rq, pq = G.ring_exact(ring), G.fr(p)
    d2 = G.boundary_dist2(rq, pq)
    if d2 == 0:
        # exactly on the boundary: included when the coordinates are such that floating point is exact there
        ok = all_dyadic([p[0], p[1]] + [c for v in ring for c in v]) or any(G.fr(v) == pq for v in ring)
        return True, not ok
    return G.pip(rq, pq), float(d2) < GUARD * GUARD


def prim_contains_truth(s, p, exact, rounded=False):
    inside, margin = G.prim_contains_exact(s, p)
    if margin >= GUARD:
        return inside, False
    if rounded:                 # the object's values were computed in floating point (a moved shape): never exact
        return inside, True
    if s["k"] == "circ":
        d2 = (F(p[0]) - F(s["c"][0])) ** 2 + (F(p[1]) - F(s["c"][1])) ** 2
        on = d2 == F(s["r"]) ** 2
        return inside, not (on and exact and all_dyadic([p[0], p[1], s["r"]] + s["c"]))
    ring = G.shape_ring(s)
    on = G.boundary_dist2(ring, G.fr(p)) == 0
    vals = [p[0], p[1]] + ([s["l"], s["w"]] + s["c"] if s["k"] == "rect" else [c for v in s["v"] for c in v])
    axis = s["k"] != "rect" or s["o"] == 0
    return inside, not (on and axis and all_dyadic(vals))


def prim_raw_geom(s):
    if s["k"] == "circ":
        return None
    return sg.Polygon([[float(x), float(y)] for x, y in G.shape_ring(s)])


CIRC_SIG = "Circle.shapely_object:radius"


def meets_truth(s, ring, exact, half=False):
    """(meets, near) for a primitive raw shape and a raw lanelet ring.  half=True: the disc a Circle really exports
    (Point.buffer(radius / 2), the recorded finding CIRC_SIG) instead of the disc of its radius"""
    lan = sg.Polygon(ring)
    if s["k"] == "circ":
        d = lan.distance(sg.Point(s["c"]))
        r = float(s["r"]) / 2 if half else float(s["r"])
        return d <= r, abs(d - r) < DISC_BAND * r + GUARD
    g = prim_raw_geom(s)
    d = lan.distance(g)
    if d > CLOSE:
        return False, False
    if d == 0:
        inter = lan.intersection(g)
        if inter.area > CLOSE:
            return True, False
    # touching or nearly so: exact arithmetic
    rq = G.ring_exact(ring)
    sq = G.shape_ring(s)
    m = G.ring_meets(sq, rq)
    vals = [c for v in ring for c in v] + ([s["l"], s["w"]] + s["c"] if s["k"] == "rect" else [c for v in s["v"] for c in v])
    axis = s["k"] != "rect" or s["o"] == 0
    if all_dyadic(vals) and axis:
        return m, False
    if m:
        # overlapping by less than CLOSE in area or touching: undecidable in floating point
        return m, True
    return m, float(G.ring_dist2(sq, rq)) < GUARD * GUARD


def shape_to_raw(sh):
    """raw parameters of a commonroad shape (read back through public attributes)"""
    if isinstance(sh, Rectangle):
        return {"k": "rect", "l": float(sh.length), "w": float(sh.width), "c": [float(sh.center[0]), float(sh.center[1])],
                "o": float(sh.orientation)}
    if isinstance(sh, Circle):
        return {"k": "circ", "r": float(sh.radius), "c": [float(sh.center[0]), float(sh.center[1])]}
    if isinstance(sh, Polygon):
        v = [[float(x), float(y)] for x, y in sh.vertices]
        if len(v) > 1 and v[0] == v[-1]:
            v = v[:-1]
        return {"k": "poly", "v": v}
    return {"k": "group", "m": [shape_to_raw(m) for m in sh.shapes]}


# ------------------------------------------------------------------------------------------ implementation
def guarded(fn, *a, **k):
    try:
        return ("ok", fn(*a, **k))
    except Exception as e:  # noqa
        return ("exc", type(e).__name__)


def current_rings(net):
    """id -> raw ring of the lanelets the network holds now (right boundary + reversed left boundary, read from
    the vertex arrays, not from the polygon / index)"""
    out = {}
    for la in net.lanelets:
        r = [[float(x), float(y)] for x, y in la.right_vertices] + \
            [[float(x), float(y)] for x, y in la.left_vertices[::-1]]
        out[la.lanelet_id] = r
    return out


class Handles:
    def __init__(self):
        self.next = 1
        self.copies = 0

    def fresh(self):
        self.next += 1
        return self.next - 1

    def shift(self):
        self.copies += 1
        return 100000 * self.copies


def write_read(sc, fmt):
    path = os.path.join(tmpdir(), "ZAM_Test-1_1_T-1" + (".xml" if fmt == "xml" else ".pb"))
    ff = FileFormat.XML if fmt == "xml" else FileFormat.PROTOBUF
    CommonRoadFileWriter(sc, PlanningProblemSet(), "a", "b", "c", {Tag.URBAN}, file_format=ff) \
        .write_to_file(path, OverwriteExistingFile.ALWAYS, check_validity=False)
    sc2, _ = CommonRoadFileReader(path, file_format=ff).open()
    return sc2


def run_route(case):
    """executes the construction route.  Returns (network | None, model ops, error | None, last op name)"""
    raw = case["net"]["lanelets"]
    H = Handles()
    ops = []  # model ops
    net, sc = None, None

    def fresh_lanelets(ids):
        out = []
        for i in ids:
            la = G.make_lanelet(i, raw[str(i)])
            out.append((la, (int(i), H.fresh(), G.lanelet_ring(raw[str(i)]))))
        return out

    def from_current(n):
        rings = current_rings(n)
        return [(i, H.fresh(), rings[i]) for i in rings]

    last = "?"
    try:
        for step in case["route"]:
            op = last = step[0]
            if op == "empty":
                net = LaneletNetwork()
            elif op == "from_list":
                ls = fresh_lanelets(step[1])
                net = LaneletNetwork.create_from_lanelet_list([la for la, _ in ls])
                ops.append(("fromlist", [m for _, m in ls]))
            elif op == "one_by_one":
                net = LaneletNetwork()
                for la, m in fresh_lanelets(step[1]):
                    net.add_lanelet(la)
                    ops.append(("add", m))
            elif op == "scenario_net":
                ls = fresh_lanelets(step[1])
                sc = Scenario(0.1, ScenarioID())
                sc.add_objects(LaneletNetwork.create_from_lanelet_list([la for la, _ in ls]))
                net = sc.lanelet_network
                ops.append(("fromlist", [m for _, m in ls]))
            elif op == "scenario_each":
                sc = Scenario(0.1, ScenarioID())
                for la, m in fresh_lanelets(step[1]):
                    sc.add_objects(la)
                    ops.append(("add", m))
                net = sc.lanelet_network
            elif op in ("add", "add_dup"):
                (la, m), = fresh_lanelets([step[1]])
                if sc is not None and op == "add":
                    sc.add_objects(la)
                else:
                    net.add_lanelet(la)
                    sc = None  # from here on the network is used on its own
                ops.append(("add", m))
            elif op == "add_clone":
                src_la = net.find_lanelet_by_id(step[1])
                if src_la is not None:
                    clone = copy.deepcopy(src_la)
                    clone.lanelet_id = 9000 + int(step[1])
                    net.add_lanelet(clone)
                    sc = None
                    ops.append(("add", (9000 + int(step[1]), H.fresh(), current_rings(net)[int(step[1])])))
            elif op == "remove":
                la = net.find_lanelet_by_id(step[1])
                if sc is not None and la is not None:
                    sc.remove_lanelet(la)
                else:
                    net.remove_lanelet(step[1])
                ops.append(("remove", step[1]))
            elif op == "add_lazy":
                (la, m), = fresh_lanelets([step[1]])
                net.add_lanelet(la, rtree=False)
                sc = None
                ops.append(("add", m))
            elif op == "remove_lazy":
                net.remove_lanelet(step[1], rtree=False)
                sc = None
                ops.append(("remove", step[1]))
            elif op == "remove_absent":
                net.remove_lanelet(step[1])
                sc = None
                ops.append(("remove", step[1]))
            elif op in ("fork_remove", "fork_add"):
                other = copy.deepcopy(net)
                if op == "fork_remove":
                    other.remove_lanelet(step[1])
                else:
                    (la, _m), = fresh_lanelets([step[1]])
                    other.add_lanelet(la)
                _FORKS.append(other)      # stays alive: identity-keyed index entries must not be recycled
                del _FORKS[:-4]
                ops.append(("deepcopy_self",))
            elif op == "add_from":
                ls = fresh_lanelets(step[1])
                other = LaneletNetwork()
                seen = set()
                for la, _ in ls:
                    if la.lanelet_id not in seen:
                        if net.find_lanelet_by_id(la.lanelet_id) is not None:
                            # the other network uses this id for a lanelet somewhere else: the receiving network keeps
                            # its own lanelet (and must keep looking it up where it is)
                            la.translate_rotate(np.array([437.0, -291.0]), 0.0)
                        other.add_lanelet(la)
                        seen.add(la.lanelet_id)
                net.add_lanelets_from_network(other)
                sc = None
                keep, seen = [], set()
                for _, m in ls:
                    if m[0] not in seen:
                        keep.append(m)
                        seen.add(m[0])
                ops.append(("addfrom", keep))
            elif op == "deepcopy":
                net = copy.deepcopy(net)
                sc = None
                ops.append(("deepcopy", H.shift()))
            elif op == "deepcopy_self":
                _ = copy.deepcopy(net)
                ops.append(("deepcopy_self",))
            elif op == "scenario_copy":
                if sc is None:
                    sc = Scenario(0.1, ScenarioID())
                    sc.add_objects(net)
                sc = copy.deepcopy(sc)
                net = sc.lanelet_network
                ops.append(("deepcopy", H.shift()))
            elif op == "pickle":
                net = pickle.loads(pickle.dumps(net))
                sc = None
                ops.append(("pickle", H.shift()))
            elif op in ("xml", "pb"):
                if len(net.lanelets) == 0:
                    continue
                s0 = Scenario(0.1, ScenarioID(), author="a", tags={Tag.URBAN}, affiliation="b", source="c")
                s0.add_objects(copy.deepcopy(net))
                sc = write_read(s0, op)
                net = sc.lanelet_network
                ops.append(("fromlist", from_current(net)))
            elif op == "cutout":
                shape = G.make_shape(step[1])
                net = LaneletNetwork.create_from_lanelet_network(net, shape_input=shape)
                sc = None
                ops.append(("fromlist", from_current(net)))
            else:
                raise RuntimeError(op)
    except Exception as e:  # noqa  (a construction route that raises is judged by the oracle)
        return None, ops, f"{type(e).__name__}", last
    return net, ops, None, last


def make_obstacle(o, net=None):
    def at(pos, **kw):
        return StaticObstacle(o["id"], ObstacleType.PARKED_VEHICLE, G.make_shape(o["shape"]),
                              InitialState(time_step=0, position=np.array(pos, dtype=float), orientation=o["o"],
                                           velocity=0.0, acceleration=0.0, yaw_rate=0.0, slip_angle=0.0), **kw)
    if o.get("from") is None or net is None:
        return at(o["pos"])
    ob = at(o["from"])
    try:   # what a reader with lanelet assignment records for the place the obstacle was built at
        ids = set(net.find_lanelet_by_shape(ob.occupancy_at_time(0).shape))
        cen = set(net.find_lanelet_by_position([np.array(o["from"], dtype=float)])[0])
    except Exception:  # noqa - the lookups themselves are judged by the other queries
        return at(o["pos"])
    ob = at(o["from"], initial_shape_lanelet_ids=ids, initial_center_lanelet_ids=cen)
    ob.translate_rotate(np.array([o["pos"][0] - o["from"][0], o["pos"][1] - o["from"][1]]), 0.0)
    return ob


def observe_net(case):
    net, ops, err, last = run_route(case)
    ob = {"ops": ops, "err": err, "last": last, "q": [], "rings": None}
    if err is not None:
        return ob
    ob["rings"] = current_rings(net)
    pos = [q["p"] for q in case["queries"] if q["k"] == "pos"]
    batch = guarded(net.find_lanelet_by_position, [np.array(p, dtype=float) for p in pos])
    bi = 0
    for q in case["queries"]:
        if q["k"] == "pos":
            single = guarded(lambda: net.find_lanelet_by_position([np.array(q["p"], dtype=float)])[0])
            b = ("ok", batch[1][bi]) if batch[0] == "ok" else batch
            bi += 1
            ob["q"].append({"single": single, "batch": b})
        elif q["k"] == "shape":
            entry = {"r": guarded(net.find_lanelet_by_shape, G.make_shape(q["s"]))}
            if not any("near" in x for x in ob["q"]):
                # the same shape a hair's breadth away (below every rounding a key could apply), asked of this network -
                # which has just answered for the original - and of a copy that has answered nothing yet
                try:
                    fresh = copy.deepcopy(net)
                    diffs = []
                    for dx, dy in ((4e-11, 0.0), (-4e-11, 0.0), (0.0, 4e-11), (0.0, -4e-11)):
                        s2 = G.make_shape(q["s"]).translate_rotate(np.array([dx, dy]), 0.0)
                        used = guarded(lambda: sorted(net.find_lanelet_by_shape(s2)))
                        new = guarded(lambda: sorted(fresh.find_lanelet_by_shape(s2)))
                        if used != new:
                            diffs.append([[dx, dy], used, new])
                    # ... and a unit box that touches the leftmost edge of a lanelet exactly, then the same box 4e-11 off
                    rings_now = current_rings(net)
                    if rings_now:
                        ring = rings_now[sorted(rings_now)[0]]
                        xmin = min(p_[0] for p_ in ring)
                        ys = [p_[1] for p_ in ring if p_[0] == xmin]
                        if ys:
                            box = Rectangle(1.0, 1.0, np.array([xmin - 0.5, (min(ys) + max(ys)) / 2.0]), 0.0)
                            guarded(lambda: net.find_lanelet_by_shape(box))
                            off = box.translate_rotate(np.array([-4e-11, 0.0]), 0.0)
                            used = guarded(lambda: sorted(net.find_lanelet_by_shape(off)))
                            new = guarded(lambda: sorted(fresh.find_lanelet_by_shape(off)))
                            if used != new:
                                diffs.append([["touching box", -4e-11], used, new])
                    entry["near"] = diffs
                except Exception:  # noqa - copying is judged by its own route
                    entry["near"] = []
            ob["q"].append(entry)
        elif q["k"] == "contains":
            ob["q"].append({"r": {la.lanelet_id: guarded(lambda: bool(la.contains_points(np.array([q["p"], q["p"]], dtype=float))[0]))
                                  for la in net.lanelets}})
        elif q["k"] == "obstacles":
            obstacles = [make_obstacle(o, net) for o in q["obs"]]
            placed = {o.obstacle_id: shape_to_raw(o.occupancy_at_time(0).shape) for o in obstacles}
            per = {la.lanelet_id: guarded(lambda: [o.obstacle_id for o in la.get_obstacles(obstacles, 0)])
                   for la in net.lanelets}
            mp = guarded(lambda: {k: [o.obstacle_id for o in v]
                                  for k, v in net.map_obstacles_to_lanelets(obstacles).items()})
            fl = guarded(lambda: [o.obstacle_id for o in net.filter_obstacles_in_network(obstacles)])
            twin = None
            if len(q["obs"]) >= 2:
                # a list may hold two different obstacles with one id (candidate poses of a vehicle, obstacles of two
                # scenarios): obstacle B again, carrying A's id, is on the network exactly when B is
                bc = make_obstacle(dict(q["obs"][1], id=q["obs"][0]["id"]), net)
                twin = guarded(lambda: (lambda res: [any(x is obstacles[1] for x in res), any(x is bc for x in res)])(
                    net.filter_obstacles_in_network(obstacles + [bc])))
            ob["q"].append({"placed": placed, "per": per, "map": mp, "filter": fl, "twin": twin})
    # the cut-out route: which lanelets should have survived
    return ob


def observe_shape(case):
    s = case["s"]
    trace = []
    if case.get("moved") is not None:
        sh = G.make_shape_moved(s, case["moved"])
    else:
        sh = G.make_shape(s) if case.get("via") is None else G.make_shape_via(s, case["via"], trace)
    ob = {"via_trace": trace, "contains": [guarded(lambda: bool(sh.contains_point(np.array(p, dtype=float)))) for p in case["pts"]],
          "members": []}
    for m, msh in zip(G.prims(s), sh.shapes if s["k"] == "group" else [sh]):
        geo = msh.shapely_object
        coords = [[float(x), float(y)] for x, y in geo.exterior.coords]
        ob["members"].append({"coords": coords, "area": float(geo.area)})
    return ob


_OBS = {}


def observe(case):
    k = id(case)
    if k not in _OBS:
        _OBS[k] = (case, observe_shape(case) if case["op"] == "shape" else observe_net(case))
    return _OBS[k][1]


# ------------------------------------------------------------------------------------------ judged decisions
def judge_shape(case, ob):
    """yields (signature, what) failures; fills ob['near'] (indices of excluded points)"""
    s, exact = case["s"], case["exact"]
    ob["near"] = []
    out = []
    if case.get("via") is not None:   # same demands; the signature says how the object got its values
        plain = dict(case)
        del plain["via"]
        res = []
        judged = judge_shape(plain, ob)
        half = all(abs(mo.get("radius", 0.0) - float(m["r"]) / 2) <= 1e-9 * max(1.0, float(m["r"]))
                   for m, mo in zip(G.prims(s), ob["members"]) if m["k"] == "circ")
        for sig, what in judged:
            if sig == "Circle.shapely_object:radius" and half:
                res.append((sig, what))     # the half-radius disc of the CURRENT radius: the recorded finding, not a stale one
            else:
                res.append((sig + ":values assigned through the setters after queries", what + " [object built with other "
                            "values, queried, then set to these values through its public setters]"))
        return res
    for j, (m, mo) in enumerate(zip(G.prims(s), ob["members"])):
        if m["k"] == "circ":
            c = m["c"]
            ds = [math.hypot(x - c[0], y - c[1]) for x, y in mo["coords"]]
            r = float(m["r"])
            mo["radius"] = max(ds)
            if not (abs(max(ds) - r) <= 1e-9 * max(1.0, r) and min(ds) >= r * (1 - 1e-9) - 1e-12
                    and 0.99 * math.pi * r * r <= mo["area"] <= math.pi * r * r * (1 + 1e-9)):
                out.append(("Circle.shapely_object:radius",
                            f"Circle(r={r}).shapely_object has vertex radius {max(ds):.6g} and area {mo['area']:.6g} "
                            f"(disc: {math.pi * r * r:.6g})"))
        else:
            want = [[float(x), float(y)] for x, y in G.shape_ring(m)]
            got = mo["coords"][:-1] if len(mo["coords"]) > 1 and mo["coords"][0] == mo["coords"][-1] else mo["coords"]
            tol = 1e-9 * (1 + max(abs(c) for v in want for c in v))
            ok = len(got) == len(want) and all(min(math.hypot(g[0] - w[0], g[1] - w[1]) for w in want) <= tol for g in got) \
                and all(min(math.hypot(g[0] - w[0], g[1] - w[1]) for g in got) <= tol for w in want)
            if not ok:
                out.append((f"{'Rectangle' if m['k'] == 'rect' else 'Polygon'}.shapely_object:vertices",
                            f"exported ring {got} is not the ring of {m}"))
    for i, (p, o) in enumerate(zip(case["pts"], ob["contains"])):
        truths = [prim_contains_truth(m, p, exact, rounded=case.get("moved") is not None) for m in G.prims(s)]
        exp = any(t for t, _ in truths)
        # near: some member's decision is near and it matters for the union
        near = any(n for _, n in truths) and not any(t and not n for t, n in truths)
        if near:
            ob["near"].append(i)
            continue
        cls = {"rect": "Rectangle", "circ": "Circle", "poly": "Polygon", "group": "ShapeGroup"}[s["k"]]
        if o[0] != "ok":
            out.append((f"{cls}.contains_point:raises", f"{cls}.contains_point({p}) raises {o[1]} for {s}"))
        elif o[1] != exp:
            out.append((f"{cls}.contains_point", f"{cls}.contains_point({p}) = {o[1]}, the set it denotes says {exp}: {s}"))
    return out


def route_sig(case):
    return case["route"][-1][0]


def judge_net(case, ob):
    out = []
    ob["skip"] = set()  # indices of queries with a near-boundary decision
    ob["skip_corr"] = set()  # judged by the oracle, but too near a boundary of the model's (exported) geometry
    rs = route_sig(case)
    if ob["err"] is not None:
        return [(f"route:{ob['last']}:raises", f"construction route {case['route']} raises {ob['err']}")]
    rings = ob["rings"]
    exact = case["net"]["exact"]
    # cut-out: the surviving lanelets are those meeting the shape
    if case["route"][-1][0] == "cutout":
        pass  # judged through the lookups below (index of the new network) and by C10
    for qi, (q, o) in enumerate(zip(case["queries"], ob["q"])):
        if q["k"] == "pos":
            truth = {i: pip_truth(r, q["p"]) for i, r in rings.items()}
            if any(n for _, n in truth.values()):
                ob["skip"].add(qi)
                continue
            exp = sorted(i for i, (t, _) in truth.items() if t)
            o["exp"] = exp
            for how in ("single", "batch"):
                r = o[how]
                if r[0] != "ok":
                    out.append((f"find_lanelet_by_position:{rs}:raises",
                                f"find_lanelet_by_position raises {r[1]} after route {[s[0] for s in case['route']]}"))
                elif sorted(r[1]) != exp:
                    out.append((f"find_lanelet_by_position:{rs}",
                                f"find_lanelet_by_position({q['p']}) [{how}] = {sorted(r[1])}, brute force = {exp} "
                                f"({q['where']}, route {[s[0] for s in case['route']]})"))
        elif q["k"] == "shape":
            s = q["s"]
            if o.get("near"):
                d0 = o["near"][0]
                out.append((f"find_lanelet_by_shape:{s['k']}:answer depends on what the network answered before",
                            f"find_lanelet_by_shape of {s} moved by {d0[0]}: {d0[1]} from the network that had just answered "
                            f"for the unmoved shape, {d0[2]} from a copy that had answered nothing"))
            if s["k"] == "group":
                o["group"] = True  # the API rejects shape groups by assertion: recorded, not judged (DESIGN 2.7)
                ob["skip"].add(qi)
                continue
            truth = {i: meets_truth(s, r, exact) for i, r in rings.items()}
            if any(n for _, n in truth.values()):
                ob["skip"].add(qi)
                continue
            exp = sorted(i for i, (t, _) in truth.items() if t)
            o["exp"] = exp
            r = o["r"]
            th = {i: meets_truth(s, rg, exact, half=True) for i, rg in rings.items()} if s["k"] == "circ" else None
            if th is not None and any(n for _, n in th.values()):
                ob["skip_corr"].add(qi)  # the model (half-radius disc, as the code) decides this one near a boundary
            if r[0] != "ok":
                out.append((f"find_lanelet_by_shape:{s['k']}:{rs}:raises", f"find_lanelet_by_shape({s}) raises {r[1]}"))
            elif sorted(r[1]) != exp:
                sig = f"find_lanelet_by_shape:{s['k']}"
                if th is not None:
                    lo = {i for i, (t, n) in th.items() if t and not n}
                    hi = {i for i, (t, n) in th.items() if t or n}
                    if lo <= set(r[1]) <= hi:
                        sig = CIRC_SIG  # exactly the answer for the half-radius disc the Circle exports
                out.append((sig, f"find_lanelet_by_shape({s}) = {sorted(r[1])}, brute force = {exp} "
                                 f"(route {[x[0] for x in case['route']]})"))
        elif q["k"] == "contains":
            truth = {i: pip_truth(r, q["p"]) for i, r in rings.items()}
            if any(n for _, n in truth.values()):
                ob["skip"].add(qi)
                continue
            for i, (t, _) in truth.items():
                r = o["r"][i]
                if r[0] != "ok":
                    out.append(("Lanelet.contains_points:raises", f"contains_points raises {r[1]}"))
                elif r[1] != t:
                    out.append(("Lanelet.contains_points", f"lanelet {i}.contains_points({q['p']}) = {r[1]}, polygon says {t}"))
        elif q["k"] == "obstacles":
            placed = o["placed"]
            def scan(half):
                truth, near = {}, False
                for lid, ring in rings.items():
                    ids = []
                    for oid, raw in placed.items():
                        ts = [meets_truth(m, ring, exact, half=half) for m in G.prims(raw)]
                        if any(n for _, n in ts) and not any(t and not n for t, n in ts):
                            near = True
                        if any(t for t, _ in ts):
                            ids.append(int(oid))
                    truth[lid] = sorted(ids)
                return truth, near
            truth, near = scan(False)
            if near:
                ob["skip"].add(qi)
                continue
            has_circ = any(m["k"] == "circ" for raw in placed.values() for m in G.prims(raw))

            def half_bounds():
                """per lanelet (ids that surely meet, ids that may meet) when every Circle is the half-radius disc it
                really exports; near-boundary decisions may go either way"""
                lo, hi = {}, {}
                for lid, ring in rings.items():
                    lo[lid], hi[lid] = set(), set()
                    for oid, raw in placed.items():
                        ts = [meets_truth(m, ring, exact, half=True) for m in G.prims(raw)]
                        if any(t and not n for t, n in ts):
                            lo[lid].add(int(oid))
                        if any(t or n for t, n in ts):
                            hi[lid].add(int(oid))
                return lo, hi
            hb = half_bounds() if has_circ else None
            o["hb_maybe"] = {l: sorted(hb[1][l] - hb[0][l]) for l in rings} if hb else {}

            def circ_sig(sig, got_map=None, got_all=None):
                """a disagreement that is exactly the answer for the half-radius discs the Circles export is the
                recorded finding CIRC_SIG; anything else keeps its own signature"""
                if hb is None:
                    return sig
                lo, hi = hb
                if got_map is not None:
                    ok = all(lo[l] <= set(got_map.get(l, ())) <= hi[l] for l in rings)
                else:
                    ok = set().union(*lo.values()) <= set(got_all) <= set().union(*hi.values())
                return CIRC_SIG if ok else sig
            o["exp"] = truth
            kinds = "+".join(sorted({m["k"] for raw in placed.values() for m in G.prims(raw)}))
            for lid, exp in truth.items():
                r = o["per"][lid]
                if r[0] != "ok":
                    out.append((f"Lanelet.get_obstacles:raises:{r[1]}", f"get_obstacles raises {r[1]} for {q['obs']}"))
                elif sorted(r[1]) != exp:
                    bad = sorted(set(r[1]) ^ set(exp))
                    bk = "+".join(sorted({m["k"] for b in bad for m in G.prims(placed[b])}))
                    out.append((circ_sig(f"Lanelet.get_obstacles:{bk}", got_map={**{l: (o["per"][l][1] if o["per"][l][0] == "ok" else []) for l in rings}}),
                                f"lanelet {lid}.get_obstacles = {sorted(r[1])}, brute force = {exp}; obstacles {placed}"))
            expmap = {k: v for k, v in truth.items() if v}
            if o["map"][0] != "ok":
                out.append((f"map_obstacles_to_lanelets:raises:{o['map'][1]}", f"raises {o['map'][1]} ({kinds})"))
            elif {k: sorted(v) for k, v in o["map"][1].items()} != expmap:
                out.append((circ_sig(f"map_obstacles_to_lanelets:{kinds}", got_map=o["map"][1]),
                            f"map_obstacles_to_lanelets = {o['map'][1]}, brute force = {expmap}; obstacles {placed}"))
            expf = sorted({i for v in truth.values() for i in v})
            if o["filter"][0] != "ok":
                out.append((f"filter_obstacles_in_network:raises:{o['filter'][1]}", f"raises {o['filter'][1]} ({kinds})"))
            elif sorted(o["filter"][1]) != expf:
                out.append((circ_sig(f"filter_obstacles_in_network:{kinds}", got_all=o["filter"][1]),
                            f"filter_obstacles_in_network = {sorted(o['filter'][1])}, brute force = {expf}; {placed}"))
            tw = o.get("twin")
            if tw is not None and tw[0] == "ok" and tw[1][0] != tw[1][1]:
                out.append(("filter_obstacles_in_network:an obstacle with the id of another one is treated differently",
                            f"filter_obstacles_in_network keeps obstacle {q['obs'][1]['id']}: {tw[1][0]}, the same obstacle "
                            f"carrying the id of obstacle {q['obs'][0]['id']} (also in the list): {tw[1][1]}; {placed}"))
    return out


def judge(case):
    ob = observe(case)
    if "judged" not in ob:
        ob["judged"] = judge_shape(case, ob) if case["op"] == "shape" else judge_net(case, ob)
    return ob["judged"]


def oracle(case):
    fails = judge(case)
    return fails[0] if fails else None


def nontrivial(case):
    ob = observe(case)
    judge(case)
    if case["op"] == "shape":
        return len(ob["near"]) < len(case["pts"])
    return ob["err"] is None and len(ob["skip"]) < len(case["queries"])


# ------------------------------------------------------------------------------------------ correspondence
def cpt(p):
    return f"({qq(p[0])}, {qq(p[1])})"


def cring(r):
    return qlist([cpt(v) for v in r])


def cprim(s):
    if s["k"] == "rect":
        cs, sn = G.rect_cs(s["o"])
        return (f"(PRect {{| rl := {qq(s['l'])}; rw := {qq(s['w'])}; rcx := {qq(s['c'][0])}; rcy := {qq(s['c'][1])}; "
                f"rcs := {qq(cs)}; rsn := {qq(sn)} |}})")
    if s["k"] == "circ":
        return f"(PCirc {{| cr := {qq(s['r'])}; ccx := {qq(s['c'][0])}; ccy := {qq(s['c'][1])} |}})"
    return f"(PPoly {cring(s['v'])})"


def clanelet(m):
    i, h, ring = m
    return f"{{| lid := {qz(i)}; lpoly := {{| ph := {h}%N; pr := {cring(ring)} |}} |}}"


def cop(o):
    if o[0] == "fromlist":
        return f"OFromList {qlist([clanelet(m) for m in o[1]])}"
    if o[0] == "addfrom":
        return f"OAddFrom {qlist([clanelet(m) for m in o[1]])}"
    if o[0] == "add":
        return f"OAdd {clanelet(o[1])}"
    if o[0] == "remove":
        return f"ORemove {qz(o[1])}"
    if o[0] == "deepcopy":
        return f"ODeepcopy (N.add {o[1]}%N)"
    if o[0] == "pickle":
        return f"OPickle (N.add {o[1]}%N)"
    return "ODeepcopySelf"


def cids(r):
    return f"(OIds {qlist([qz(i) for i in r[1]])})" if r[0] == "ok" else "OExc"


def coq_terms(case):
    """Coq case terms of one generated case (near-boundary decisions left out)"""
    ob = observe(case)
    judge(case)
    terms = []
    if case["op"] == "shape":
        s = case["s"]
        for m, mo in zip(G.prims(s), ob["members"]):
            if m["k"] == "circ":
                terms.append(f"CCircExport {cprim(m)[7:-1]} {qq(mo['radius'])}")
            elif m["k"] == "rect":
                terms.append(f"CRectVerts {cprim(m)[7:-1]} {cring(mo['coords'])}")
        for i, (p, o) in enumerate(zip(case["pts"], ob["contains"])):
            if i in ob["near"] or o[0] != "ok":
                continue
            if s["k"] == "group":
                terms.append(f"CGroup {qlist([cprim(m) for m in s['m']])} {cpt(p)} {qb(o[1])}")
            elif s["k"] == "rect":
                terms.append(f"CRect {cprim(s)[7:-1]} {cpt(p)} {qb(o[1])}")
            elif s["k"] == "circ":
                terms.append(f"CCirc {cprim(s)[7:-1]} {cpt(p)} {qb(o[1])}")
            else:
                terms.append(f"CPolyContains {cring(s['v'])} {cpt(p)} {qb(o[1])}")
                g = sg.Polygon(s["v"]).intersects(sg.Point(p))
                terms.append(f"CPip {cring(s['v'])} {cpt(p)} {qb(bool(g))}")
        return terms
    if ob["err"] is not None:
        return terms
    qs = []
    for qi, (q, o) in enumerate(zip(case["queries"], ob["q"])):
        if qi in ob["skip"]:
            continue
        if q["k"] == "shape" and qi in ob.get("skip_corr", ()):
            continue
        if q["k"] == "pos":
            qs.append(f"QPos {cpt(q['p'])} {cids(o['single'])}")
        elif q["k"] == "shape":
            qs.append(f"QShape {cprim(q['s'])} {cids(o['r'])}")
        elif q["k"] == "contains":
            if all(r[0] == "ok" for r in o["r"].values()):
                tab = qlist([f"({qz(i)}, {qb(r[1])})" for i, r in o["r"].items()])
                qs.append(f"QContains {cpt(q['p'])} {tab}")
        elif q["k"] == "obstacles":
            # every (lanelet, obstacle member) decision of get_obstacles is an intersects() of the lanelet polygon
            # with the member's exported geometry: compare as CMeets on the placed raw parameters
            for lid, r in o["per"].items():
                if r[0] != "ok":
                    continue
                for oid, raw in o["placed"].items():
                    ms = G.prims(raw)
                    if len(ms) == 1 and int(oid) not in o.get("hb_maybe", {}).get(lid, ()):
                        terms.append(f"CMeets {cprim(ms[0])} {cring(ob['rings'][lid])} {qb(int(oid) in r[1])}")
    terms.append(f"CNet {qlist([cop(x) for x in ob['ops']])} {qlist(qs)}")
    return terms


def corr(ctx, cases):
    terms, owner = [], []
    for c in cases:
        for t in coq_terms(c):
            terms.append(t)
            owner.append(c)
    imports = ("From Coq Require Import QArith ZArith NArith List Bool.\nImport ListNotations.\n"
               "From CR Require Import Base.QMod Model.Spatial Corr.Obs Corr.C06.\nOpen Scope Q_scope.\n")
    bad, errors = ctx.coq_bad_indices("corr", imports, "", terms, "check", shard=150)
    near = sum(len(observe(c).get("near", [])) + len(observe(c).get("skip", [])) for c in cases)
    ctx.coverage["correspondence_cases"] = len(terms)
    ctx.coverage["near_boundary_excluded"] = near
    for e in errors:
        ctx.corr_break("Corr.C06.check (coqc failed)", e)
    for i in bad:
        ctx.corr_break("Corr.C06.check: Model/Spatial.v vs commonroad shapes / LaneletNetwork lookups",
                       {"case": owner[i], "term": terms[i][:2000]})
    ctx.log(f"corr cases={len(terms)} disagree={len(bad)} coq_errors={len(errors)} near_boundary_excluded={near}")


def cache_terms(case):
    """Corr.C06Cache terms of a shape case whose object was reached through its setters (one per primitive object)"""
    out = []
    if case["op"] != "shape" or case.get("via") is None:
        return out
    for rec in observe(case).get("via_trace", []):
        if any(f is None for st in rec["steps"] for f in st[1:3]):
            return None     # a cache attribute is gone (renamed): the model's flags cannot be observed
        steps = qlist([f"({op}, {{| o_verts := {qb(v)}; o_geom := {qb(g)}; o_fresh := {qb(fr)} |}})"
                       for op, v, g, fr in rec["steps"]])
        if rec["k"] == "rect":
            out.append(f"CRectHist {rec['init'][0]} {rec['init'][1]} {rec['init'][2]} {rec['init'][3]} {steps}")
        elif rec["k"] == "circ":
            out.append(f"CCircHist {rec['init'][0]} {rec['init'][1]} {steps}")
        else:
            out.append(f"CPolyHist [{rec['init'][0]}] {steps}")
    return out


def corr_cache(ctx, cases):
    terms, owner, unobservable = [], [], 0
    for c in cases:
        ts = cache_terms(c)
        if ts is None:
            unobservable += 1
            continue
        for t in ts:
            terms.append(t)
            owner.append(c)
    imports = ("From Coq Require Import ZArith List Bool.\nImport ListNotations.\n"
               "From CR Require Import Model.ShapeCache Corr.C06Cache.\nOpen Scope Z_scope.\n")
    bad, errors = ctx.coq_bad_indices("corrcache", imports, "", terms, "check", shard=300)
    ctx.coverage["correspondence_setter_histories"] = len(terms)
    if unobservable:
        ctx.corr_break("Corr.C06Cache.check: the cache attributes of Rectangle / Circle / Polygon are not observable "
                       "(renamed or removed)", {"cases": unobservable})
    for e in errors:
        ctx.corr_break("Corr.C06Cache.check (coqc failed)", e)
    for i in bad:
        ctx.corr_break("Corr.C06Cache.check: Model/ShapeCache.v vs Rectangle / Circle / Polygon setter histories",
                       {"case": owner[i], "term": terms[i][:1500]})
    ctx.log(f"corr setter histories={len(terms)} disagree={len(bad)} coq_errors={len(errors)}")


def run(ctx):
    ctx.trusted = ["Coq 8.16.1 kernel + vm_compute (no native_compute)",
                   "axioms: none (Print Assumptions: Closed under the global context for every theorem)",
                   "hand-written model coq/Model/Spatial.v of commonroad/scenario/lanelet.py:690-741,1277-1315,1432-1460,"
                   "1565-1610,1783-1805,1917-1931,1971-2087 and commonroad/geometry/shape.py:27-558, tied to the code by "
                   "the correspondence relation coq/Corr/C06.v evaluated on every run",
                   "GEOS / shapely predicates (intersects, dwithin, STRtree.query completeness, buffer): the theorems treat "
                   "polygon/shape intersection as an arbitrary predicate; pip = GEOS on simple rings is correspondence only",
                   "hand-written model coq/Model/ShapeCache.v of the Rectangle / Circle / Polygon setters and the geometry they "
                   "cache (shape.py, after fix: 26019d9 f1d0f2d 81f16ab), tied to the code by coq/Corr/C06Cache.v on setter / "
                   "query histories (cache flags read off the objects' private attributes)",
                   "harness/props/c06.py, c06_geom.py (generators, brute-force oracle, Coq term printer)",
                   "IEEE-754 arithmetic of numpy (rounded; model exact over Q); libm cos / sin taken as exact rationals"]
    mod = __import__("props.c06", fromlist=["x"])
    ctx.trusted.insert(3, "harness/props/cache_src.py: parser of the syntax trees of the public setters of Rectangle / Circle / Polygon (geometry/shape.py) "
                          "into rows (store / drop / rebuild, in order; conditional tail) of the table of coq/Model/CacheTable.v, "
                          "with dependency lists derived from what the filling code reads, regenerated on every run as "
                          "coq/Gen/Src_cachetable.v (fail-closed); C06_rectangle_setters_are_source / C06_circle_setters_are_source / C06_polygon_setters_are_source instantiate the generic theorem of "
                          "Proofs/CacheTable.v (every history of checked setters and queries is coherent and answers as a "
                          "fresh object) with the parsed tables, whose check is evaluated by the kernel; trusted: the parser, "
                          "its SPECS (which attributes are primary / derived and where the derived ones are filled), and that "
                          "a rebuild stores the value a fresh object computes (observed by the correspondence)")
    from props import cache_src
    try:
        changed = cache_src.generate()
        ctx.notes.append(f"Gen/Src_cachetable.v regenerated from the source ({'changed' if changed else 'unchanged'})")
    except Exception as e:   # SourceShapeError, SyntaxError, OSError: the tables are no longer shown to be the source's
        ctx.proof_breaks.append({"theorem": "source parser:Gen/Src_cachetable.v (C06_rectangle_setters_are_source / C06_circle_setters_are_source / C06_polygon_setters_are_source)",
                                 "where": "harness/props/cache_src.py", "log": str(e)})
        ctx.log(f"proof_broken theorem=C06_*_setters_are_source (source parser: {e})")
    try:
        ctx.build_props(extra_targets=["Corr/C06Cache.vo"])
        if ctx.tier == "thorough":
            ctx.coqchk()
        n = ctx.n(600, 9000)
        from vlib.flow import load_corpus
        cases = load_corpus(ctx.prop) + gen(ctx.rng, n)

        def run_oracle(cs):
            for c in cs:
                ctx.count(strip_case(c), nontrivial(c), kind(c))
                for sig, what in judge(c):
                    ctx.fail(sig, what, strip_case(c))

        run_oracle(cases)
        # correspondence in batches (bounded memory / file sizes)
        for s in range(0, len(cases), 1300):
            corr(ctx, cases[s:s + 1300])
        corr_cache(ctx, cases)
        if (ctx.proof_breaks or ctx.corr_breaks) and not ctx.failures:
            ctx.log(f"proof/correspondence broke ({len(ctx.proof_breaks)}/{len(ctx.corr_breaks)}); widening the search")
            run_oracle(gen(ctx.rng, n * 4))
        return ctx.finish(RULE, assumptions=ASSUME)
    finally:
        if _TMP is not None:
            shutil.rmtree(_TMP, ignore_errors=True)
    _ = mod


def strip_case(c):
    return c
