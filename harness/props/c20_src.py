"""C20 translator tie: Lanelet.distance, Lanelet._compute_polyline_cumsum_dist (called with one polyline, as the
`distance` property does) and Lanelet.interpolate_position of commonroad/scenario/lanelet.py are translated to Gallina
on every run (coq/Gen/Src_arclen.v); Proofs/SrcArcLen.v proves the translated functions equal to the hand-written
model of Model/ArcLen.v (cum, interpolate) that the C20 theorems are about.

Formulation: a lanelet whose cached `_distance` is None (the state after construction and after every vertex
setter), so that interpolate_position computes its own distance array; np.sqrt is an uninterpreted function sqrt_,
and the model's oracle list `ls` is instantiated with  map sqrt_ (map norm2 (deltas centre)).

Stated meaning of the numpy primitives (trusted, beside the translator):
  an (n, 3) array            = list pt (a 2-D vertex is the 3-D vertex with z = 0, as in Model/ArcLen.v)
  np.diff(P, axis=0)         = deltas P                     np.square(D).sum(axis=1) = map norm2-written-out D
  np.sqrt(a)                 = map sqrt_ a                   np.append([c], a)        = c :: a
  np.empty((n, k)); M[:, i] = a   = k columns; the store raises ValueError unless length a = n
  np.amin(M, axis=1), k = 1  = the column                    np.cumsum(a)             = cumsum_from 0 a
  np.searchsorted(a, v)      = searchsorted a v (nat)        a[i], P[i]               = py_nth (negative i from the end)
  np.greater_equal(a, b)     = Qle_bool b a                  c * row + c' * row'      = componentwise
  x / y on float64           = no exception; a path that divided by zero and returns normally is the result "nan"
"""
import ast
import os

from vlib.core import COQ, REPO
from vlib.py2coq import Module, TranslationError, Translator, emit_file, write_if_changed, Qv, Zv

HEADER = ("From Coq Require Import QArith ZArith Bool List String.\nImport ListNotations.\n"
          "From CR Require Import Base.QMod Base.PyRes Model.ArcLen.\nOpen Scope Q_scope.")
COMPS = ["(px p_)", "(py p_)", "(pz p_)"]


def _only_kw(node, **want):
    got = {k.arg: ast.unparse(k.value) for k in node.keywords}
    if got != {k: str(v) for k, v in want.items()}:
        raise TranslationError(f"line {node.lineno}: keyword arguments {got}, expected {want}")


def _fresh(tr):
    tr._fresh = getattr(tr, "_fresh", 0) + 1
    return f"e_{tr._fresh}"


def np_diff(tr, a, node):
    _only_kw(node, axis=0)
    if len(a) != 1 or a[0][0] != "poly":
        raise TranslationError("np.diff of something else than an (n, 3) array")
    return ("rows3", f"(deltas {a[0][1]})", list(COMPS))


def np_square(tr, a, node):
    _only_kw(node)
    if len(a) != 1 or a[0][0] != "rows3":
        raise TranslationError("np.square form")
    return ("rows3", a[0][1], [f"({e} * {e})" for e in a[0][2]])


def rows_sum(tr, base, args, kw, node):
    if args or kw != {"axis": ("num", 1)}:
        raise TranslationError("sum form")
    e = base[2]
    return ("A", f"(map (fun p_ => (({e[0]} + {e[1]}) + {e[2]})) {base[1]})")


def np_sqrt(tr, a, node):
    _only_kw(node)
    if len(a) == 1 and a[0][0] == "A":
        return ("A", f"(map sqrt_ {a[0][1]})")
    raise TranslationError("np.sqrt form")


def np_append(tr, a, node):
    _only_kw(node)
    if len(a) != 2 or a[0][0] != "pylist" or len(a[0][1]) != 1 or a[1][0] != "A":
        raise TranslationError("np.append form")
    return ("A", f"({tr.toQ(tr.num(a[0][1][0]))[1]} :: {a[1][1]})")


def np_empty(tr, a, node):
    _only_kw(node)
    if len(a) != 1 or a[0][0] != "tup" or len(a[0][1]) != 2 or a[0][1][0][0] != "lenof" or a[0][1][1][0] != "num":
        raise TranslationError("np.empty form")
    return ("cols", a[0][1][0][1], (None,) * a[0][1][1][1])


def cols_store(tr, base, sl, v, env, heap, node):
    """M[:, i] = a"""
    if not (isinstance(sl, ast.Tuple) and len(sl.elts) == 2 and isinstance(sl.elts[0], ast.Slice)
            and sl.elts[0].lower is None and sl.elts[0].upper is None and sl.elts[0].step is None):
        raise TranslationError("array store form")
    i = tr.expr(sl.elts[1], env, heap)
    if i[0] != "num" or not 0 <= i[1] < len(base[2]) or v[0] != "A":
        raise TranslationError("array store column / value")
    tr.guard(f"(negb (Nat.eqb (List.length {v[1]}) (List.length {base[1]})))", "ValueError")
    cols = list(base[2])
    cols[i[1]] = v[1]
    return ("cols", base[1], tuple(cols))


def np_amin(tr, a, node):
    _only_kw(node, axis=1)
    if len(a) != 1 or a[0][0] != "cols" or any(c is None for c in a[0][2]):
        raise TranslationError("np.amin form")
    if len(a[0][2]) != 1:
        raise TranslationError("np.amin over more than one column is not given a meaning here")
    return ("A", a[0][2][0])


def np_cumsum(tr, a, node):
    _only_kw(node)
    if len(a) != 1 or a[0][0] != "A":
        raise TranslationError("np.cumsum form")
    return ("A", f"(cumsum_from 0 {a[0][1]})")


def np_searchsorted(tr, a, node):
    _only_kw(node)
    if len(a) != 2 or a[0][0] != "A":
        raise TranslationError("np.searchsorted form")
    return Zv(f"(Z.of_nat (searchsorted {a[0][1]} {tr.toQ(tr.num(a[1]))[1]}))")


def py_enumerate(tr, a, node):
    if len(a) != 1 or a[0][0] != "pylist" or node.keywords:
        raise TranslationError("enumerate form")
    return ("pylist", [("tup", [("num", i), x]) for i, x in enumerate(a[0][1])])


def sub_pylist(tr, base, sl, env, heap, node):
    i = tr.expr(sl, env, heap)
    if i[0] != "num" or not 0 <= i[1] < len(base[1]):
        raise TranslationError("index of a list display")
    return base[1][i[1]]


def _index(tr, sl, env, heap):
    i = tr.num(tr.expr(sl, env, heap))
    if i[0] == "Q":
        raise TranslationError("float index")
    return tr.toZ(i)[1]


def sub_A(tr, base, sl, env, heap, node):
    var = _fresh(tr)
    tr.pending.append(("bind", f"(py_nth {base[1]} {_index(tr, sl, env, heap)})", var, "IndexError"))
    return Qv(var)


def sub_poly(tr, base, sl, env, heap, node):
    var = _fresh(tr)
    tr.pending.append(("bind", f"(py_nth {base[1]} {_index(tr, sl, env, heap)})", var, "IndexError"))
    return ("vec3", [f"(px {var})", f"(py {var})", f"(pz {var})"])


def scal_vec(tr, a, b, node):
    c = tr.toQ(tr.num(a))[1]
    return ("vec3", [f"({c} * {e})" for e in b[1]])


def vec_add(tr, a, b, node):
    return ("vec3", [f"({x} + {y})" for x, y in zip(a[1], b[1])])


L = ("l", "obj", "Lanelet")
JOBS = [
    ("src_cumsum_dist", ("method", "Lanelet", "_compute_polyline_cumsum_dist"), [("P", "polys1")], "list Q",
     "Lanelet._compute_polyline_cumsum_dist([P])"),
    ("src_distance", ("getter", "Lanelet", "distance"), [L], "list Q", "Lanelet.distance, _distance is None"),
    ("src_interpolate", ("method", "Lanelet", "interpolate_position"), [L, ("s", "Q")], "pt * pt * pt * Z",
     "Lanelet.interpolate_position, _distance is None"),
]


def text():
    tr = Translator([Module("lanelet", os.path.join(REPO, "commonroad", "scenario", "lanelet.py"))],
                    consts={"np.amin": ("fn", "np.amin")},
                    records={"Lanelet": ("lanelet", [("_center_vertices", "l_center", "poly"),
                                                     ("_left_vertices", "l_left", "poly"),
                                                     ("_right_vertices", "l_right", "poly"),
                                                     ("_distance", None, "None")])},
                    prims={"np.diff": np_diff, "np.square": np_square, "np.sqrt": np_sqrt, "np.append": np_append,
                           "np.empty": np_empty, "np.amin": np_amin, "np.cumsum": np_cumsum,
                           "np.searchsorted": np_searchsorted, "enumerate": py_enumerate,
                           "is_real_number": lambda t, a, n: ("static", a[0][0] in ("Q", "Z", "num")),
                           "np.greater_equal": lambda t, a, n: t.cmp1(ast.GtE(), a[0], a[1], n),
                           ("len", "pylist"): lambda t, a, n: ("num", len(a[0][1])),
                           ("len", "poly"): lambda t, a, n: ("lenof", a[0][1])})
    tr.value_methods_kw = {("rows3", "sum"): rows_sum}
    tr.value_subscripts = {"pylist": sub_pylist, "A": sub_A, "poly": sub_poly}
    tr.value_subscript_stores = {"cols": cols_store}
    tr.value_binops = {("Q", "vec3", "Mult"): scal_vec, ("num", "vec3", "Mult"): scal_vec, ("vec3", "vec3", "Add"): vec_add}
    tr.param_kinds = {"polys1": lambda nm: (("pylist", [("poly", nm)]), f"({nm} : list pt)")}
    tr.renderers = {"A": lambda t, v: v[1], "vec3": lambda t, v: "(" + ", ".join(v[1]) + ")"}
    tr.res_type, tr.ok_ctor = "pyres", "POk"
    tr.err_text = lambda exc: f'(PRaise "{exc}"%string)'
    tr.err_pat = "(PRaise exc_)"
    tr.div_mode = "nan"
    return emit_file(tr, HEADER, JOBS, "Variable sqrt_ : Q -> Q.   (* np.sqrt on one element: uninterpreted *)")


def generate():
    return write_if_changed(os.path.join(COQ, "Gen", "Src_arclen.v"), text())


if __name__ == "__main__":
    print(text())
