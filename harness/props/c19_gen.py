"""C19 table translator: commonroad/visualization/draw_params.py -> coq/Gen/Tables_C19.v, on every run.

What is translated (nothing is copied by hand):
  * classes     every dataclass deriving from BaseParam that the module defines: its declared fields in order with
                the kind of the declared type (int / bool / float / str / Optional[float] / Optional[str] /
                Optional[List[int]] / Dict / nested parameter class)
  * mp_default  the tree MPDrawParams() constructs: every group with the current value of every declared field
Fail-closed: an annotation, a default value or a class shape the translator does not know raises TableError (the
check then reports proof_broken); it never guesses.  The file is rewritten only when its content changes."""
import dataclasses
import inspect
import os
import typing
from fractions import Fraction

from vlib.core import COQ, qstr, qz, qb, qq

PRIVATE = "_BaseParam__initialized"
BASE_FIELDS = ("time_begin", "time_end", "antialiased")


class TableError(Exception):
    pass


def _need(cond, msg):
    if not cond:
        raise TableError("c19_gen: " + msg)


def _mod():
    from commonroad.visualization import draw_params
    return draw_params


def _ascii(s):
    return isinstance(s, str) and all(32 <= ord(ch) < 127 for ch in s)


# ------------------------------------------------------------------------------------ declared kinds
def kind_of(tp, Base):
    """declared type -> (coq term, python tag)"""
    if tp is int:
        return "KInt", "int"
    if tp is bool:
        return "KBool", "bool"
    if tp is float:
        return "KFloat", "float"
    if tp is str:
        return "KStr", "str"
    if inspect.isclass(tp) and issubclass(tp, Base):
        return f"(KNode {qstr(tp.__name__)})", "node:" + tp.__name__
    origin, args = typing.get_origin(tp), typing.get_args(tp)
    if origin is typing.Union and len(args) == 2 and args[1] is type(None):
        a = args[0]
        if a is float:
            return "KOptFloat", "optfloat"
        if a is str:
            return "KOptStr", "optstr"
        if typing.get_origin(a) is list and typing.get_args(a) == (int,):
            return "KOptIntList", "optintlist"
    if origin is dict and args == (str, typing.Any):
        return "KDict", "dict"
    raise TableError(f"c19_gen: declared type {tp!r} is not understood")


def param_classes():
    """every BaseParam subclass defined in draw_params.py, in definition order (BaseParam itself excluded)"""
    m = _mod()
    Base = m.BaseParam
    _need(dataclasses.is_dataclass(Base), "BaseParam is not a dataclass")
    out = []
    for name, c in vars(m).items():
        if inspect.isclass(c) and issubclass(c, Base) and c is not Base and c.__module__ == m.__name__:
            out.append(c)
    _need(len(out) >= 10, f"only {len(out)} parameter classes found")
    return Base, out


def class_fields(c, Base):
    _need(dataclasses.is_dataclass(c) and "__dataclass_fields__" in vars(c), f"{c.__name__} is not itself a dataclass")
    for meth in ("__setattr__", "__post_init__", "__getitem__", "__setitem__"):
        _need(getattr(c, meth) is getattr(Base, meth), f"{c.__name__} overrides {meth} (only BaseParam's is modelled)")
    _need(not c.__dataclass_params__.frozen, f"{c.__name__} is frozen")
    fs = dataclasses.fields(c)
    names = [f.name for f in fs]
    _need(names.count(PRIVATE) == 1, f"{c.__name__}: expected the private flag {PRIVATE}")
    priv = [n for n in names if n.startswith("_")]
    _need(priv == [PRIVATE], f"{c.__name__}: unexpected private fields {priv}")
    _need(tuple(names[:3]) == BASE_FIELDS, f"{c.__name__}: base fields are {names[:3]}")
    out = []
    for f in fs:
        if f.name == PRIVATE:
            _need(f.init is False and f.default is False, "the private flag is no longer init=False, default=False")
            continue
        _need(_ascii(f.name), f"field name {f.name!r}")
        _need(not isinstance(f.type, str), f"{c.__name__}.{f.name}: annotation is a string ({f.type!r})")
        _need(f.init, f"{c.__name__}.{f.name}: init=False field")
        out.append((f.name, kind_of(f.type, Base)))
    _need(len(set(n for n, _ in out)) == len(out), f"{c.__name__}: duplicate field names")
    return out


# ------------------------------------------------------------------------------------ values
def coq_val(v, Base=None):
    """runtime value of a parameter field -> Coq term of type val (fail-closed)"""
    Base = Base or _mod().BaseParam
    if isinstance(v, Base):
        return "(VNode " + coq_node(v, Base) + ")"
    if v is None:
        return "VNone"
    if isinstance(v, bool):
        return f"(VB {qb(v)})"
    if isinstance(v, int):
        return f"(VZ {qz(v)})"
    if isinstance(v, float):
        _need(v == v and v not in (float("inf"), float("-inf")), f"non-finite float {v!r}")
        return f"(VQ {qq(Fraction(v))})"
    if isinstance(v, str):
        _need(_ascii(v), f"string value {v!r}")
        return f"(VS {qstr(v)})"
    if isinstance(v, list) and all(isinstance(x, int) and not isinstance(x, bool) for x in v):
        return "(VLZ [" + "; ".join(qz(x) for x in v) + "])"
    if isinstance(v, dict):
        r = repr(sorted(v.items(), key=repr))
        _need(_ascii(r), "dict value")
        return f"(VOpaque {qstr(r)})"
    raise TableError(f"c19_gen: value {v!r} of type {type(v).__name__} is not understood")


def node_items(p):
    """(field name, value) of a parameter group, declared order, private flag excluded"""
    fs = [f.name for f in dataclasses.fields(p) if f.name != PRIVATE]
    extra = set(vars(p)) - set(fs) - {PRIVATE}
    _need(not extra, f"{type(p).__name__} instance has attributes that are no declared fields: {sorted(extra)}")
    return [(k, getattr(p, k)) for k in fs]


def coq_node(p, Base=None):
    Base = Base or _mod().BaseParam
    items = node_items(p)
    return ("(Node " + qstr(type(p).__name__) + " [" +
            "; ".join(f"({qstr(k)}, {coq_val(v, Base)})" for k, v in items) + "])")


def tables():
    Base, classes = param_classes()
    m = _mod()
    decl = {c.__name__: class_fields(c, Base) for c in classes}
    _need("MPDrawParams" in decl, "MPDrawParams not found")
    for cname, fs in decl.items():
        for k, (_, tag) in fs:
            if tag.startswith("node:"):
                _need(tag[5:] in decl, f"{cname}.{k}: nested class {tag[5:]} is not a parameter class of the module")
    root = m.MPDrawParams()
    _need(getattr(root, PRIVATE) is True, "MPDrawParams() is not initialised after construction")
    return {"classes": decl, "root": root, "Base": Base}


def generate():
    t = tables()
    Base = t["Base"]
    rows = []
    for cname, fs in t["classes"].items():
        rows.append(f"  ({qstr(cname)}, [" + "; ".join(f"({qstr(k)}, {kd})" for k, (kd, _) in fs) + "])")
    text = ("(* GENERATED by harness/props/c19_gen.py from commonroad/visualization/draw_params.py. Do not edit. *)\n"
            "From Coq Require Import ZArith QArith String List.\nImport ListNotations.\n"
            "From CR Require Import Model.DrawParams.\nOpen Scope string_scope.\nOpen Scope list_scope.\n\n"
            "Definition classes : class_table := [\n" + ";\n".join(rows) + "\n].\n\n"
            "Definition mp_default : node :=\n  " + coq_node(t["root"], Base)[1:-1] + ".\n")
    p = os.path.join(COQ, "Gen", "Tables_C19.v")
    os.makedirs(os.path.dirname(p), exist_ok=True)
    changed = not os.path.exists(p) or open(p).read() != text
    if changed:
        with open(p, "w") as f:
            f.write(text)
    t["changed"] = changed
    return t
