"""The CommonRoad 2020a XML scenario format as data (DESIGN 5/C01-C03).

ONE description serves three purposes, so that they cannot drift apart:
  * `coq_table()`   -> coq/Gen/XmlFmt.v: the `fmt` table (tags, multiplicities, leaf kinds) the generic
                       codec theorems of Model/Codec.v are instantiated with (regenerated on every run);
  * `extract(...)`  -> the value (`val`) a Python object denotes under the table, via public accessors;
  * `parse(...)`    -> an lxml element converted to the abstract `tree` of the model (typed atoms, children
                       put in table order - order inside an element is judged by the XSD validation, C03).
Tables that already exist in the source are read from it: the optional attributes of states come from
the shipped XSD (`state` complex type) through the writer's own name mapping, tags from the Tag enum.
Attributes of XML elements are fields whose tag starts with "@"."""
from fractions import Fraction

import numpy as np

from commonroad.common.util import Interval
from commonroad.geometry.shape import Circle, Polygon, Rectangle, ShapeGroup
from commonroad.prediction.prediction import SetBasedPrediction, TrajectoryPrediction
from commonroad.scenario.lanelet import LineMarking
from commonroad.scenario.obstacle import DynamicObstacle, EnvironmentObstacle, PhantomObstacle, StaticObstacle
from commonroad.scenario.scenario import Tag, TimeOfDay, Underground, Weather
from commonroad.scenario.traffic_light import TrafficLightDirection

from props.codec_gen import T, camel

REQ, OPT, MANY = "MReq", "MOpt", "MMany"


class L:  # leaf
    def __init__(self, kind):
        self.kind = kind  # num | int | str | bool


class F:  # field of a record
    def __init__(self, tag, mult, fmt, get, default=None, as_set=False, rtag=None):
        self.tag, self.mult, self.fmt, self.get, self.default, self.as_set = tag, mult, fmt, get, default, as_set
        self.rtag = rtag  # the tag the READER looks up, where it differs from what the writer emits

    def tag_for(self, side):
        return self.rtag if side == "R" and self.rtag is not None else self.tag


class R:  # record: children looked up by tag
    def __init__(self, name, fields):
        self.name, self.fields = name, fields


class Alt:
    def __init__(self, tag, fmt, pred):
        self.tag, self.fmt, self.pred = tag, fmt, pred


class A:  # ordered list of alternatives
    def __init__(self, name, alts, items):
        self.name, self.alts, self.items = name, alts, items


NUM, INT, STR, BOOL = L("num"), L("int"), L("str"), L("bool")


class Dyn:
    """the shape of a dynamic obstacle: only its dimensions are written"""
    def __init__(self, s):
        self.s = s


class Goal:
    def __init__(self, state, lanelets):
        self.state, self.lanelets = state, lanelets


def un(x):
    return x.s if isinstance(x, Dyn) else x


def ev(e):
    return e.value


POINT = R("point", [F("x", REQ, NUM, lambda p: p[0]), F("y", REQ, NUM, lambda p: p[1])])
RECT = R("rectangle", [
    F("length", REQ, NUM, lambda r: un(r).length), F("width", REQ, NUM, lambda r: un(r).width),
    F("orientation", OPT, NUM, lambda r: None if isinstance(r, Dyn) else r.orientation),
    F("center", OPT, POINT, lambda r: None if isinstance(r, Dyn) else r.center)])
CIRC = R("circle", [F("radius", REQ, NUM, lambda c: un(c).radius),
                    F("center", OPT, POINT, lambda c: None if isinstance(c, Dyn) else c.center)])
POLY = R("polygon", [F("point", MANY, POINT, lambda p: list(un(p).vertices))])


def members(s):
    d = isinstance(s, Dyn)
    s = un(s)
    ms = list(s.shapes) if isinstance(s, ShapeGroup) else [s]
    return [Dyn(m) for m in ms] if d else ms


SHAPE = A("shape", [Alt("rectangle", RECT, lambda s: isinstance(un(s), Rectangle)),
                    Alt("circle", CIRC, lambda s: isinstance(un(s), Circle)),
                    Alt("polygon", POLY, lambda s: isinstance(un(s), Polygon))], members)


def is_itv(v):
    return isinstance(v, Interval)


VALUE = R("value", [F("exact", OPT, NUM, lambda v: None if is_itv(v) else v),
                    F("intervalStart", OPT, NUM, lambda v: v.start if is_itv(v) else None),
                    F("intervalEnd", OPT, NUM, lambda v: v.end if is_itv(v) else None)])
TIME = R("time", [F("exact", OPT, INT, lambda v: None if is_itv(v) else v),
                  F("intervalStart", OPT, INT, lambda v: v.start if is_itv(v) else None),
                  F("intervalEnd", OPT, INT, lambda v: v.end if is_itv(v) else None)])
LANELET_REF = R("ref", [F("@ref", REQ, INT, lambda i: i)])


def pos_shapes(kind):
    def get(p):
        if isinstance(p, tuple):  # (position, goal lanelets)
            if p[1]:
                return []
            p = p[0]
        if isinstance(p, (np.ndarray, list)):
            return []
        return [m for m in members(p) if isinstance(m, kind)]
    return get


POSITION = R("position", [
    F("point", OPT, POINT, lambda p: p if isinstance(p, (np.ndarray, list)) else None),
    F("rectangle", MANY, RECT, pos_shapes(Rectangle)), F("circle", MANY, CIRC, pos_shapes(Circle)),
    F("polygon", MANY, POLY, pos_shapes(Polygon)),
    F("lanelet", MANY, LANELET_REF, lambda p: list(p[1]) if isinstance(p, tuple) and p[1] else [])])


def attr_get(xml_name, default=None):
    from commonroad.common.reader.file_reader_xml import StateFactory
    attr = StateFactory._map_to_prop(xml_name)

    def get(st):
        if isinstance(st, Goal):
            st = st.state
        return getattr(st, attr, None) if attr in st.attributes else None
    return get


def state_fields(initial=False):
    """position, orientation, time and the optional attributes the shipped XSD lists for a state"""
    names = [n for n in T()[1]["state"] if n not in ("position", "orientation", "time")]
    dflt = 0.0 if initial else None

    def position(st):
        if isinstance(st, Goal):
            if not st.state.has_value("position"):
                return None
            return (st.state.position, st.lanelets)
        return st.position if st.has_value("position") else None
    fs = [F("position", OPT, POSITION, position), F("orientation", OPT, VALUE, attr_get("orientation")),
          F("time", OPT, TIME, attr_get("time"))]
    for n in names:
        d = dflt if initial and n in ("velocity", "acceleration", "yawRate", "slipAngle") else None
        fs.append(F(n, OPT, VALUE, attr_get(n), default=d))
    return fs


STATE = R("state", state_fields())
INITIAL_STATE = R("initialState", state_fields(initial=True))
GOAL_STATE = R("goalState", state_fields())


def sig_get(name):
    return lambda s: getattr(s, name) if hasattr(s, name) and getattr(s, name) is not None else None


SIGNAL = R("signalState", [F("time", REQ, TIME, lambda s: s.time_step), F("horn", OPT, BOOL, sig_get("horn")),
                           F("indicatorLeft", OPT, BOOL, sig_get("indicator_left")),
                           F("indicatorRight", OPT, BOOL, sig_get("indicator_right")),
                           F("brakingLights", OPT, BOOL, sig_get("braking_lights")),
                           F("hazardWarningLights", OPT, BOOL, sig_get("hazard_warning_lights")),
                           F("flashingBlueLights", OPT, BOOL, sig_get("flashing_blue_lights"))])
OCCUPANCY = R("occupancy", [F("shape", REQ, SHAPE, lambda o: o.shape), F("time", REQ, TIME, lambda o: o.time_step)])
TRAJECTORY = R("trajectory", [F("state", MANY, STATE, lambda t: list(t.state_list))])
OCCSET = R("occupancySet", [F("occupancy", MANY, OCCUPANCY, lambda p: list(p.occupancy_set))])
SIGSERIES = R("signalSeries", [F("signalState", MANY, SIGNAL, lambda ss: list(ss))])


def lm(attr):
    def get(la):
        m = getattr(la, attr)
        return None if m is LineMarking.UNKNOWN else m.value
    return get


def bound(vertices, marking):
    return R("bound_" + vertices, [F("point", MANY, POINT, lambda la: list(getattr(la, vertices))),
                                   F("lineMarking", OPT, STR, lm(marking))])


ADJ_L = R("adjL", [F("@ref", REQ, INT, lambda la: la.adj_left),
                   F("@drivingDir", REQ, STR, lambda la: "same" if la.adj_left_same_direction else "opposite")])
ADJ_R = R("adjR", [F("@ref", REQ, INT, lambda la: la.adj_right),
                   F("@drivingDir", REQ, STR, lambda la: "same" if la.adj_right_same_direction else "opposite")])
STOPLINE = R("stopLine", [
    F("point", MANY, POINT, lambda s: [s.start, s.end] if s.start is not None or s.end is not None else []),
    F("lineMarking", OPT, STR, lambda s: s.line_marking.name.lower() if s.line_marking else None),
    F("trafficSignRef", MANY, LANELET_REF, lambda s: list(s.traffic_sign_ref or []), as_set=True),
    F("trafficLightRef", MANY, LANELET_REF, lambda s: list(s.traffic_light_ref or []), as_set=True)])
LANELET = R("lanelet", [
    F("@id", REQ, INT, lambda la: la.lanelet_id),
    F("leftBound", REQ, bound("left_vertices", "line_marking_left_vertices"), lambda la: la),
    F("rightBound", REQ, bound("right_vertices", "line_marking_right_vertices"), lambda la: la),
    F("predecessor", MANY, LANELET_REF, lambda la: list(la.predecessor)),
    F("successor", MANY, LANELET_REF, lambda la: list(la.successor)),
    F("adjacentLeft", OPT, ADJ_L, lambda la: la if la.adj_left else None),
    F("adjacentRight", OPT, ADJ_R, lambda la: la if la.adj_right else None),
    F("stopLine", OPT, STOPLINE, lambda la: la.stop_line if la.stop_line else None),
    F("laneletType", MANY, STR, lambda la: [t.value for t in la.lanelet_type], as_set=True),
    F("userOneWay", MANY, STR, lambda la: [u.value for u in (la.user_one_way or [])], as_set=True),
    F("userBidirectional", MANY, STR, lambda la: [u.value for u in (la.user_bidirectional or [])], as_set=True),
    F("trafficSignRef", MANY, LANELET_REF, lambda la: list(la.traffic_signs or []), as_set=True),
    F("trafficLightRef", MANY, LANELET_REF, lambda la: list(la.traffic_lights or []), as_set=True)])

SIGN_ELEMENT = R("trafficSignElement", [F("trafficSignID", REQ, STR, lambda e: str(e.traffic_sign_element_id.value)),
                                        F("additionalValue", MANY, STR, lambda e: [str(v) for v in e.additional_values])])
POS_EXACT = R("positionExact", [F("point", REQ, POINT, lambda p: p[:2])])
SIGN = R("trafficSign", [F("@id", REQ, INT, lambda s: s.traffic_sign_id),
                         F("trafficSignElement", MANY, SIGN_ELEMENT, lambda s: list(s.traffic_sign_elements)),
                         F("position", OPT, POS_EXACT, lambda s: s.position),
                         # the reader looks the flag up as an ATTRIBUTE (xml_node.get), the writer and the schema
                         # have a child element: modelled as it is (known finding C01 trafficSign/virtual)
                         F("virtual", OPT, BOOL, lambda s: s.virtual, rtag="@virtual", default=False)])
CYCLE_EL = R("cycleElement", [F("duration", REQ, INT, lambda e: e.duration), F("color", REQ, STR, lambda e: e.state.value)])
CYCLE = R("cycle", [F("cycleElement", MANY, CYCLE_EL, lambda c: list(c.cycle_elements)),
                    F("timeOffset", OPT, INT, lambda c: c.time_offset if c.time_offset else None)])
LIGHT = R("trafficLight", [
    F("@id", REQ, INT, lambda t: t.traffic_light_id), F("cycle", OPT, CYCLE, lambda t: t.traffic_light_cycle),
    F("position", OPT, POS_EXACT, lambda t: t.position),
    F("direction", OPT, STR, lambda t: None if t.direction is TrafficLightDirection.ALL else t.direction.value),
    F("active", OPT, BOOL, lambda t: t.active)])
INCOMING = R("incoming", [
    F("@id", REQ, INT, lambda i: i.incoming_id),
    F("incomingLanelet", MANY, LANELET_REF, lambda i: list(i.incoming_lanelets or []), as_set=True),
    F("successorsRight", MANY, LANELET_REF, lambda i: list(i.successors_right or []), as_set=True),
    F("successorsStraight", MANY, LANELET_REF, lambda i: list(i.successors_straight or []), as_set=True),
    F("successorsLeft", MANY, LANELET_REF, lambda i: list(i.successors_left or []), as_set=True),
    F("isLeftOf", OPT, LANELET_REF, lambda i: i.left_of if i.left_of else None)])
CROSSING = R("crossing", [F("crossingLanelet", MANY, LANELET_REF, lambda x: list(x.crossings), as_set=True)])
INTERSECTION = R("intersection", [
    F("@id", REQ, INT, lambda x: x.intersection_id), F("incoming", MANY, INCOMING, lambda x: list(x.incomings)),
    F("crossing", OPT, CROSSING, lambda x: x if x.crossings is not None and len(x.crossings) > 0 else None)])


def pred_of(cls):
    return lambda o: o.prediction if isinstance(o.prediction, cls) else None


STATIC = R("staticObstacle", [F("@id", REQ, INT, lambda o: o.obstacle_id), F("type", REQ, STR, lambda o: o.obstacle_type.value),
                              F("shape", REQ, SHAPE, lambda o: o.obstacle_shape),
                              F("initialState", REQ, INITIAL_STATE, lambda o: o.initial_state)])
DYNAMIC = R("dynamicObstacle", [
    F("@id", REQ, INT, lambda o: o.obstacle_id), F("type", REQ, STR, lambda o: o.obstacle_type.value),
    F("shape", REQ, SHAPE, lambda o: Dyn(o.obstacle_shape)),
    F("initialState", REQ, INITIAL_STATE, lambda o: o.initial_state),
    F("initialSignalState", OPT, SIGNAL, lambda o: o.initial_signal_state),
    F("trajectory", OPT, TRAJECTORY, lambda o: o.prediction.trajectory if isinstance(o.prediction, TrajectoryPrediction)
      else None),
    F("occupancySet", OPT, OCCSET, pred_of(SetBasedPrediction)),
    F("signalSeries", OPT, SIGSERIES, lambda o: o.signal_series if o.signal_series else None)])
PHANTOM = R("phantomObstacle", [F("@id", REQ, INT, lambda o: o.obstacle_id),
                                F("occupancySet", OPT, OCCSET, pred_of(SetBasedPrediction))])
ENVOBST = R("environmentObstacle", [F("@id", REQ, INT, lambda o: o.obstacle_id),
                                    F("type", REQ, STR, lambda o: o.obstacle_type.value),
                                    F("shape", REQ, SHAPE, lambda o: o.obstacle_shape)])


def goals(p):
    log = p.goal.lanelets_of_goal_position
    out = []
    for i, st in enumerate(p.goal.state_list):
        ids = list(log[i]) if log is not None and i in log.keys() else []
        out.append(Goal(st, ids))
    return out


PROBLEM = R("planningProblem", [F("@id", REQ, INT, lambda p: p.planning_problem_id),
                                F("initialState", REQ, INITIAL_STATE, lambda p: p.initial_state),
                                F("goalState", MANY, GOAL_STATE, goals)])

ADDTRANS = R("additionalTransformation", [F("xTranslation", REQ, NUM, lambda g: g.x_translation),
                                          F("yTranslation", REQ, NUM, lambda g: g.y_translation),
                                          F("zRotation", REQ, NUM, lambda g: g.z_rotation),
                                          F("scaling", REQ, NUM, lambda g: g.scaling)])
GEOTRANS = R("geoTransformation", [F("geoReference", REQ, STR, lambda g: g.geo_reference),
                                   F("additionalTransformation", REQ, ADDTRANS, lambda g: g)])


def env_known(attr, unknown):
    return lambda e: getattr(e, attr).value if getattr(e, attr) is not unknown else None


ENVIRONMENT = R("environment", [
    # time and timeOfDay are written for every environment ("unknown" is a value of timeOfDay in the schema, and both
    # elements are required by it)
    F("time", OPT, STR, lambda e: f"{e.time.hours:02d}:{e.time.minutes:02d}:00"),
    F("timeOfDay", OPT, STR, lambda e: e.time_of_day.value),
    F("weather", OPT, STR, env_known("weather", Weather.UNKNOWN)),
    F("underground", OPT, STR, env_known("underground", Underground.UNKNOWN))])
LOCATION = R("location", [F("geoNameId", REQ, INT, lambda l: l.geo_name_id), F("gpsLatitude", REQ, NUM, lambda l: l.gps_latitude),
                          F("gpsLongitude", REQ, NUM, lambda l: l.gps_longitude),
                          F("geoTransformation", OPT, GEOTRANS, lambda l: l.geo_transformation),
                          F("environment", OPT, ENVIRONMENT, lambda l: l.environment)])
EMPTY = R("empty", [])
TAGS = R("scenarioTags", [F(t.value, OPT, EMPTY, (lambda tv: lambda tags: tv if tv in tags else None)(t))
                          for t in sorted(Tag, key=lambda t: t.value)])


class Doc:
    """what the writer is given: scenario, planning problems and its own meta arguments"""
    def __init__(self, sc, pps, meta):
        from commonroad.scenario.scenario import Location
        self.sc, self.pps = sc, pps
        self.author, self.affiliation, self.source = meta["author"], meta["affiliation"], meta["source"]
        self.tags = meta["tags"] if meta["tags"] is not None else (sc.tags or set())
        self.location = meta["location"] if meta["location"] is not None else Location()


ROOT = R("commonRoad", [
    F("@timeStepSize", REQ, NUM, lambda d: d.sc.dt), F("@commonRoadVersion", REQ, STR, lambda d: "2020a"),
    F("@author", REQ, STR, lambda d: d.author), F("@affiliation", REQ, STR, lambda d: d.affiliation),
    F("@source", REQ, STR, lambda d: d.source), F("@benchmarkID", REQ, STR, lambda d: str(d.sc.scenario_id)),
    F("location", REQ, LOCATION, lambda d: d.location), F("scenarioTags", REQ, TAGS, lambda d: d.tags),
    F("lanelet", MANY, LANELET, lambda d: list(d.sc.lanelet_network.lanelets)),
    F("trafficSign", MANY, SIGN, lambda d: list(d.sc.lanelet_network.traffic_signs)),
    F("trafficLight", MANY, LIGHT, lambda d: list(d.sc.lanelet_network.traffic_lights)),
    F("intersection", MANY, INTERSECTION, lambda d: list(d.sc.lanelet_network.intersections)),
    F("staticObstacle", MANY, STATIC, lambda d: list(d.sc.static_obstacles)),
    F("dynamicObstacle", MANY, DYNAMIC, lambda d: list(d.sc.dynamic_obstacles)),
    F("phantomObstacle", MANY, PHANTOM, lambda d: list(d.sc.phantom_obstacle)),
    F("environmentObstacle", MANY, ENVOBST, lambda d: list(d.sc.environment_obstacle)),
    F("planningProblem", MANY, PROBLEM, lambda d: list(d.pps.planning_problem_dict.values()) if d.pps else [])])


# ------------------------------------------------------------------------------------------ extraction
def atom(kind, x):
    if kind == "num":
        return ("num", Fraction(float(x)))
    if kind == "int":
        if isinstance(x, (bool, np.bool_)) or not isinstance(x, (int, np.integer)):
            raise TypeError(f"int leaf holds {type(x).__name__}")
        return ("int", int(x))
    if kind == "bool":
        return ("bool", bool(x))
    return ("str", str(x))


def extract(fmt, obj, set_sorted=False, el=None):
    """value of obj under fmt.  set_sorted: repeated fields that denote sets are sorted (read-back side).
    el: on the read-back side the element the object was read from - an optional field with a documented
    reader default (initial states: 0) that is absent from the file and holds the default is 'unset'."""
    if isinstance(fmt, L):
        return ("atom", atom(fmt.kind, obj))
    if isinstance(fmt, A):
        items = []
        its = list(fmt.items(obj))
        chs = list(el) if el is not None and len(list(el)) == len(its) else [None] * len(its)
        for it, ch in zip(its, chs):
            idx = [i for i, a in enumerate(fmt.alts) if a.pred(it)]
            if not idx:
                raise TypeError(f"no alternative of {fmt.name} for {type(un(it)).__name__}")
            items.append(("alt", idx[0], extract(fmt.alts[idx[0]].fmt, it, set_sorted, ch)))
        return ("list", items)
    vs = []
    for f in fmt.fields:
        x = f.get(obj)
        sub = None if el is None or f.tag.startswith("@") else el.findall(f.tag)
        rt = f.tag_for("R")
        absent = el is not None and ((rt[1:] not in el.attrib) if rt.startswith("@") else not el.findall(rt))
        if f.mult == REQ:
            vs.append(extract(f.fmt, x, set_sorted, sub[0] if sub else None))
        elif f.mult == OPT:
            if x is not None and f.default is not None and absent and x == f.default:
                x = None
            vs.append(("none",) if x is None else ("some", extract(f.fmt, x, set_sorted, sub[0] if sub else None)))
        else:
            x = list(x)
            subs = sub if sub is not None and len(sub) == len(x) else [None] * len(x)
            items = [extract(f.fmt, y, set_sorted, e) for y, e in zip(x, subs)]
            if f.as_set and set_sorted:
                items.sort(key=repr)
            vs.append(("list", items))
    return ("rec", vs)


# ------------------------------------------------------------------------------------------ lxml -> abstract tree
def parse_atom(kind, text):
    text = "" if text is None else text
    try:
        if kind == "num":
            return ("num", Fraction(text))
        if kind == "int":
            return ("int", int(text))
        if kind == "bool":
            return ("bool", {"true": True, "false": False}[text])
    except Exception:  # noqa
        return ("str", "?unparsable:" + text)
    return ("str", text)


def parse(fmt, el, tag=None, text=None, set_sorted=False, side="W", doc_order=False):
    """abstract tree of an lxml element under fmt (writer's or reader's table); children are put in table
    order (stable) - except, with doc_order, inside the elements whose XSD type is an xs:sequence
    (XSD_TYPE): there the document order is kept, which is what property C03 judges"""
    tag = tag if tag is not None else el.tag
    if isinstance(fmt, L):
        return ("leaf", tag, parse_atom(fmt.kind, text if el is None else el.text))
    kids = []
    if doc_order and isinstance(fmt, R) and fmt.name in XSD_TYPE:
        by = {f.tag: f for f in fmt.fields}
        for f in fmt.fields:
            if f.tag.startswith("@") and f.tag[1:] in el.attrib:
                kids.append(parse(f.fmt, None, f.tag, el.attrib[f.tag[1:]]))
        for ch in el:
            if not isinstance(ch.tag, str):
                continue
            if ch.tag in by:
                kids.append(parse(by[ch.tag].fmt, ch, side=side, doc_order=True))
            else:
                kids.append(("leaf", ch.tag, ("str", "?unknown element")))
        return ("node", tag, kids)
    if isinstance(fmt, A):
        by = {a.tag: a for a in fmt.alts}
        for ch in el:
            if ch.tag in by:
                kids.append(parse(by[ch.tag].fmt, ch, set_sorted=set_sorted, side=side, doc_order=doc_order))
            else:
                kids.append(("leaf", ch.tag, ("str", "?unknown element")))
        return ("node", tag, kids)
    known = {f.tag_for(side) for f in fmt.fields}
    for f in fmt.fields:
        grp = []
        ftag = f.tag_for(side)
        if ftag.startswith("@"):
            if ftag[1:] in el.attrib:
                grp.append(parse(f.fmt, None, ftag, el.attrib[ftag[1:]]))
        else:
            for ch in el:
                if ch.tag == ftag:
                    grp.append(parse(f.fmt, ch, set_sorted=set_sorted, side=side, doc_order=doc_order))
        if f.as_set and set_sorted:
            grp.sort(key=repr)
        kids += grp
    for ch in el:
        if ch.tag not in known and isinstance(ch.tag, str):
            kids.append(("leaf", ch.tag, ("str", "?unknown element")))
    for a in el.attrib:
        if "@" + a not in known and a != "date":
            kids.append(("leaf", "@" + a, ("str", "?unknown attribute")))
    return ("node", tag, kids)


# ------------------------------------------------------------------------------------------ Coq printers
def coq_atom(a):
    from vlib.core import qq, qstr, qz
    k, x = a
    if k == "num":
        return f"(ANum {qq(x)})"
    if k == "int":
        return f"(AInt {qz(x)})"
    if k == "bool":
        return f"(ABool {'true' if x else 'false'})"
    return f"(AStr {qstr(x)})"


def coq_val(v):
    k = v[0]
    if k == "atom":
        return f"(VAtom {coq_atom(v[1])})"
    if k == "none":
        return "VNone"
    if k == "some":
        return f"(VSome {coq_val(v[1])})"
    if k == "alt":
        return f"(VAlt {v[1]} {coq_val(v[2])})"
    items = "[" + "; ".join(coq_val(x) for x in v[1]) + "]"
    return f"(VRec {items})" if k == "rec" else f"(VList {items})"


def coq_tree(t):
    from vlib.core import qstr
    if t[0] == "leaf":
        return f"(Leaf {qstr(t[1])} {coq_atom(t[2])})"
    return f"(Node {qstr(t[1])} [" + "; ".join(coq_tree(k) for k in t[2]) + "])"


def coq_table():
    """Gen/XmlFmt.v: module W = what the writer emits, module R = what the reader looks up; one Definition per
    named format node, in dependency order"""
    from vlib.core import qstr

    def module(side):
        done, out = {}, []

        def name_of(fmt):
            if isinstance(fmt, L):
                return {"num": "(FLeaf KNum)", "int": "(FLeaf KInt)", "str": "(FLeaf KStr)",
                        "bool": "(FLeaf KBool)"}[fmt.kind]
            if id(fmt) in done:
                return done[id(fmt)]
            nm = "f_" + fmt.name
            while nm in done.values():
                nm += "'"
            if isinstance(fmt, A):
                body = "ANil"
                for a in reversed(fmt.alts):
                    body = f"(ACons {qstr(a.tag)} {name_of(a.fmt)} {body})"
                out.append(f"Definition {nm} : fmt := FAny {body}.")
            else:
                subs = [(f, name_of(f.fmt)) for f in fmt.fields]
                body = "FNil"
                for f, sub in reversed(subs):
                    body = f"(FCons {qstr(f.tag_for(side))} {f.mult} {sub}\n    {body})"
                out.append(f"Definition {nm} : fmt := FRec {body}.")
            done[id(fmt)] = nm
            return nm

        root = name_of(ROOT)
        return (f"Module {side}.\n" + "\n".join(out) + f"\nDefinition xml_root : fmt := {root}.\nEnd {side}.\n")

    hdr = ("(* GENERATED by harness/props/xmlfmt.py from the format description (state attribute list: shipped XSD;\n"
           "   tag list: commonroad.scenario.scenario.Tag).  Do not edit.\n"
           "   W: the table of what the XML writer emits.  R: the table of what the XML reader looks up. *)\n"
           "From Coq Require Import String List.\nFrom CR Require Import Model.Codec.\nImport ListNotations.\n"
           "Open Scope string_scope.\n\n")
    return hdr + module("W") + "\n" + module("R")


# ------------------------------------------------------------------------------------------ XSD element order
# format node -> complex type of the shipped XSD whose xs:sequence fixes the order of its children
XSD_TYPE = {"point": "point", "rectangle": "rectangle", "circle": "circle", "polygon": "polygon",
            "occupancy": "occupancy", "bound_left_vertices": "bound", "bound_right_vertices": "bound",
            "stopLine": "stopLine", "lanelet": "lanelet", "trafficSign": "trafficSign",
            "cycleElement": "trafficCycleElement", "cycle": "trafficLightCycle", "trafficLight": "trafficLight",
            "incoming": "incoming", "crossing": "crossing", "intersection": "intersection",
            "staticObstacle": "staticObstacle", "dynamicObstacle": "dynamicObstacle",
            "environmentObstacle": "environmentObstacle", "phantomObstacle": "phantomObstacle",
            "planningProblem": "planningProblem", "additionalTransformation": "additionalTransformation",
            "geoTransformation": "geoTransformation", "environment": "environment", "location": "location",
            "commonRoad": "<root>"}


def xsd_sequences():
    """complex type name -> element names in xs:sequence order (choices inside a sequence are flattened: their
    alternatives share one slot).  Fail-closed: a mapped type that is not an xs:sequence raises."""
    from lxml import etree
    from props.codec_gen import XSD_PATH, XS
    root = etree.parse(XSD_PATH).getroot()

    def flatten(node):
        out = []
        for ch in node:
            if ch.tag == XS + "element":
                out.append(ch.get("name"))
            elif ch.tag in (XS + "choice", XS + "sequence"):
                out += flatten(ch)
            elif ch.tag in (XS + "annotation",) or not isinstance(ch.tag, str):
                continue
            else:
                raise ValueError(f"unexpected XSD construct {ch.tag} inside a sequence")
        return out

    seqs = {}
    for ct in root.findall(XS + "complexType"):
        kids = [k for k in ct if isinstance(k.tag, str) and k.tag not in (XS + "attribute", XS + "annotation")]
        if len(kids) == 1 and kids[0].tag == XS + "sequence":
            seqs[ct.get("name")] = flatten(kids[0])
    el = [e for e in root.findall(XS + "element") if e.get("name") == "commonRoad"]
    if len(el) != 1:
        raise ValueError("root element commonRoad not found in the XSD")
    seq = el[0].find(XS + "complexType").find(XS + "sequence")
    seqs["<root>"] = flatten(seq)
    return seqs


def coq_xsd_order():
    from vlib.core import qstr
    seqs = xsd_sequences()
    names = {}

    def collect(fmt):
        if isinstance(fmt, L) or id(fmt) in names:
            return
        names[id(fmt)] = fmt
        for sub in ([a.fmt for a in fmt.alts] if isinstance(fmt, A) else [f.fmt for f in fmt.fields]):
            collect(sub)
    collect(ROOT)
    rows = []
    for fmt in names.values():
        if isinstance(fmt, R) and fmt.name in XSD_TYPE:
            ty = XSD_TYPE[fmt.name]
            if ty not in seqs:
                raise ValueError(f"XSD type {ty} (for {fmt.name}) is not an xs:sequence any more")
            order = "[" + "; ".join(qstr(t) for t in seqs[ty]) + "]"
            coqname = "W.xml_root" if fmt is ROOT else "W.f_" + fmt.name
            rows.append(f"  ({qstr(fmt.name)}, {coqname}, {order})")
    missing = set(XSD_TYPE) - {f.name for f in names.values() if isinstance(f, R)}
    if missing:
        raise ValueError(f"format nodes {missing} no longer exist")
    return ("(* GENERATED by harness/props/xmlfmt.py from the shipped XML_commonRoad_XSD.xsd: for every element\n"
            "   format whose XSD complex type is an xs:sequence, the element names in schema order. Do not edit. *)\n"
            "From Coq Require Import String List.\nFrom CR Require Import Model.Codec Gen.XmlFmt.\n"
            "Import ListNotations.\nOpen Scope string_scope.\n\n"
            "Definition xsd_sequences : list (string * fmt * list string) := [\n" + ";\n".join(rows) + "\n].\n")
