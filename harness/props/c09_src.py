"""C09 source tie for the id-pool primitives: Scenario._is_object_id_used, _mark_object_id_as_used,
_mark_object_ids_as_used and generate_object_id (commonroad/scenario/scenario.py) are parsed on every run into the
statement language of coq/Model/IdPoolSrc.v and written to coq/Gen/Src_idpool.v; Proofs/SrcIdPool.v proves the parsed
programs to compute mark_one / mark_all / generate of Model/IdPool.v, which the C09 theorems are about.

Fail-closed: any statement or condition outside the shapes below raises SourceShapeError (reported as a broken
obligation).  `self`, the id parameter / loop variable x and the local set are recognised under whatever names the source
uses; docstrings are skipped.

  _is_object_id_used(self, x):          return x in self._id_set                                   UsedIsMember
  _mark_object_id_as_used(self, x):     statements about x
  _mark_object_ids_as_used(self, ids):  N = set();  for x in ids: <statements>;  for x in ids: <statements>
      statements:  if <cond>: <atoms>            SIf c [atoms]        atoms and plain statements:
                   self._id_counter = x          ACounterSetX          raise ValueError(...)              ARaise
                   self._id_set.add(x)           ASetAdd               N.add(x)                           ANewAdd
                   self._mark_object_id_as_used(x)                     ACallMark
      conditions:  self._id_counter is None      CCounterNone          self._is_object_id_used(x)         CUsed
                   x in N                        CInNew                a or b                             COr a b
  generate_object_id(self):
      if self._id_counter is None: self._id_counter = 0                                                  GInitCounter
      if len(self._id_set) > 0 (or: if self._id_set):
          [m = max(self._id_set);] self._id_counter = max(self._id_counter, m | max(self._id_set))        GRaiseToMax
      self._id_counter += 1   (or  = self._id_counter + 1)                                                GIncrement
      return self._id_counter                                                                             GReturnCounter

Trusted: this parser and the meaning the interpreter of Model/IdPoolSrc.v gives to the accepted shapes (a Python set of
ints = the duplicate-free list of Model/IdPool.v, max over it = maxl)."""
import ast
import hashlib
import os

from vlib.core import COQ, REPO
from vlib.py2coq import write_if_changed


class SourceShapeError(Exception):
    pass


def bad(node, why):
    raise SourceShapeError(f"scenario.py:{getattr(node, 'lineno', '?')}: {why}: {ast.unparse(node)[:120]}")


def is_name(n, ident):
    return isinstance(n, ast.Name) and n.id == ident


def self_attr(n, self_, attr):
    return isinstance(n, ast.Attribute) and is_name(n.value, self_) and n.attr == attr


def body_of(fn):
    return [s for s in fn.body if not (isinstance(s, ast.Expr) and isinstance(s.value, ast.Constant)
                                       and isinstance(s.value.value, str))]


def params(fn, n):
    a = fn.args
    if a.vararg or a.kwarg or a.kwonlyargs or a.posonlyargs or a.defaults or len(a.args) != n:
        bad(fn, f"{fn.name} does not take exactly {n} positional parameters")
    return [x.arg for x in a.args]


def parse_cond(c, self_, x, new):
    if isinstance(c, ast.BoolOp) and isinstance(c.op, ast.Or):
        out = parse_cond(c.values[0], self_, x, new)
        for v in c.values[1:]:
            out = f"(COr {out} {parse_cond(v, self_, x, new)})"
        return out
    if isinstance(c, ast.Compare) and len(c.ops) == 1:
        if isinstance(c.ops[0], ast.Is) and self_attr(c.left, self_, "_id_counter") \
                and isinstance(c.comparators[0], ast.Constant) and c.comparators[0].value is None:
            return "CCounterNone"
        if isinstance(c.ops[0], ast.In) and is_name(c.left, x) and new is not None and is_name(c.comparators[0], new):
            return "CInNew"
    if isinstance(c, ast.Call) and self_attr(c.func, self_, "_is_object_id_used") and len(c.args) == 1 \
            and not c.keywords and is_name(c.args[0], x):
        return "CUsed"
    bad(c, "condition outside the accepted shapes")


def parse_atom(s, self_, x, new):
    if isinstance(s, ast.Raise) and isinstance(s.exc, ast.Call) and is_name(s.exc.func, "ValueError") and s.cause is None:
        return "ARaise"
    if isinstance(s, ast.Assign) and len(s.targets) == 1 and self_attr(s.targets[0], self_, "_id_counter") \
            and is_name(s.value, x):
        return "ACounterSetX"
    if isinstance(s, ast.Expr) and isinstance(s.value, ast.Call) and not s.value.keywords and len(s.value.args) == 1 \
            and is_name(s.value.args[0], x) and isinstance(s.value.func, ast.Attribute):
        f = s.value.func
        if f.attr == "add" and self_attr(f.value, self_, "_id_set"):
            return "ASetAdd"
        if f.attr == "add" and new is not None and is_name(f.value, new):
            return "ANewAdd"
        if f.attr == "_mark_object_id_as_used" and is_name(f.value, self_):
            return "ACallMark"
    bad(s, "statement outside the accepted shapes")


def parse_stmts(stmts, self_, x, new):
    out = []
    for s in stmts:
        if isinstance(s, ast.If):
            if s.orelse:
                bad(s, "else branch")
            out.append(f"SIf {parse_cond(s.test, self_, x, new)} [" +
                       "; ".join(parse_atom(b, self_, x, new) for b in s.body) + "]")
        else:
            out.append(f"SDo {parse_atom(s, self_, x, new)}")
    return out


def parse_is_used(fn):
    self_, x = params(fn, 2)
    b = body_of(fn)
    ok = (len(b) == 1 and isinstance(b[0], ast.Return) and isinstance(b[0].value, ast.Compare)
          and len(b[0].value.ops) == 1 and isinstance(b[0].value.ops[0], ast.In) and is_name(b[0].value.left, x)
          and self_attr(b[0].value.comparators[0], self_, "_id_set"))
    if not ok:
        bad(fn, "_is_object_id_used is not `return object_id in self._id_set`")
    return "UsedIsMember"


def parse_mark_one(fn):
    self_, x = params(fn, 2)
    return parse_stmts(body_of(fn), self_, x, None)


def parse_mark_all(fn):
    self_, ids = params(fn, 2)
    b = body_of(fn)
    if len(b) != 3:
        bad(fn, "_mark_object_ids_as_used is not `N = set()` followed by two loops")
    s0 = b[0]
    if not (isinstance(s0, ast.Assign) and len(s0.targets) == 1 and isinstance(s0.targets[0], ast.Name)
            and isinstance(s0.value, ast.Call) and is_name(s0.value.func, "set") and not s0.value.args
            and not s0.value.keywords):
        bad(s0, "first statement is not `N = set()`")
    new = s0.targets[0].id
    loops = []
    for lp in b[1:]:
        if not (isinstance(lp, ast.For) and not lp.orelse and isinstance(lp.target, ast.Name) and is_name(lp.iter, ids)):
            bad(lp, "not a loop over the id list")
        if lp.target.id in (self_, ids, new):
            bad(lp, "loop variable shadows another name")
        loops.append(parse_stmts(lp.body, self_, lp.target.id, new))
    return loops


def parse_generate(fn):
    (self_,) = params(fn, 1)
    out = []
    ctr = lambda n: self_attr(n, self_, "_id_counter")  # noqa: E731

    def max_of_set(n):
        return (isinstance(n, ast.Call) and is_name(n.func, "max") and len(n.args) == 1 and not n.keywords
                and self_attr(n.args[0], self_, "_id_set"))
    for s in body_of(fn):
        if isinstance(s, ast.If) and not s.orelse:
            t = s.test
            if isinstance(t, ast.Compare) and len(t.ops) == 1 and isinstance(t.ops[0], ast.Is) and ctr(t.left) \
                    and isinstance(t.comparators[0], ast.Constant) and t.comparators[0].value is None \
                    and len(s.body) == 1 and isinstance(s.body[0], ast.Assign) and len(s.body[0].targets) == 1 \
                    and ctr(s.body[0].targets[0]) and isinstance(s.body[0].value, ast.Constant) \
                    and s.body[0].value.value == 0 and type(s.body[0].value.value) is int:
                out.append("GInitCounter")
                continue
            nonempty = (self_attr(t, self_, "_id_set")
                        or (isinstance(t, ast.Compare) and len(t.ops) == 1 and isinstance(t.ops[0], ast.Gt)
                            and isinstance(t.left, ast.Call) and is_name(t.left.func, "len") and len(t.left.args) == 1
                            and self_attr(t.left.args[0], self_, "_id_set")
                            and isinstance(t.comparators[0], ast.Constant) and t.comparators[0].value == 0))
            if nonempty:
                body = list(s.body)
                local = None
                if len(body) == 2 and isinstance(body[0], ast.Assign) and len(body[0].targets) == 1 \
                        and isinstance(body[0].targets[0], ast.Name) and max_of_set(body[0].value):
                    local = body[0].targets[0].id
                    body = body[1:]
                if len(body) == 1 and isinstance(body[0], ast.Assign) and len(body[0].targets) == 1 \
                        and ctr(body[0].targets[0]) and isinstance(body[0].value, ast.Call) \
                        and is_name(body[0].value.func, "max") and len(body[0].value.args) == 2 \
                        and not body[0].value.keywords:
                    a0, a1 = body[0].value.args
                    other = a1 if ctr(a0) else a0 if ctr(a1) else None
                    if other is not None and ((local is not None and is_name(other, local)) or max_of_set(other)):
                        out.append("GRaiseToMax")
                        continue
            bad(s, "conditional of generate_object_id outside the accepted shapes")
        elif isinstance(s, ast.AugAssign) and isinstance(s.op, ast.Add) and ctr(s.target) \
                and isinstance(s.value, ast.Constant) and s.value.value == 1:
            out.append("GIncrement")
        elif isinstance(s, ast.Assign) and len(s.targets) == 1 and ctr(s.targets[0]) and isinstance(s.value, ast.BinOp) \
                and isinstance(s.value.op, ast.Add) and ctr(s.value.left) and isinstance(s.value.right, ast.Constant) \
                and s.value.right.value == 1:
            out.append("GIncrement")
        elif isinstance(s, ast.Return) and s.value is not None and ctr(s.value):
            out.append("GReturnCounter")
        else:
            bad(s, "statement of generate_object_id outside the accepted shapes")
    return out


def text():
    path = os.path.join(REPO, "commonroad", "scenario", "scenario.py")
    src = open(path).read()
    tree = ast.parse(src)
    cls = [n for n in tree.body if isinstance(n, ast.ClassDef) and n.name == "Scenario"]
    if len(cls) != 1:
        raise SourceShapeError("scenario.py: class Scenario not found exactly once")
    meth = {n.name: n for n in cls[0].body if isinstance(n, ast.FunctionDef)}
    for m in ("_is_object_id_used", "_mark_object_id_as_used", "_mark_object_ids_as_used", "generate_object_id"):
        if m not in meth:
            raise SourceShapeError(f"scenario.py: Scenario.{m} not found")
        if meth[m].decorator_list:
            bad(meth[m], "decorated method")
    used = parse_is_used(meth["_is_object_id_used"])
    one = parse_mark_one(meth["_mark_object_id_as_used"])
    check, body = parse_mark_all(meth["_mark_object_ids_as_used"])
    gen = parse_generate(meth["generate_object_id"])
    sha = hashlib.sha1(src.encode()).hexdigest()[:12]
    lst = lambda xs: "[" + "; ".join(xs) + "]"  # noqa: E731
    return ("(* GENERATED on every run by harness/props/c09_src.py from the syntax trees of Scenario._is_object_id_used, "
            "_mark_object_id_as_used,\n   _mark_object_ids_as_used and generate_object_id. Do not edit.\n"
            f"   source: {path} sha1={sha} *)\n"
            "From Coq Require Import List.\nImport ListNotations.\nFrom CR Require Import Model.IdPoolSrc.\n\n"
            f"Definition src_is_used : used_def := {used}.\n"
            f"Definition src_mark_one : list istmt := {lst(one)}.\n"
            f"Definition src_mark_all_check : list istmt := {lst(check)}.\n"
            f"Definition src_mark_all_body : list istmt := {lst(body)}.\n"
            f"Definition src_generate : list gstmt := {lst(gen)}.\n")


def generate():
    return write_if_changed(os.path.join(COQ, "Gen", "Src_idpool.v"), text())


if __name__ == "__main__":
    print(text())
