"""C01 — XML write -> read reproduces scenario and planning problems.
oracle: generated schema-expressible scenarios written by the real writer, read by the real reader, canonical
        content compared (discrete identical, reals within 10^-d)   [props/codec_run.py, vlib/canon.py]
corr:   generic codec of Model/Codec.v on the GENERATED tables W / R vs the written tree and the read-back
        value (Corr/C01.v relations A and B); float_to_str vs Model/DecStr.v (relation F)
hist:   writer histories (props/c01_hist.py): several writer objects (CommonRoadFileWriter / XMLFileWriter directly /
        protobuf) with precisions 1..12 constructed and used in one process, write_to_file and write_scenario_to_file;
        every XML file written is judged with its own writer's precision; relation H vs Model/WriterPrec.v"""
from fractions import Fraction

import numpy as np

import gen_tables
from props import c01_hist, codec_run
from vlib.flow import load_corpus

RULE = ("schema-expressible scenarios + planning-problem sets generated from one seed each (props/codec_gen.py): "
        "1-9 lanelets with all XSD-listed line markings / types / users, signs, lights, stop lines, intersections, "
        "obstacles of all four roles with rectangle / circle / polygon / group shapes, every state class incl. custom "
        "attribute subsets, exact / interval / region values, signal states, set-based and trajectory predictions, "
        "goal states with shape or lanelet positions, location / environment / tags; 40% with an edge stream of "
        "magnitudes 1e-7..1e5; decimal precisions 1..12, written by a fresh CommonRoadFileWriter.write_to_file. "
        "Writer histories (props/c01_hist.py): random interleavings of constructing 1-4 writers (CommonRoadFileWriter "
        "XML, XMLFileWriter directly, CommonRoadFileWriter protobuf; decimal_precision uniform in 1..12; each with a "
        "generated scenario of its own) and of their write_to_file / write_scenario_to_file calls (0-2 per writer); every "
        "file an XML writer writes is read back and must reproduce what that writer was given (no planning problems "
        "after write_scenario_to_file), reals within 10^-d of that writer. distinct = distinct (seed, precision, edge) / "
        "distinct history; non-trivial = the scenario has at least one obstacle or sign or light / the history has an "
        "XML write")
ASSUME = ["lxml / ElementTree serialise and parse element trees faithfully", "float(text) is the correctly rounded "
          "value of the decimal text; str(np.float64) is the shortest round-trip repr",
          "children of one element are compared in table order (order inside elements is judged by XSD validation, C03)",
          "histories: file names are given explicitly with OverwriteExistingFile.ALWAYS into an empty directory (naming / "
          "overwrite policy and byte-identity of outputs are C15); more decimals than d in a file are not a C01 matter; "
          "what a protobuf writer writes inside a history is not judged here (C02)"]


def gen(rng, n):
    return codec_run.gen_cases(rng, n, "xml")


def oracle(case):
    if case.get("op") == "f2s":
        return oracle_f2s(case)
    if case.get("op") == "hist":
        from vlib.core import Findings
        known = {f["signature"] for f in Findings().data.get("findings", []) if f["property"] == "C01"}
        return c01_hist.oracle_hist(case, skip=known)
    if c01_hist.fragile_case(case):
        return c01_hist.oracle_hist(c01_hist.as_history(case))
    return codec_run.oracle_roundtrip(case)


def roundtrip_all(ctx, c):
    """basic case: fresh CommonRoadFileWriter + write_to_file.  A scenario with a polygon whose rotation sense is a
    near-boundary decision at the case's precision is judged by the comparison that releases exactly that decision"""
    if c01_hist.fragile_case(c):
        h = c01_hist.as_history(c)
        rs = c01_hist.oracle_hist_all(h)
        ctx.dist["near-boundary: scenarios with a polygon of undecided rotation sense at 10^-d"] = ctx.dist.get(
            "near-boundary: scenarios with a polygon of undecided rotation sense at 10^-d", 0) + 1
        note_reoriented(ctx, h)
        return rs
    return codec_run.oracle_roundtrip_all(c)


def note_reoriented(ctx, h):
    k = "near-boundary: polygons read back in the opposite rotation sense (released)"
    ctx.dist[k] = ctx.dist.get(k, 0) + c01_hist.reoriented(h)


# ---------------------------------------------------------------- float_to_str (leaf contract)
def f2s_cases(rng, n):
    out = []
    for _ in range(n):
        k = rng.random()
        if k < 0.4:
            x = rng.uniform(-1, 1) * 10.0 ** rng.randint(-9, 7)
        elif k < 0.7:
            x = round(rng.uniform(-1000, 1000), rng.randint(0, 8))
        else:
            x = rng.choice([0.0, -0.0, 1e-5, 1e-4, 9.9999e-5, 123456.789, 1e16, 1e-7, 0.1 + 0.2, 2.5, -2.5, 5e-324,
                            1e22, 0.30000000000000004, 99999.99999, 1.0, float(rng.randint(-10**9, 10**9))])
        out.append({"op": "f2s", "x": float(x), "d": rng.randint(1, 12)})
    return out


def run_f2s(c):
    from commonroad.common.writer import file_writer_xml as w
    from commonroad.common.writer.file_writer_interface import precision
    old = precision.decimals
    precision.decimals = c["d"]
    try:
        return str(np.float64(c["x"])), w.float_to_str(np.float64(c["x"]))
    finally:
        precision.decimals = old


def oracle_f2s(c):
    s_in, s_out = run_f2s(c)
    import re
    if not re.fullmatch(r"-?\d+(\.\d+)?", s_out):
        return ("float_to_str:not plain decimal", f"float_to_str({c['x']!r}, d={c['d']}) = {s_out!r}")
    err = abs(Fraction(s_out) - Fraction(c["x"]))
    if not err < Fraction(1, 10 ** c["d"]) + Fraction(abs(c["x"])) * Fraction(1, 10 ** 15):
        return ("float_to_str:error >= 10^-d", f"float_to_str({c['x']!r}, d={c['d']}) = {s_out!r} off by {float(err)}")
    return None


def digits(s):
    neg = s.startswith("-")
    s = s.lstrip("-")
    ip, _, fp = s.partition(".")
    return f"{{| neg := {'true' if neg else 'false'}; ip := [{'; '.join(ip)}]%Z; fp := [{'; '.join(fp)}]%Z |}}"


def corr_f2s(ctx, cases):
    terms, use = [], []
    for c in cases:
        s_in, s_out = run_f2s(c)
        if "e" in s_in or "n" in s_in:  # exponent branch = format(x, '.df'), an oracle (checked by oracle_f2s)
            continue
        terms.append(f"CaseF {c['d']} {digits(s_in)} {digits(s_out)}")
        use.append(c)
    bad, errors = ctx.coq_bad_indices("f2s", codec_run.XML_IMPORTS + "From CR Require Import Model.DecStr.\n"
                                      "Open Scope Z_scope.\n", "", terms, "check")
    ctx.coverage["float_to_str_cases"] = len(terms)
    for e in errors:
        ctx.corr_break("Corr.C01.check CaseF (coqc failed)", e)
    for i in bad:
        ctx.corr_break("Corr.C01 F: float_to_str = Model/DecStr.v", use[i])
    ctx.log(f"corr float_to_str cases={len(terms)} disagree={len(bad)} coq_errors={len(errors)}")


def run(ctx):
    ctx.trusted = ["Coq 8.16.1 kernel + vm_compute (no native_compute)",
                   "axioms: none (Print Assumptions: Closed under the global context)",
                   "translator harness/props/xmlfmt.py: ONE format description generates coq/Gen/XmlFmt.v (tables W, R), "
                   "extracts values from the Python objects and converts lxml trees; state attribute list read from the "
                   "shipped XSD, tag list from the Tag enum; regenerated on every run",
                   "correspondence relations coq/Corr/C01.v (A: written tree = write W; B: read-back = read R; F: float_to_str; "
                   "H: precision.decimals after every step of a writer history = Model/WriterPrec.v)",
                   "harness/vlib/canon.py + props/codec_gen.py (generator, canonical comparison)",
                   "lxml, CPython float repr/parse, format(x,'.nf') (exponent branch of float_to_str)"]
    changed = gen_tables.main(["XmlFmt.v"])
    if changed:
        ctx.notes.append(f"regenerated {changed} from /repo")
    ctx.build_props()
    if ctx.tier == "thorough":
        ctx.coqchk()
    n = ctx.n(120, 3000)
    cases = [c for c in load_corpus("C01")] + gen(ctx.rng, n)
    fcases = f2s_cases(ctx.rng, ctx.n(600, 20000))
    hcases = c01_hist.gen_hist(ctx.rng, ctx.n(60, 1500))

    def run_oracle(cs):
        for c in cs:
            if c.get("op") == "f2s":
                ctx.count(c, True, "float_to_str")
            elif c.get("op") == "hist":
                sh = c01_hist.shape_of(c)
                ctx.count(c, sh["xml_writes"] > 0, f"writer history ({sh['writers']} writers)")
                for k in ("xml_writes", "scenario_only", "direct"):
                    ctx.dist["history writes: " + k] = ctx.dist.get("history writes: " + k, 0) + sh[k]
                ctx.dist["histories with a write after a lower-precision writer"] = ctx.dist.get(
                    "histories with a write after a lower-precision writer", 0) + int(sh["lower_between"])
                for r in c01_hist.oracle_hist_all(c):
                    ctx.fail(r[0], r[1], c)
                note_reoriented(ctx, c)
                continue
            else:
                d = codec_run.describe(c)
                ctx.count(c, d["static"] + d["dynamic"] + d["phantom"] + d["environment"] + d["signs"] + d["lights"] > 0,
                          "xml scenario" + (" (edge magnitudes)" if c.get("edge") else ""))
                for k in ("lanelets", "static", "dynamic", "phantom", "environment", "signs", "lights", "intersections"):
                    ctx.dist["total " + k] = ctx.dist.get("total " + k, 0) + d[k]
            for r in ([oracle(c)] if c.get("op") == "f2s" else roundtrip_all(ctx, c)):
                if r:
                    ctx.fail(r[0], r[1], c)

    for k, c in enumerate(hcases):  # one execution per history serves the oracle and the correspondence
        c01_hist.run_history(c, want_terms=k < ctx.n(8, 60))
    run_oracle(cases + fcases + hcases)
    # relation B compares polygon vertices in file order: scenarios with a polygon of undecided rotation sense stay out
    codec_run.xml_corr(ctx, [c for c in cases if not c01_hist.fragile_case(c)], ctx.n(40, 400))
    corr_f2s(ctx, fcases)
    c01_hist.hist_corr(ctx, hcases, ctx.n(8, 60))
    if (ctx.proof_breaks or ctx.corr_breaks) and not ctx.failures:
        ctx.log("proof/correspondence broke; widening the search")
        run_oracle([b["case"] for b in ctx.corr_breaks if isinstance(b.get("case"), dict)])
        if not ctx.failures:
            run_oracle(gen(ctx.rng, n * 5) + f2s_cases(ctx.rng, 5000) + c01_hist.gen_hist(ctx.rng, n * 3))
    return ctx.finish(RULE, assumptions=ASSUME)
