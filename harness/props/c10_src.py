"""C10 source tie: LaneletNetwork.cleanup_lanelet_references / cleanup_traffic_sign_references /
cleanup_traffic_light_references, remove_lanelet / remove_traffic_sign / remove_traffic_light / remove_intersection and
create_from_lanelet_list (commonroad/scenario/lanelet.py) are parsed on every run into the rule language of coq/Model/NetworkSrc.v and written to
coq/Gen/Src_network.v; Proofs/SrcNetwork.v proves that the parsed rule lists compute cleanup_lanelets / cleanup_signs /
cleanup_lights and the parsed remove frames net_remove_* of Model/Network.v, which the C10 theorems are about.

Fail-closed: a statement outside the shapes listed in Model/NetworkSrc.v raises SourceShapeError (a broken obligation).
The methods are first brought into the normal form of vlib/astnorm.py, so that a harmless rewrite (a helper extracted, an
early return, a local alias) gives the same shapes.  Loop variables and `existing_ids` may have any names.

Trusted: this parser and the reading of the accepted shapes (a Python set / list of ids = a list compared as a set;
`x.intersection(existing)` and `list(set(x).intersection(existing))` = filter by membership; LaneletNetwork.lanelets /
intersections and Intersection.incomings hand out the stored objects; the private attribute _F is what the property F
returns; _buffered_polygons and the STRtree are outside the model (C06))."""
import ast
import hashlib
import os

from vlib.core import COQ, REPO
from vlib.py2coq import write_if_changed
from vlib import astnorm as N

FILE = os.path.join("commonroad", "scenario", "lanelet.py")


class SourceShapeError(Exception):
    pass


def bad(node, why):
    raise SourceShapeError(f"lanelet.py:{getattr(node, 'lineno', '?')}: {why}: {ast.unparse(node)[:150]}")


def body_of(fn):
    return [s for s in fn.body if not (isinstance(s, ast.Expr) and isinstance(s.value, ast.Constant)
                                       and isinstance(s.value.value, str))]


KEEP = ("cleanup_lanelet_references", "cleanup_traffic_sign_references", "cleanup_traffic_light_references",
        "_create_strtree")


def method(tree, name):
    """the method in the normal form of vlib/astnorm.py (helpers inlined, guard clauses / nested ifs as one decision
    tree, aliases and single-use temporaries removed, `x in d.keys()` = `x in d`)"""
    for c in tree.body:
        if isinstance(c, ast.ClassDef) and c.name == "LaneletNetwork":
            hits = [f for f in c.body if isinstance(f, ast.FunctionDef) and f.name == name]
            if len(hits) == 1 and not hits[0].decorator_list:
                return N.normal(hits[0], N.class_methods(tree, "LaneletNetwork"), KEEP)
    raise SourceShapeError(f"LaneletNetwork.{name} not found (or decorated / defined twice)")


DICTS = {"_lanelets": "ULanelets", "_traffic_signs": "USigns", "_traffic_lights": "ULights", "_intersections": "UInters"}
LIST_FIELDS = {"predecessor": "FPred", "successor": "FSucc"}
SET_FIELDS = {"traffic_signs": "FSigns", "traffic_lights": "FLights"}
ADJ = {"adj_left": "SLeft", "adj_right": "SRight"}
STOP_REFS = {"traffic_sign_ref": "FSigns", "traffic_light_ref": "FLights"}
INC_FIELDS = {"incoming_lanelets": "FIncoming", "successors_right": "FRight", "successors_straight": "FStraight",
              "successors_left": "FLeft"}


def u(x):
    return ast.unparse(x)


def lanelet_rule(s, la, ex):
    """one statement of the loop over the lanelets -> rule text"""
    if isinstance(s, ast.Assign) and len(s.targets) == 1:
        t, v = u(s.targets[0]), u(s.value)
        for f, c in LIST_FIELDS.items():
            if t == f"{la}._{f}" and v == f"list(set({la}.{f}).intersection({ex}))":
                return f"RList {c}"
        for f, c in SET_FIELDS.items():
            if t == f"{la}._{f}" and v in (f"{la}.{f}.intersection({ex})", f"set({la}.{f}).intersection({ex})"):
                return f"RSet {c}"
        for a, c in ADJ.items():
            if t == f"{la}._{a}" and v == f"None if {la}.{a} is None or {la}.{a} not in {ex} else {la}.{a}":
                return f"RAdj {c}"
            d = f"{a}_same_direction"
            if t == f"{la}._{d}" and v == f"None if {la}.{d} is None or {la}.{a} not in {ex} else {la}.{d}":
                return f"RDir {c}"
    if isinstance(s, ast.If) and not s.orelse and len(s.body) == 1 and isinstance(s.body[0], ast.Assign):
        for r, c in STOP_REFS.items():
            if u(s.test) == f"{la}.stop_line is not None and {la}.stop_line.{r} is not None" \
                    and u(s.body[0].targets[0]) == f"{la}.stop_line._{r}" \
                    and u(s.body[0].value) == f"{la}.stop_line.{r}.intersection({ex})":
                return f"RStop {c}"
    bad(s, "lanelet rule outside the accepted shapes")


def parse_cleanup(fn):
    self_ = fn.args.args[0].arg
    if len(fn.args.args) != 1:
        bad(fn, "cleanup method with parameters")
    body = body_of(fn)
    if not body or not (isinstance(body[0], ast.Assign) and isinstance(body[0].targets[0], ast.Name)):
        bad(fn, "first statement is not existing_ids = set(self._D.keys())")
    ex = body[0].targets[0].id
    uni = None
    for d, c in DICTS.items():
        if u(body[0].value) in (f"set({self_}.{d}.keys())", f"set({self_}.{d})"):
            uni = c
    if uni is None:
        bad(body[0], "universe of existing ids")
    lrules, irules, xrules = [], [], []
    for s in body[1:]:
        if not isinstance(s, ast.For) or s.orelse or not isinstance(s.target, ast.Name):
            bad(s, "statement after the universe is not a for loop")
        if u(s.iter) == f"{self_}.lanelets":
            lrules += [lanelet_rule(x, s.target.id, ex) for x in s.body]
        elif u(s.iter) == f"{self_}.intersections":
            x = s.target.id
            for st in s.body:
                if isinstance(st, ast.For) and not st.orelse and isinstance(st.target, ast.Name) \
                        and u(st.iter) == f"{x}.incomings":
                    inc = st.target.id
                    for a in st.body:
                        hit = None
                        for f, c in INC_FIELDS.items():
                            if isinstance(a, ast.Assign) and u(a.targets[0]) == f"{inc}._{f}" \
                                    and u(a.value) in (f"set({inc}.{f}).intersection({ex})", f"{inc}.{f}.intersection({ex})"):
                                hit = f"RInc {c}"
                        if hit is None:
                            bad(a, "incoming rule outside the accepted shapes")
                        irules.append(hit)
                elif isinstance(st, ast.Assign) and u(st.targets[0]) == f"{x}._crossings" \
                        and u(st.value) in (f"set({x}.crossings).intersection({ex})", f"{x}.crossings.intersection({ex})"):
                    if irules == [] and any(isinstance(z, ast.For) for z in s.body):
                        bad(st, "crossings are filtered before the incoming elements (order the model does not describe)")
                    xrules.append("RCross")
                else:
                    bad(st, "intersection rule outside the accepted shapes")
        else:
            bad(s, "loop over something else than self.lanelets / self.intersections")
    return (f"{{| cp_universe := {uni}; cp_lanelet := [{'; '.join(lrules)}]; cp_incoming := [{'; '.join(irules)}]; "
            f"cp_inter := [{'; '.join(xrules)}] |}}")


def parse_remove(fn, cleanup_name):
    self_ = fn.args.args[0].arg
    if len(fn.args.args) < 2:
        bad(fn, "remove method without an id parameter")
    idp = fn.args.args[1].arg
    body = body_of(fn)
    if not body or not isinstance(body[0], ast.If) or body[0].orelse:
        bad(fn, "remove method does not start with `if id in self._D.keys():`")
    uni = dname = None
    for d, c in DICTS.items():
        if u(body[0].test) in (f"{idp} in {self_}.{d}.keys()", f"{idp} in {self_}.{d}"):
            uni, dname = c, d
    if uni is None:
        bad(body[0], "guard of the removal")
    inside = body[0].body
    if not inside or u(inside[0]) != f"del {self_}.{dname}[{idp}]":
        bad(body[0], "the element is not deleted from its dictionary first")
    call = f"{self_}.{cleanup_name}()" if cleanup_name else None
    pos = "CleanupNone"
    for s in inside[1:]:
        if call and u(s) == call:
            pos = "CleanupInside"
        elif u(s) == f"del {self_}._buffered_polygons[{idp}]" and uni == "ULanelets":
            continue                  # spatial index data: C06
        else:
            bad(s, "statement inside the removal guard")
    for s in body[1:]:
        if call and u(s) == call and pos == "CleanupNone":
            pos = "CleanupAfter"
        elif isinstance(s, ast.If) and not s.orelse and u(s.test) == "rtree" and len(s.body) == 1 \
                and u(s.body[0]) == f"{self_}._create_strtree()":
            continue                  # spatial index: C06
        else:
            bad(s, "statement after the removal guard")
    if cleanup_name and pos == "CleanupNone":
        bad(fn, f"{cleanup_name} is never called")
    return f"{{| rp_dict := {uni}; rp_cleanup := {pos} |}}"


CLEANUPS = {"cleanup_lanelet_references": "CkLanelets", "cleanup_traffic_sign_references": "CkSigns",
            "cleanup_traffic_light_references": "CkLights"}


def parse_from_list(tree):
    """create_from_lanelet_list (classmethod), as written: net = cls(); for la in lanelets: net.add_lanelet(
    copy.deepcopy(la), rtree=False); if cleanup_ids: <cleanup calls>; net._create_strtree(); return net"""
    fn = None
    for c in tree.body:
        if isinstance(c, ast.ClassDef) and c.name == "LaneletNetwork":
            hits = [f for f in c.body if isinstance(f, ast.FunctionDef) and f.name == "create_from_lanelet_list"]
            if len(hits) == 1 and [u(d) for d in hits[0].decorator_list] == ["classmethod"]:
                fn = hits[0]
    if fn is None:
        raise SourceShapeError("LaneletNetwork.create_from_lanelet_list not found as a classmethod")
    a = fn.args
    if len(a.args) != 3 or len(a.defaults) != 1 or u(a.defaults[0]) != "True" or a.vararg or a.kwarg or a.kwonlyargs:
        bad(fn, "parameters of create_from_lanelet_list")
    cls_, ls, flag = (x.arg for x in a.args)
    body = [s for s in body_of(fn) if not isinstance(s, ast.Assert)]
    if len(body) < 3 or not isinstance(body[0], ast.Assign) or not isinstance(body[0].targets[0], ast.Name) \
            or u(body[0].value) != f"{cls_}()" or not isinstance(body[-1], ast.Return) \
            or u(body[-1].value) != body[0].targets[0].id:
        bad(fn, "create_from_lanelet_list is not `net = cls(); ...; return net`")
    net = body[0].targets[0].id
    loop = body[1]
    if not (isinstance(loop, ast.For) and not loop.orelse and isinstance(loop.target, ast.Name) and u(loop.iter) == ls
            and len(loop.body) == 1
            and u(loop.body[0]) == f"{net}.add_lanelet(copy.deepcopy({loop.target.id}), rtree=False)"):
        bad(loop, "the lanelets are not added as deep copies, one by one")
    cleanups, seen_index = [], False
    for s in body[2:-1]:
        if isinstance(s, ast.If) and u(s.test) == flag and not s.orelse and not cleanups:
            for c in s.body:
                hit = [k for m, k in CLEANUPS.items() if u(c) == f"{net}.{m}()"]
                if not hit:
                    bad(c, "statement under `if cleanup_ids:` is not a cleanup call")
                cleanups.append(hit[0])
        elif u(s) == f"{net}._create_strtree()":
            seen_index = True
        else:
            bad(s, "statement of create_from_lanelet_list outside the accepted shapes")
    if not seen_index:
        bad(fn, "the spatial index is not built")
    return f"{{| fl_deepcopy := true; fl_cleanups := [{'; '.join(cleanups)}] |}}"


def text():
    raw = open(os.path.join(REPO, FILE), "rb").read()
    tree = ast.parse(raw)
    out = ["(* GENERATED on every run by harness/props/c10_src.py from the syntax trees of LaneletNetwork.cleanup_*_references "
           "and remove_*.  Do not edit.", f"   source: {FILE} sha1={hashlib.sha1(raw).hexdigest()} *)",
           "From Coq Require Import List.", "From CR Require Import Model.NetworkSrc.", "Import ListNotations.", ""]
    for nm, meth in (("src_cleanup_lanelets", "cleanup_lanelet_references"), ("src_cleanup_signs", "cleanup_traffic_sign_references"),
                     ("src_cleanup_lights", "cleanup_traffic_light_references")):
        out.append(f"Definition {nm} : cleanup_prog :=\n  {parse_cleanup(method(tree, meth))}.")
    for nm, meth, cl in (("src_remove_lanelet", "remove_lanelet", "cleanup_lanelet_references"),
                         ("src_remove_sign", "remove_traffic_sign", "cleanup_traffic_sign_references"),
                         ("src_remove_light", "remove_traffic_light", "cleanup_traffic_light_references"),
                         ("src_remove_inter", "remove_intersection", None)):
        out.append(f"Definition {nm} : remove_prog := {parse_remove(method(tree, meth), cl)}.")
    out.append(f"Definition src_from_list : fromlist_prog := {parse_from_list(tree)}.")
    return "\n".join(out) + "\n"


def generate():
    return write_if_changed(os.path.join(COQ, "Gen", "Src_network.v"), text())


if __name__ == "__main__":
    print(text())
