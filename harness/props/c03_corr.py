"""C03 — correspondence of the Gallina XSD validator (Model/XsdCheck.v on the generated Gen/Xsd2020a.v) with
lxml's XMLSchema built from the shipped XSD:
  V: whole documents — the files the real writer produces AND deliberately perturbed variants of them (delete a
     child, swap children, exponent-notation number, bad enumeration value, duplicate id, dangling ref, extra
     attribute, foreign child, stray text, ...): validates xsd2020a doc = lxml's verdict;
  S: single leaf texts against every simple type of the schema (lexical spaces and facets): simple_accepts =
     lxml's verdict on a one-element document typed with that simple type (a mini-schema made of the shipped
     schema's simple types).
A disagreement in either direction is a correspondence break (of the translator, the validator or the harness)."""
import copy
import random

from lxml import etree

from props import codec_run, c03_xsd
from props.codec_gen import XSD_PATH, XS
from vlib.core import qstr

IMPORTS = ("From Coq Require Import QArith ZArith String List Bool NArith.\nImport ListNotations.\n"
           "From CR Require Import Model.Codec Model.XsdCheck Gen.XmlFmt Gen.Xsd2020a Corr.C03.\nOpen Scope string_scope.\n"
           "Open Scope list_scope.\n")

KINDS = ["delete_child", "swap_children", "exponent", "bad_enum", "dup_id", "dangling_ref", "extra_attr",
         "foreign_child", "stray_text", "number_text", "dup_child", "drop_attr", "int_text", "bool_text",
         "move_child", "pad_ws", "empty_leaf", "date_text", "all_reorder", "ref_text"]


# ------------------------------------------------------------------------------------------ lxml -> xtree term
def xterm(el):
    text = el.text or ""
    kids = []
    for ch in el:
        text += ch.tail or ""
        if isinstance(ch.tag, str):
            kids.append(xterm(ch))
    attrs = "[" + "; ".join(f"({qstr(k)}, {qstr(v)})" for k, v in el.attrib.items()) + "]"
    return f"(XE {qstr(el.tag)} {attrs} [" + "; ".join(kids) + f"] {qstr(text)})"


def expressible_in_coq(root):
    """documents the term printer cannot carry faithfully are skipped (none are generated): namespaces,
    non-ASCII control characters"""
    for el in root.iter():
        if not isinstance(el.tag, str):
            continue
        if el.tag.startswith("{") or any(k.startswith("{") for k in el.attrib):
            return False
    return True


# ------------------------------------------------------------------------------------------ perturbations
def _elements(root):
    return [e for e in root.iter() if isinstance(e.tag, str)]


def _leaves(root):
    return [e for e in _elements(root) if len(e) == 0 and e.text is not None and e.text.strip() != ""]


def _is_num(t):
    try:
        float(t)
        return any(ch.isdigit() for ch in t)
    except ValueError:
        return False


NUM_TEXTS = ["1e-05", "1E5", "2.5e+3", "nan", "NaN", "inf", "INF", "-INF", "1,5", "", " ", "1.", ".5", "+1.5", "-.5", ".",
             "+", "-", "1.2.3", "0x10", " 1.5 ", "\n2.25\t", "1 5", "--1", "+-1", "0", "0.0", "-0.0", "-1.5", "0.0000",
             "00012.500", "1e", "e5", "12345678901234567890.123456789", "-0", "1_000", "٣"]
INT_TEXTS = ["0", "-0", "+0", "1", "+1", "-1", "007", "1.0", "1.", "", " 3 ", "3 4", "1e3", "99999999999999999999", "abc",
             "+", "-", "--2", "+-2", "0x1", "2,000", "\t5\n"]
BOOL_TEXTS = ["true", "false", "1", "0", "True", "FALSE", "yes", "", " true ", "2", "t", "truefalse", "01"]
DATE_TEXTS = ["2020-01-31", "2020-02-30", "2020-02-29", "2021-02-29", "1900-02-29", "2000-02-29", "2020-13-01",
              "2020-00-10", "2020-1-1", "20-01-01", "01-10-2026", "2020-01-01Z", "2020-01-01+02:00", "2020-01-01-14:00",
              "2020-01-01+14:01", "2020-01-01+15:00", "-2020-01-01", "0000-01-01", "12020-01-01", "02020-01-01", "",
              " 2020-06-30 ", "2020-06-31", "2020-06-30T00:00:00", "2020/06/30", "2020-01-01z", "2020-01-01+2:00"]
TIME_TEXTS = ["12:30:00", "00:00:00", "23:59:59", "24:00:00", "24:00:01", "25:00:00", "12:60:00", "12:30:60", "12:30",
              "1:30:00", "12:30:00.5", "12:30:00.", "12:30:00Z", "12:30:00+01:00", "12:30:00-14:00", "12:30:00+14:30", "",
              " 08:15:00 ", "noon", "12-30-00", "24:00:00.000", "24:00:00.001"]
STR_TEXTS = ["", " ", "bogus", "Urban", "urban ", " urban", "unknown", "2020a", "2020A", "car", "red", "all", "same",
             "solid", "day", "sunny", "wet", "101", "274", "static", "building"]


def mutate(root, kind, rng):
    """perturb a copy of the document in place; returns a short description or None when not applicable"""
    els = _elements(root)
    if kind == "delete_child":
        cands = [e for e in els if e is not root]
        if not cands:
            return None
        e = rng.choice(cands)
        tag = e.tag
        par = e.getparent()
        prev = e.getprevious()
        if e.tail and e.tail.strip():
            return None
        par.remove(e)
        return f"deleted <{tag}> from <{par.tag}>"
    if kind == "swap_children":
        cands = []
        for e in els:
            ch = [c for c in e if isinstance(c.tag, str)]
            cands += [(e, i) for i in range(len(ch) - 1) if ch[i].tag != ch[i + 1].tag]
        if not cands:
            return None
        e, i = rng.choice(cands)
        ch = [c for c in e if isinstance(c.tag, str)]
        a, b = ch[i], ch[i + 1]
        ia = list(e).index(a)
        e.remove(b)
        e.insert(ia, b)
        return f"swapped <{a.tag}> and <{b.tag}> inside <{e.tag}>"
    if kind == "move_child":
        cands = [e for e in els if len([c for c in e if isinstance(c.tag, str)]) >= 2]
        if not cands:
            return None
        e = rng.choice(cands)
        ch = [c for c in e if isinstance(c.tag, str)]
        c = rng.choice(ch)
        e.remove(c)
        e.insert(rng.randrange(len(e) + 1), c)
        return f"moved <{c.tag}> inside <{e.tag}>"
    if kind == "all_reorder":
        cands = [e for e in els if e.tag in ("state", "initialState", "goalState", "signalState", "initialSignalState",
                                             "scenarioTags") and len(e) >= 2]
        if not cands:
            return None
        e = rng.choice(cands)
        ch = list(e)
        for c in ch:
            e.remove(c)
        rng.shuffle(ch)
        for c in ch:
            e.append(c)
        return f"shuffled the children of <{e.tag}>"
    if kind in ("exponent", "number_text", "empty_leaf", "pad_ws"):
        cands = [e for e in _leaves(root) if _is_num(e.text)]
        attr_c = [(e, k) for e in els for k, v in e.attrib.items() if _is_num(v)]
        if not cands:
            return None
        if kind == "exponent":
            e = rng.choice(cands)
            old = e.text
            e.text = "%e" % float(old) if rng.random() < 0.7 else repr(float(old) * 1e-7 + 1e-9)
            return f"<{e.tag}>{old} -> {e.text}"
        if kind == "empty_leaf":
            e = rng.choice(_leaves(root))
            old = e.text
            e.text = rng.choice([None, "", " "])
            return f"<{e.tag}>{old} -> {e.text!r}"
        if kind == "pad_ws":
            e = rng.choice(_leaves(root))
            old = e.text
            e.text = rng.choice([" ", "\n", "\t", "  "]) + old + rng.choice(["", " ", "\n  "])
            return f"<{e.tag}> padded with blanks"
        if attr_c and rng.random() < 0.15:
            e, k = rng.choice(attr_c)
            old = e.get(k)
            e.set(k, rng.choice(NUM_TEXTS + INT_TEXTS))
            return f"<{e.tag} {k}={old!r} -> {e.get(k)!r}>"
        e = rng.choice(cands)
        old = e.text
        e.text = rng.choice(NUM_TEXTS)
        return f"<{e.tag}>{old} -> {e.text!r}"
    if kind == "int_text":
        cands = [e for e in _leaves(root) if e.text.strip().lstrip("-").isdigit()]
        if not cands:
            return None
        e = rng.choice(cands)
        old = e.text
        e.text = rng.choice(INT_TEXTS)
        return f"<{e.tag}>{old} -> {e.text!r}"
    if kind == "bool_text":
        cands = [e for e in _leaves(root) if e.text in ("true", "false")]
        if not cands:
            return None
        e = rng.choice(cands)
        old = e.text
        e.text = rng.choice(BOOL_TEXTS)
        return f"<{e.tag}>{old} -> {e.text!r}"
    if kind == "bad_enum":
        cands = [e for e in _leaves(root) if not _is_num(e.text) and e.text not in ("true", "false")]
        attr_c = [(e, k) for e in els for k, v in e.attrib.items() if k in ("drivingDir", "commonRoadVersion")]
        if attr_c and (not cands or rng.random() < 0.15):
            e, k = rng.choice(attr_c)
            old = e.get(k)
            e.set(k, rng.choice(STR_TEXTS))
            return f"<{e.tag} {k}={old!r} -> {e.get(k)!r}>"
        if not cands:
            return None
        e = rng.choice(cands)
        old = e.text
        e.text = rng.choice(STR_TEXTS + TIME_TEXTS[:6])
        return f"<{e.tag}>{old} -> {e.text!r}"
    if kind == "date_text":
        old = root.get("date")
        root.set("date", rng.choice(DATE_TEXTS))
        return f"date {old!r} -> {root.get('date')!r}"
    if kind == "dup_id":
        cands = [e for e in els if e.get("id") is not None]
        if len(cands) < 2:
            return None
        a, b = rng.sample(cands, 2)
        old = a.get("id")
        a.set("id", rng.choice([b.get("id"), b.get("id"), "0" + b.get("id"), " " + b.get("id"), "+" + b.get("id")]))
        return f"<{a.tag} id={old}> now id={a.get('id')!r} like <{b.tag}>"
    if kind in ("dangling_ref", "ref_text"):
        cands = [e for e in els if e.get("ref") is not None]
        if not cands:
            return None
        e = rng.choice(cands)
        old = e.get("ref")
        if kind == "dangling_ref":
            ids = {x.get("id") for x in els if x.get("id") is not None}
            new = str(rng.choice([987654, 0, -1] + [int(i) + 1000 for i in list(ids)[:3] if i.isdigit()]))
        else:
            new = rng.choice(["0" + old, "+" + old, " " + old + " ", old + ".0", "", "x", "-" + old])
        e.set("ref", new)
        return f"<{e.tag} ref={old}> -> ref={new!r}"
    if kind == "extra_attr":
        e = rng.choice(els)
        name = rng.choice(["foo", "id", "ref", "date", "drivingDir", "virtual"])
        if name in e.attrib:
            return None
        e.set(name, rng.choice(["1", "x", "same", "12345"]))
        return f"added {name}={e.get(name)!r} to <{e.tag}>"
    if kind == "drop_attr":
        cands = [(e, k) for e in els for k in e.attrib]
        if not cands:
            return None
        e, k = rng.choice(cands)
        del e.attrib[k]
        return f"dropped {k} of <{e.tag}>"
    if kind == "foreign_child":
        e = rng.choice(els)
        new = etree.Element(rng.choice(["bogus", "point", "x", "lanelet", "exact", "time", "shape"]))
        if rng.random() < 0.5:
            new.text = rng.choice(["1.0", "1", "urban"])
        e.insert(rng.randrange(len(e) + 1), new)
        return f"inserted <{new.tag}> into <{e.tag}>"
    if kind == "dup_child":
        cands = [e for e in els if e is not root]
        e = rng.choice(cands)
        par = e.getparent()
        dup = copy.deepcopy(e)
        if dup.get("id") is not None and rng.random() < 0.7:  # keep the key constraint out of the way
            ids = [int(x.get("id")) for x in els if (x.get("id") or "").isdigit()]
            dup.set("id", str(max(ids) + 1))
        par.insert(list(par).index(e) + 1, dup)
        return f"duplicated <{e.tag}> inside <{par.tag}>"
    if kind == "stray_text":
        cands = [e for e in els if len(e) > 0]
        e = rng.choice(cands)
        if rng.random() < 0.5:
            e.text = (e.text or "") + rng.choice(["x", "1.0", " . "])
        else:
            c = rng.choice(list(e))
            c.tail = (c.tail or "") + rng.choice(["x", "0", "text"])
        return f"character data inside <{e.tag}>"
    raise ValueError(kind)


def variant(data, kind, mseed):
    """(lxml root of the perturbed document, description) or (None, None)"""
    root = etree.fromstring(data)
    rng = random.Random(mseed)
    what = mutate(root, kind, rng)
    if what is None:
        return None, None
    # re-parse from bytes: the verdict is about the document as a file
    return etree.fromstring(etree.tostring(root)), what


def written_bytes(case):
    """the file the real writer produces for a generated scenario (None if the writer raises)"""
    import os
    import tempfile
    sc, pps, meta = codec_run.build(case)
    d = tempfile.mkdtemp(prefix="verif-c03-", dir="/var/tmp")
    path = os.path.join(d, "f.xml")
    try:
        try:
            codec_run.write(case, sc, pps, meta, path)
        except Exception:  # noqa  (judged by the oracle, not here)
            return None
        return open(path, "rb").read()
    finally:
        for f in os.listdir(d):
            os.remove(os.path.join(d, f))
        os.rmdir(d)


def doc_cases(ctx, cases, n_docs, n_var):
    """relation V.  For each of the first n_docs cases: the written document + n_var perturbed variants"""
    terms, use = [], []
    stats = {"documents": 0, "variants": 0, "lxml valid": 0, "lxml invalid": 0}
    by_kind = {}
    for c in cases[:n_docs]:
        data = written_bytes(c)
        if data is None:
            continue
        root = etree.fromstring(data)
        if not expressible_in_coq(root):
            continue
        ok = bool(codec_run.schema().validate(root))
        terms.append(f"CaseV {'true' if ok else 'false'} {xterm(root)}")
        use.append({"op": "xsdv", "base": c, "mut": None, "lxml": ok})
        stats["documents"] += 1
        stats["lxml valid" if ok else "lxml invalid"] += 1
        size = sum(1 for _ in root.iter())
        nv = n_var if size <= 450 else max(2, n_var // 3)   # big documents: fewer variants (term size)
        kinds = ctx.rng.sample(KINDS, min(nv, len(KINDS)))
        for kind in kinds:
            mseed = ctx.rng.randrange(1 << 30)
            v, what = variant(data, kind, mseed)
            if v is None or not expressible_in_coq(v):
                continue
            vok = bool(codec_run.schema().validate(v))
            terms.append(f"CaseV {'true' if vok else 'false'} {xterm(v)}")
            use.append({"op": "xsdv", "base": c, "mut": [kind, mseed], "what": what, "lxml": vok})
            stats["variants"] += 1
            stats["lxml valid" if vok else "lxml invalid"] += 1
            k = by_kind.setdefault(kind, [0, 0])
            k[0 if vok else 1] += 1
    bad, errors = ctx.coq_bad_indices("xsdv", IMPORTS, "", terms, "check", shard=8)
    for e in errors:
        ctx.corr_break("Corr.C03.check V (coqc failed)", e)
    for i in bad:
        ctx.corr_break("Corr.C03 V: validates xsd2020a doc = lxml verdict" +
                       (f" (lxml: {'valid' if use[i]['lxml'] else 'invalid'})"), use[i])
    stats["by kind [valid, invalid]"] = by_kind
    stats["disagree"] = len(bad)
    ctx.coverage["validator_vs_lxml_documents"] = stats
    ctx.log(f"corr V docs={stats['documents']} variants={stats['variants']} valid={stats['lxml valid']} "
            f"invalid={stats['lxml invalid']} disagree={len(bad)} coq_errors={len(errors)}")


# ------------------------------------------------------------------------------------------ relation S
_MINI = None


def mini_schema():
    """an lxml schema with one global element v<i> per simple type of the shipped schema (named, anonymous and the
    built-ins it uses); the simple type definitions are copied verbatim from the shipped file"""
    global _MINI
    if _MINI is not None:
        return _MINI
    nf = c03_xsd.normal_form()
    src = etree.parse(XSD_PATH).getroot()
    out = etree.Element(XS + "schema", nsmap={"xs": XS[1:-1]})
    named = {st.get("name"): st for st in src.findall(XS + "simpleType")}
    anon = {}
    for el in src.iter(XS + "element", XS + "attribute"):
        for st in el.findall(XS + "simpleType"):
            anon[el.get("name")] = st
    for n, st in named.items():
        out.append(copy.deepcopy(st))
    names = {}
    for i, name in enumerate(nf["simple"]):
        el = etree.SubElement(out, XS + "element", name=f"v{i}")
        if name in named or name.startswith("xs:"):
            el.set("type", name)
        else:
            key = name.split("/")[-1].lstrip("@")
            if key not in anon:
                raise ValueError(f"anonymous simple type {name} not found again")
            el.append(copy.deepcopy(anon[key]))
        names[name] = f"v{i}"
    _MINI = (etree.XMLSchema(etree.fromstring(etree.tostring(out))), names)
    return _MINI


def leaf_cases(ctx, n):
    schema, names = mini_schema()
    nf = c03_xsd.normal_form()
    rng = ctx.rng
    pool = NUM_TEXTS + INT_TEXTS + BOOL_TEXTS + DATE_TEXTS + TIME_TEXTS + STR_TEXTS
    terms, use = [], []
    tnames = list(names)
    stats = {"accepted": 0, "rejected": 0}
    for _ in range(n):
        ty = rng.choice(tnames)
        st = nf["simple"][ty]
        k = rng.random()
        if k < 0.35:
            text = rng.choice(pool)
        elif k < 0.5 and st["enum"]:
            text = rng.choice(st["enum"]) + rng.choice(["", "", "", " ", "x"])
        elif k < 0.75:
            x = rng.uniform(-1, 1) * 10.0 ** rng.randint(-8, 8)
            text = rng.choice([repr(x), "%.6f" % x, "%e" % x, str(int(x)), "%+.3f" % x, " %r " % x, "%d" % round(x)])
        elif k < 0.85:
            text = "%04d-%02d-%02d" % (rng.choice([1, 1999, 2000, 2024, 2026, 2100]), rng.randint(0, 13), rng.randint(0, 32)) \
                + rng.choice(["", "", "Z", "+05:30", "-15:00"])
        elif k < 0.95:
            text = "%02d:%02d:%02d" % (rng.randint(0, 25), rng.randint(0, 61), rng.randint(0, 61)) + \
                rng.choice(["", "", ".25", "Z", "+01:00"])
        else:
            text = "".join(rng.choice("0123456789+-. eE\t") for _ in range(rng.randint(0, 7)))
        if any(ord(ch) < 32 and ch not in "\t\n" for ch in text) or "\r" in text:
            continue
        el = etree.Element(names[ty])
        el.text = text
        ok = bool(schema.validate(etree.fromstring(etree.tostring(el))))
        terms.append(f"CaseS {qstr(ty)} {qstr(text)} {'true' if ok else 'false'}")
        use.append({"op": "xsds", "type": ty, "text": text, "lxml": ok})
        stats["accepted" if ok else "rejected"] += 1
    bad, errors = ctx.coq_bad_indices("xsds", IMPORTS, "", terms, "check", shard=400)
    for e in errors:
        ctx.corr_break("Corr.C03.check S (coqc failed)", e)
    for i in bad:
        ctx.corr_break("Corr.C03 S: simple_accepts xsd2020a type text = lxml verdict", use[i])
    stats["disagree"] = len(bad)
    ctx.coverage["validator_vs_lxml_leaf_texts"] = stats
    ctx.log(f"corr S leaf texts={len(terms)} accepted={stats['accepted']} rejected={stats['rejected']} "
            f"disagree={len(bad)} coq_errors={len(errors)}")


# ------------------------------------------------------------------------------------------ relation E
def expr_cases(ctx, cases, n):
    """the value the format table extracts from a generated scenario satisfies `expressible` (the hypothesis of
    C03_xml_valid_structure_partial) whenever lxml accepts the written file"""
    from props import xmlfmt
    terms, use = [], []
    for c in cases[:n]:
        r = codec_run.cached_roundtrip(c)
        if r["stage"] == "write" or r["valid"] is not True:
            continue
        sc, pps, meta = codec_run.build(c)
        v = xmlfmt.extract(xmlfmt.ROOT, xmlfmt.Doc(sc, pps, meta))
        terms.append(f"CaseE {xmlfmt.coq_val(v)}")
        use.append(c)
    bad, errors = ctx.coq_bad_indices("xsde", IMPORTS, "", terms, "check", shard=8)
    for e in errors:
        ctx.corr_break("Corr.C03.check E (coqc failed)", e)
    for i in bad:
        ctx.corr_break("Corr.C03 E: generated value (valid for lxml) is `expressible`", use[i])
    ctx.coverage["expressible_values"] = {"cases": len(terms), "not expressible": len(bad)}
    ctx.log(f"corr E values={len(terms)} not_expressible={len(bad)} coq_errors={len(errors)}")
