"""Generator of schema-expressible scenarios + planning-problem sets for the codec properties
(C01 XML round trip, C02 protobuf round trip, C03 XSD validity).  Everything is derived from one
integer seed, so a case is replayed from (seed, fmt, precision, edge)."""
import math
import os
import random

import numpy as np
from lxml import etree

import commonroad
from commonroad.common.util import AngleInterval, Interval, Time
from commonroad.geometry.shape import Circle, Polygon, Rectangle, ShapeGroup
from commonroad.planning.goal import GoalRegion
from commonroad.planning.planning_problem import PlanningProblem, PlanningProblemSet
from commonroad.prediction.prediction import Occupancy, SetBasedPrediction, TrajectoryPrediction
from commonroad.scenario.intersection import Intersection, IntersectionIncomingElement
from commonroad.scenario.lanelet import Lanelet, LaneletNetwork, LaneletType, LineMarking, RoadUser, StopLine
from commonroad.scenario.obstacle import (DynamicObstacle, EnvironmentObstacle, ObstacleType, PhantomObstacle,
                                          StaticObstacle)
from commonroad.scenario.scenario import (Environment, GeoTransformation, Location, Scenario, ScenarioID, Tag,
                                          TimeOfDay, Underground, Weather)
from commonroad.scenario.state import (CustomState, ExtendedPMState, InitialState, KSState, MBState, PMState, STDState,
                                       STState, SignalState)
from commonroad.scenario.traffic_light import (TrafficLight, TrafficLightCycle, TrafficLightCycleElement,
                                               TrafficLightDirection, TrafficLightState)
from commonroad.scenario.traffic_sign import (TrafficSign, TrafficSignElement, TrafficSignIDGermany,
                                              TrafficSignIDZamunda)
from commonroad.scenario.trajectory import Trajectory

XSD_PATH = os.path.join(os.path.dirname(commonroad.__file__), "scenario_definition", "xml_definition_files",
                        "XML_commonRoad_XSD.xsd")
XS = "{http://www.w3.org/2001/XMLSchema}"


def xsd_tables():
    """enumerations of the named simple types and element names of the complex types of the shipped XSD"""
    root = etree.parse(XSD_PATH).getroot()
    enums, elems = {}, {}
    for st in root.iter(XS + "simpleType"):
        if st.get("name"):
            enums[st.get("name")] = [e.get("value") for e in st.iter(XS + "enumeration")]
    for ct in root.iter(XS + "complexType"):
        if ct.get("name"):
            elems[ct.get("name")] = [e.get("name") for e in ct.iter(XS + "element")]
    # anonymous enumeration of trafficLight/direction
    for el in root.iter(XS + "element"):
        if el.get("name") == "direction":
            enums["direction"] = [e.get("value") for e in el.iter(XS + "enumeration")]
    return enums, elems


def pb_tables():
    """enum member names and State fields of the shipped protobuf definition (from the *_pb2 descriptors)"""
    import importlib
    import pkgutil
    import commonroad.scenario_definition.protobuf_format.generated_scripts as gs
    enums = {}

    def walk(m):
        for e in m.enum_types:
            enums[e.name] = [v.name for v in e.values]
        for n in m.nested_types:
            walk(n)
    for mi in pkgutil.iter_modules(gs.__path__):
        mod = importlib.import_module(gs.__name__ + "." + mi.name)
        for e in mod.DESCRIPTOR.enum_types_by_name.values():
            enums[e.name] = [v.name for v in e.values]
        for m in mod.DESCRIPTOR.message_types_by_name.values():
            walk(m)
    from commonroad.scenario_definition.protobuf_format.generated_scripts import obstacle_pb2
    return enums, [f.name for f in obstacle_pb2.State.DESCRIPTOR.fields]


_T = None
_PB = None


def PB():
    global _PB
    if _PB is None:
        _PB = pb_tables()
    return _PB



def T():
    global _T
    if _T is None:
        _T = xsd_tables()
    return _T


# attribute name -> element name of the 2020a schema, written down independently of the writer under test (the schema's
# state type: snake_case becomes camelCase; the three irregular names are the schema's own)
XSD_STATE_NAME = {"time_step": "time", "delta_y_f": "deltaYFront", "delta_y_r": "deltaYRear",
                  "curvature_rate": "curvatureChange"}


def camel(attr):
    if attr in XSD_STATE_NAME:
        return XSD_STATE_NAME[attr]
    head, *rest = attr.split("_")
    return head + "".join(w[:1].upper() + w[1:] for w in rest)


def may_open_ring(seed):
    """scenarios of these seeds may contain polygons whose ring was left open by the vertices setter"""
    return int(seed) % 3 == 0


SIGN_ENUM_OF_COUNTRY = {"DEU": "TrafficSignIDGermany", "ZAM": "TrafficSignIDZamunda", "USA": "TrafficSignIDUsa",
                        "CHN": "TrafficSignIDChina", "ESP": "TrafficSignIDSpain", "RUS": "TrafficSignIDRussia",
                        "ARG": "TrafficSignIDArgentina", "BEL": "TrafficSignIDBelgium", "FRA": "TrafficSignIDFrance",
                        "GRC": "TrafficSignIDGreece", "HRV": "TrafficSignIDCroatia", "ITA": "TrafficSignIDItaly",
                        "PRI": "TrafficSignIDPuertoRico", "AUS": "TrafficSignIDAustralia"}


class Gen:
    def __init__(self, seed, fmt="xml", edge=False):
        self.rng = random.Random(seed)
        self.seed = seed
        self.fmt = fmt
        self.edge = edge
        self.enums, self.elems = T()
        self.nid = 1000

    # ---------------------------------------------------------------- numbers
    def f(self, lo, hi, nd=None):
        r = self.rng
        x = r.uniform(lo, hi)
        if self.edge and r.random() < 0.25:
            x = r.choice([1e-6, -1e-6, 1e-5, 3e-5, 1e5 + 0.123456789, -1e5, 12345.678901234, 5e-7, 0.1 + 0.2, 1e-7,
                          2.0 ** -20, 123456.7, 1e-4 / 3]) * r.choice([1, 1, -1])
            if x < lo or x > hi:
                x = r.uniform(lo, hi)
        if nd is None:
            nd = r.choice([1, 3, 6, 9, None])
        return float(x) if nd is None else round(float(x), nd)

    def pos_f(self, lo, hi):
        x = abs(self.f(lo, hi))
        if self.edge and self.rng.random() < 0.2:
            x = self.rng.choice([1e-5, 3e-5, 1e-4 / 3, 7e-6, 123456.789])
        return x if x > 0 else 1.0

    def enum_in(self, cls, xsd_name, exclude=()):
        allowed = set(self.enums[xsd_name])
        ms = [m for m in cls if m.value in allowed and m not in exclude]
        if self.fmt == "pb":
            names = set(PB()[0].get(cls.__name__, [m.name for m in cls]))
            ms = [m for m in ms if m.name in names]
        return self.rng.choice(ms)

    # ---------------------------------------------------------------- shapes
    def shape(self, kinds=("rect", "circ", "poly", "group"), centred=False, one_kind=False):
        r = self.rng
        k = r.choice(kinds)
        c = np.array([0.0, 0.0]) if centred else np.array([self.f(-50, 50), self.f(-50, 50)])
        if k == "rect":
            o = 0.0 if centred else self.f(-3.1, 3.1)
            return Rectangle(self.pos_f(0.5, 6), self.pos_f(0.5, 3), c, o)
        if k == "circ":
            return Circle(self.pos_f(0.3, 3), c)
        if k == "poly":
            n = r.randint(3, 6)
            angs = sorted(r.uniform(0, 2 * math.pi) for _ in range(n))
            while min((angs[(i + 1) % n] - angs[i]) % (2 * math.pi) for i in range(n)) < 0.3:
                angs = sorted(r.uniform(0, 2 * math.pi) for _ in range(n))
            rad = [r.uniform(1.0, 3.0) for _ in range(n)]
            poly = Polygon(np.array([[round(c[0] + ri * math.cos(a), 5), round(c[1] + ri * math.sin(a), 5)]
                                     for ri, a in zip(rad, angs)]))
            if r.random() < 0.25 and may_open_ring(self.seed):
                # (a third of the scenarios; they are kept out of the table correspondence, whose reader side does not
                # describe that the Polygon constructor closes a ring the file left open)
                # re-shaped after construction through the public setter, with the ring left open (the setter stores the
                # array as given; the constructor would have closed it): the same region, the same vertices
                poly.vertices = np.array(poly.vertices[:-1], dtype=float)
            return poly
        sub = tuple(x for x in kinds if x != "group") or ("rect",)
        if one_kind:
            sub = (r.choice(sub),)
        # a one-member group is written exactly like its member, so groups have >= 2 members
        return ShapeGroup([self.shape(sub, centred) for _ in range(r.randint(2, 3))])

    # ---------------------------------------------------------------- states
    def exact_or_itv(self, lo, hi, angle=False, allow_itv=True):
        x = self.f(lo, hi)
        if allow_itv and self.rng.random() < 0.25:
            w = abs(self.f(0.01, 1.0)) + 1e-3
            if angle:
                x = max(-6.0, min(x, 5.0))
                return AngleInterval(x, x + min(w, 1.0))
            return Interval(x, x + w)
        return x

    def state_template(self):
        """(class, attribute names) of a trajectory's states: position, orientation, time + a subset of the other
        attributes the format knows, through the state classes of the library"""
        import dataclasses
        r = self.rng
        cls = r.choice([KSState, STState, STDState, MBState, ExtendedPMState, CustomState, CustomState, InitialState]
                       + ([PMState] if self.fmt == "pb" else []))
        if cls is CustomState:
            names = [n for n in ["velocity", "acceleration", "yaw_rate", "slip_angle", "steering_angle", "roll_angle",
                                 "velocity_y", "jerk", "curvature", "curvature_rate", "delta_y_f", "delta_y_r",
                                 "position_z", "left_front_wheel_angular_speed", "jounce", "pitch_rate"]
                     if camel(n) in self.elems["state"] and (self.fmt == "xml" or n in PB()[1])]
            return cls, r.sample(names, r.randint(0, 5))
        names = []
        for fld in dataclasses.fields(cls):
            if fld.name in ("time_step", "position", "orientation"):
                continue
            if self.fmt == "xml" and camel(fld.name) not in self.elems["state"]:
                continue
            if self.fmt == "pb" and fld.name not in PB()[1]:
                continue
            if cls in (KSState, STState, ExtendedPMState, PMState) or r.random() < 0.8:
                names.append(fld.name)
        return cls, names

    def state(self, t, uncertain=True, template=None):
        r = self.rng
        cls, names = template or self.state_template()
        pos = np.array([self.f(-100, 100), self.f(-100, 100)])
        if uncertain and r.random() < 0.2:
            pos = self.shape(("rect", "circ", "poly", "group"), one_kind=True)
        orient = self.exact_or_itv(-3.1, 3.1, angle=True, allow_itv=uncertain)
        kw = {n: self.exact_or_itv(-20, 20, allow_itv=uncertain) for n in names}
        if cls is PMState:
            return PMState(time_step=t, position=pos, **kw)
        return cls(time_step=t, position=pos, orientation=orient, **kw)

    def initial_state(self, t=0, full=False, uncertain=False):
        r = self.rng
        kw = {}
        for n in ["velocity", "acceleration", "yaw_rate", "slip_angle"]:
            if full and n != "acceleration" or r.random() < 0.6:
                kw[n] = self.exact_or_itv(-20, 20, allow_itv=uncertain)
        pos = np.array([self.f(-100, 100), self.f(-100, 100)])
        if uncertain and r.random() < 0.3:
            pos = self.shape(("rect", "circ", "poly"))
        return InitialState(time_step=t, position=pos,
                            orientation=self.exact_or_itv(-3.1, 3.1, angle=True, allow_itv=uncertain), **kw)

    def signal(self, t):
        r = self.rng
        # a third of the signal states come out of array code: their flags are numpy booleans
        # (XML only: the protobuf runtime refuses anything but bool / int for a bool field - the annotated type is bool)
        b = (lambda x: np.bool_(x)) if r.random() < 0.33 and self.fmt == "xml" else bool
        return SignalState(time_step=t, horn=b(r.random() < 0.5), indicator_left=b(r.random() < 0.5),
                           indicator_right=b(r.random() < 0.5), braking_lights=b(r.random() < 0.5),
                           hazard_warning_lights=b(r.random() < 0.5), flashing_blue_lights=b(r.random() < 0.5))

    # ---------------------------------------------------------------- obstacles
    def occupancies(self, t0, n):
        r = self.rng
        out = []
        t = t0
        for _ in range(n):
            if r.random() < 0.25:
                ts = Interval(t, t + r.randint(1, 3))
                t = ts.end + 1
            else:
                ts = t
                t += 1
            out.append(Occupancy(ts, self.shape(("rect", "circ", "poly", "group"))))
        return out

    def obstacle(self, oid, role):
        r = self.rng
        if role == "static":
            unc = r.random() < 0.3
            # (a shape group with an uncertain state raises ValueError in occupancy_shape_from_state: property C04)
            return StaticObstacle(oid, self.enum_in(ObstacleType, "obstacleTypeStatic"),
                                  self.shape(("rect", "circ", "poly")) if unc else self.shape(),
                                  self.initial_state(uncertain=unc),
                                  **({"signal_series": []} if self.fmt == "pb" and r.random() < 0.5 else {}))
        if role == "environment":
            return EnvironmentObstacle(oid, self.enum_in(ObstacleType, "obstacleTypeEnvironment"), self.shape())
        n = r.randint(1, 5)
        if role == "phantom":
            return PhantomObstacle(oid, SetBasedPrediction(1, self.occupancies(1, n)))
        otype = self.enum_in(ObstacleType, "obstacleTypeDynamic")
        unc0 = r.random() < 0.3
        shape = self.shape(("rect", "circ", "poly"), centred=True)
        init = self.initial_state(uncertain=unc0)
        kw = {}
        if r.random() < 0.5:
            kw["initial_signal_state"] = self.signal(0)
        if r.random() < 0.5:
            kw["signal_series"] = [self.signal(1 + i) for i in range(r.randint(1, n))]
        if r.random() < 0.3:
            pred = SetBasedPrediction(1, self.occupancies(1, n))
        else:
            unc = r.random() < 0.3
            tpl = self.state_template()
            states = [self.state(1 + i, unc, tpl) for i in range(n)]
            r4 = random.Random(self.seed ^ 0x1A7E ^ oid)
            if r4.random() < 0.3 and tpl[0] not in (CustomState, PMState):
                # a quantity that is filled in after the trajectory was put together (the heading, or one of the other
                # fields of the state class): None while the Trajectory is constructed, assigned afterwards
                attr = r4.choice(["orientation"] + list(tpl[1]))
                vals = [getattr(st, attr) for st in states]
                for st in states:
                    setattr(st, attr, None)
                traj = Trajectory(1, states)
                for st, v in zip(states, vals):
                    setattr(st, attr, v)
            else:
                traj = Trajectory(1, states)
            pred = TrajectoryPrediction(traj, shape)
        return DynamicObstacle(oid, otype, shape, init, pred, **kw)

    # ---------------------------------------------------------------- network
    def network(self):
        r = self.rng
        n_lanes, n_seg = r.randint(1, 3), r.randint(1, 3)
        width, seg_len, pts = 3.0, 10.0, r.randint(2, 4)
        kappa = r.choice([0.0, 0.01, -0.02])
        ox, oy = (self.f(-1e5, 1e5), self.f(-1e5, 1e5)) if self.edge and r.random() < 0.5 else (self.f(-50, 50), 0.0)
        total = n_seg * (pts - 1) + 1
        ref, th = [], []
        x, y, a = ox, oy, r.uniform(-3, 3)
        ds = seg_len / (pts - 1)
        for i in range(total):
            ref.append((x, y))
            th.append(a)
            x, y, a = x + ds * math.cos(a), y + ds * math.sin(a), a + kappa * ds
        ids = [[1 + s * n_lanes + l for l in range(n_lanes)] for s in range(n_seg)]
        lls = []
        for s in range(n_seg):
            idx = range(s * (pts - 1), (s + 1) * (pts - 1) + 1)
            for l in range(n_lanes):
                def off(d):
                    return np.array([[round(ref[i][0] - d * math.sin(th[i]), 6),
                                      round(ref[i][1] + d * math.cos(th[i]), 6)] for i in idx])
                right, left = off(l * width), off((l + 1) * width)
                types = {self.enum_in(LaneletType, "laneletType") for _ in range(r.randint(1, 3))}
                lls.append(Lanelet(
                    left, (left + right) / 2.0, right, ids[s][l],
                    predecessor=[ids[s - 1][l]] if s > 0 else [],
                    successor=[ids[s + 1][l]] if s + 1 < n_seg else [],
                    adjacent_left=ids[s][l + 1] if l + 1 < n_lanes else None,
                    adjacent_left_same_direction=(r.random() < 0.7) if l + 1 < n_lanes else None,
                    adjacent_right=ids[s][l - 1] if l > 0 else None,
                    adjacent_right_same_direction=(r.random() < 0.7) if l > 0 else None,
                    line_marking_left_vertices=self.enum_in(LineMarking, "lineMarking"),
                    line_marking_right_vertices=self.enum_in(LineMarking, "lineMarking"),
                    lanelet_type=types,
                    user_one_way={self.enum_in(RoadUser, "vehicleType") for _ in range(r.randint(0, 2))} or None,
                    user_bidirectional={self.enum_in(RoadUser, "vehicleType")} if r.random() < 0.3 else None))
        if r.random() < 0.3:
            # laterally adjacent lanelets hold ONE array object for their common boundary (what hand-written map code
            # and deep copies of it do): value-equal to two separate arrays
            by_id = {x.lanelet_id: x for x in lls}
            for x in lls:
                up = by_id.get(x.adj_left) if x.adj_left is not None else None
                if up is not None and up.right_vertices.shape == x.left_vertices.shape \
                        and np.array_equal(up.right_vertices, x.left_vertices):
                    up.right_vertices = x.left_vertices
        r5 = random.Random(self.seed ^ 0xAD1)
        if r5.random() < 0.25:
            # a lateral relation taken back after construction through the public setter (the direction flag has no
            # setter that accepts None and stays behind: it says nothing without a neighbour) - seed C03-15
            for x in lls:
                side = r5.choice(["left", "right"])
                if getattr(x, "adj_" + side) is not None and r5.random() < 0.5:
                    setattr(x, "adj_" + side, None)
        signs, lights, inters = [], [], []
        # the sign ids of the scenario's country, from the harness's own table (the library's table is code under test:
        # seed C01-14 corrupted one row of it)
        import commonroad.scenario.traffic_sign as _ts
        sign_ids = [m for m in getattr(_ts, SIGN_ENUM_OF_COUNTRY[self.country])
                    if m.value in set(self.enums["trafficSignID"])
                    and (self.fmt == "xml" or m.name in PB()[0].get(type(m).__name__, []))]
        # (a country none of whose ids the format can express gets no signs: ids of another country's table are not
        # signs of this scenario - the XML reader deliberately re-reads a German "274" as the country's own MAX_SPEED)
        for _ in range(r.randint(0, 3) if sign_ids else 0):
            users = r.sample(lls, r.randint(1, min(2, len(lls))))
            els = []
            for _ in range(r.randint(1, 2)):
                e = r.choice(sign_ids)
                vals = [str(r.choice([30, 50, 13.9, 7.5]))] if "MAX_SPEED" in e.name or r.random() < 0.2 else []
                els.append(TrafficSignElement(e, vals))
            firsts = {u.lanelet_id for u in users if not u.predecessor}
            if self.fmt == "pb" and r.random() < 0.35:
                # first occurrences are data of the sign; nothing obliges the lanelet named there to list the sign
                others = [x for x in lls if x not in users]
                if others:
                    firsts.add(r.choice(others).lanelet_id)
            s = TrafficSign(self.nid, els, firsts, np.array([self.f(-50, 50), self.f(-50, 50)]),
                            virtual=r.random() < 0.5)
            self.nid += 1
            signs.append(s)
            for u in users:
                u.add_traffic_sign_to_lanelet(s.traffic_sign_id)
        for _ in range(r.randint(0, 2)):
            users = r.sample(lls, r.randint(1, min(2, len(lls))))
            cyc = [TrafficLightCycleElement(self.enum_in(TrafficLightState, "trafficLightColor"), r.randint(1, 30))
                   for _ in range(r.randint(1, 4))]
            act = r.random() < 0.7
            if r.random() < 0.3 and self.fmt == "xml":
                act = np.bool_(act)
            period = sum(e.duration for e in cyc)
            t = TrafficLight(self.nid, np.array([self.f(-50, 50), self.f(-50, 50)]),
                             # offsets of a whole number of periods are offsets like any other
                             TrafficLightCycle(cyc, time_offset=r.choice([0, 0, 4, 11, period, 2 * period]), active=act),
                             active=act,
                             direction=self.enum_in(TrafficLightDirection, "direction"))
            self.nid += 1
            lights.append(t)
            for u in users:
                u.add_traffic_light_to_lanelet(t.traffic_light_id)
        for u in lls:
            if r.random() < 0.35:
                sr = {r.choice(sorted(u.traffic_signs))} if u.traffic_signs and r.random() < 0.6 else None
                lr = {r.choice(sorted(u.traffic_lights))} if u.traffic_lights and r.random() < 0.6 else None
                # a stop line may refer to a sign / light of the network that its own lanelet does not list (the sign
                # is mounted at the neighbouring lanelet): any id of the network is a valid reference
                if signs and r.random() < 0.4:
                    sr = (sr or set()) | {r.choice(signs).traffic_sign_id}
                if lights and r.random() < 0.4:
                    lr = (lr or set()) | {r.choice(lights).traffic_light_id}
                u.stop_line = StopLine(u.left_vertices[-1].copy(), u.right_vertices[-1].copy(),
                                       self.enum_in(LineMarking, "lineMarking"), sr, lr)
        if n_seg >= 2 and r.random() < 0.7:
            incs = []
            for l in range(n_lanes):
                inc_l = lls[l]
                succ = set(inc_l.successor)
                which = r.choice(["right", "straight", "left"])
                # (protobuf: ids start at 0; the first incoming element of a third of the intersections has id 0, so that a
                # `left_of` naming it is the number 0)
                inc_id = 0 if (self.fmt == "pb" and not incs and r.random() < 0.35) else self.nid
                incs.append(IntersectionIncomingElement(
                    inc_id, {inc_l.lanelet_id},
                    successors_right=succ if which == "right" else set(),
                    successors_straight=succ if which == "straight" else set(),
                    successors_left=succ if which == "left" else set(),
                    left_of=incs[-1].incoming_id if incs and r.random() < (0.8 if incs[-1].incoming_id == 0 else 0.5)
                    else None))
                self.nid += 1
            inters.append(Intersection(self.nid, incs, crossings={lls[-1].lanelet_id} if r.random() < 0.4 else set()))
            self.nid += 1
        net = LaneletNetwork()
        for s in signs:
            net.add_traffic_sign(s, set())
        for t in lights:
            net.add_traffic_light(t, set())
        for la in lls:
            net.add_lanelet(la)
        for i in inters:
            net.add_intersection(i)
        return net

    # ---------------------------------------------------------------- planning problems
    def goal_state(self):
        r = self.rng
        a = r.randint(0, 20)
        kw = {"time_step": Interval(a, a + r.randint(1, 30))}
        pos_kind = r.choice(["shape", "lanelet", "none"])
        if pos_kind == "shape":
            kw["position"] = self.shape(("rect", "circ", "poly", "group"), one_kind=True)
        if r.random() < 0.6:
            x = self.f(-3, 2)
            kw["orientation"] = AngleInterval(x, x + abs(self.f(0.05, 1.0)) + 1e-3)
            if r.random() < 0.15:
                # "any heading": almost the full circle, ends within the last written digit of +-pi / of -2pi
                kw["orientation"] = r.choice([AngleInterval(-3.14159, 3.14159), AngleInterval(-3.1415926, 3.1415926),
                                              AngleInterval(-6.28318, -0.00001), AngleInterval(0.00001, 6.28318)])
        if r.random() < 0.6:
            v = self.f(0, 30)
            kw["velocity"] = Interval(v, v + abs(self.f(0.5, 5)) + 1e-3)
        return CustomState(**kw), pos_kind

    def problems(self, net):
        r = self.rng
        lanelet_ids = [la.lanelet_id for la in net.lanelets]
        pps = []
        for i in range(r.randint(1, 2)):
            goals, log = [], {}
            for j in range(r.randint(1, 3)):
                st, kind = self.goal_state()
                goals.append(st)
                if kind == "lanelet":
                    # the library's convention for lanelet goals: the position holds the lanelet polygons and
                    # lanelets_of_goal_position names the lanelets (this is what the readers build)
                    log[j] = r.sample(lanelet_ids, r.randint(1, min(2, len(lanelet_ids))))
                    st.position = ShapeGroup([net.find_lanelet_by_id(i).polygon for i in log[j]])
            init = self.initial_state(full=True)
            pps.append(PlanningProblem(2000 + i, init, GoalRegion(goals, log or None)))
        return PlanningProblemSet(pps)

    # ---------------------------------------------------------------- meta
    def location(self):
        r = self.rng
        if r.random() < 0.25:
            return None
        geo = env = None
        if r.random() < 0.5:
            geo = GeoTransformation("+proj=utm +zone=32 +ellps=WGS84", self.f(-1000, 1000), self.f(-1000, 1000),
                                    self.f(-3, 3), self.pos_f(0.5, 2))
            k = r.random()
            if k < 0.2:      # the constructor's defaults: no additional transformation (0, 0, 0, 1)
                geo = GeoTransformation("+proj=utm +zone=32 +ellps=WGS84")
            elif k < 0.35:   # ... or the same values as the reader produces them
                geo = GeoTransformation("+proj=utm +zone=32 +ellps=WGS84", 0.0, 0.0, 0.0, 1.0)
        if r.random() < 0.5:
            env = Environment(Time(r.randint(0, 23), r.randint(0, 59)),
                              # "unknown" is a value of timeOfDay in the schema (not of weather / underground)
                              self.enum_in(TimeOfDay, "timeOfDay", exclude=() if r.random() < 0.3 else (TimeOfDay.UNKNOWN,)),
                              self.enum_in(Weather, "weather", exclude=(Weather.UNKNOWN,)),
                              self.enum_in(Underground, "underground", exclude=(Underground.UNKNOWN,)))
            r3 = random.Random(self.seed ^ 0xE7)
            if self.fmt == "pb" and r3.random() < 0.4:
                # protobuf: an environment some of whose entries are absent (None given explicitly; optional fields of
                # the message) - absent data stays absent (seed C02-14: the reader's defaults)
                for a in r3.sample(["time_of_day", "weather", "underground", "time"], r3.randint(1, 3)):
                    setattr(env, a, None)
        return Location(r.randint(1, 9999999), self.f(-90, 90), self.f(-180, 180), geo, env)

    def build(self):
        r = self.rng
        self.country = r.choice(["ZAM", "DEU", "USA", "ESP", "ZAM"])
        r2 = random.Random(self.seed ^ 0xC0)
        if r2.random() < 0.3:      # the ten other supported countries (no draw from the main stream)
            self.country = r2.choice(["CHN", "ITA", "PRI", "PRI", "AUS", "AUS", "RUS", "ARG", "BEL", "FRA", "GRC", "HRV"])
        net = self.network()
        dt = r.choice([0.1, 0.04, 0.2, 1.0, 0.05]) if not self.edge else r.choice([0.1, 1e-5, 0.00025, 2.0])
        sid = ScenarioID(r.random() < 0.2, self.country, r.choice(["Test", "Urban", "A9"]),
                         r.randint(1, 9), r.randint(1, 9), r.choice(["T", "S", "P", "I"]), r.randint(1, 5))
        sc = Scenario(dt, sid)
        sc.add_objects(net)
        oid = 3000
        for role in r.choices(["static", "dynamic", "dynamic", "phantom", "environment"], k=r.randint(0, 5)):
            sc.add_objects(self.obstacle(oid, role))
            oid += 1
        pps = self.problems(net)
        tag_names = {el for el in self.elems["tag"]}
        tags = {t for t in Tag if t.value in tag_names}
        meta = {"author": r.choice(["Jane Doe", "A. Author, B. Other", ""]),
                "affiliation": r.choice(["TUM", "Some University <lab>", ""]),
                "source": r.choice(["synthetic", "NGSIM & more", ""]),
                "tags": set(r.sample(sorted(tags, key=lambda t: t.name), r.randint(0, 4))),
                "location": self.location()}
        return sc, pps, meta
