"""C09 source tie for the adding side: Scenario.add_objects and Scenario._lanelet_network_object_ids
(commonroad/scenario/scenario.py) are parsed on every run into the statement language of coq/Model/IdAddSrc.v and written
to coq/Gen/Src_idadd.v; Proofs/SrcIdAdd.v proves the parsed program to compute add_one / its list form of
Model/IdPool.v on every argument and state.

Fail-closed (SourceShapeError = a broken obligation); add_objects is first brought into the normal form of
vlib/astnorm.py.  Parameter, loop variable and accumulator names are free.

Trusted: this parser and the reading of the accepted shapes (the nine argument classes are pairwise unrelated by
inheritance, so the order of the isinstance branches does not matter for objects of exactly these classes; a dict
assignment d[k] = v is dset; LaneletNetwork.add_K = net_add_K of Model/IdPool.v (correspondence); lanelet_ids None is the
empty list of the model; the lanelet registries are C07's subject)."""
import ast
import hashlib
import os

from vlib.core import COQ, REPO
from vlib.py2coq import write_if_changed
from vlib import astnorm as N

FILE = os.path.join("commonroad", "scenario", "scenario.py")


class SourceShapeError(Exception):
    pass


def bad(node, why):
    raise SourceShapeError(f"scenario.py:{getattr(node, 'lineno', '?')}: {why}: {ast.unparse(node)[:150]}")


u = ast.unparse
KEEP = ("add_objects", "_mark_object_id_as_used", "_mark_object_ids_as_used", "_lanelet_network_object_ids",
        "_add_static_obstacle_to_lanelets", "_add_dynamic_obstacle_to_lanelets")
CLASSES = {"StaticObstacle": ("CStatic", "obstacle_id"), "DynamicObstacle": ("CDynamic", "obstacle_id"),
           "EnvironmentObstacle": ("CEnv", "obstacle_id"), "PhantomObstacle": ("CPhantom", "obstacle_id"),
           "LaneletNetwork": ("CNet", None), "Lanelet": ("CLanelet", "lanelet_id"), "TrafficSign": ("CSign", "traffic_sign_id"),
           "TrafficLight": ("CLight", "traffic_light_id"), "Intersection": ("CInter", "intersection_id")}
ROLES = {"_static_obstacles": "Static", "_dynamic_obstacles": "Dynamic", "_environment_obstacle": "Env",
         "_phantom_obstacle": "Phantom"}
NETADD = {"add_lanelet": ("KLanelet", False), "add_traffic_sign": ("KSign", True), "add_traffic_light": ("KLight", True),
          "add_intersection": ("KInter", False)}


def lst(xs):
    return "[" + "; ".join(xs) + "]"


def body_of(fn):
    return [s for s in fn.body if not (isinstance(s, ast.Expr) and isinstance(s.value, ast.Constant)
                                       and isinstance(s.value.value, str)) and not isinstance(s, ast.Assert)]


def find_method(tree, name):
    for c in tree.body:
        if isinstance(c, ast.ClassDef) and c.name == "Scenario":
            hits = [f for f in c.body if isinstance(f, ast.FunctionDef) and f.name == name]
            if len(hits) == 1:
                return c, hits[0]
    raise SourceShapeError(f"Scenario.{name} not found (or defined twice)")


def branch_stmts(stmts, self_, o, lids, idattr):
    out = []
    i = 0
    while i < len(stmts):
        s = stmts[i]
        t = u(s)
        if idattr and t == f"{self_}._mark_object_id_as_used({o}.{idattr})":
            out.append("AMark")
        elif t == f"{self_}._mark_object_ids_as_used({self_}._lanelet_network_object_ids({o}))":
            out.append("AMarkNet")
        elif t == f"{self_}._mark_object_ids_as_used([{o}.intersection_id] + [inc.incoming_id for inc in {o}.incomings])":
            out.append("AMarkInter")
        elif isinstance(s, ast.Assign) and isinstance(s.targets[0], ast.Name) and u(s.value) == "[]" and i + 2 < len(stmts) \
                and isinstance(stmts[i + 1], ast.For) and isinstance(stmts[i + 1].target, ast.Name) \
                and u(stmts[i + 1].iter) == f"{o}.incomings" and len(stmts[i + 1].body) == 1 and not stmts[i + 1].orelse \
                and u(stmts[i + 1].body[0]) == f"{s.targets[0].id}.append({stmts[i + 1].target.id}.incoming_id)" \
                and u(stmts[i + 2]) == f"{self_}._mark_object_ids_as_used([{o}.intersection_id] + {s.targets[0].id})":
            out.append("AMarkInter")              # the comprehension as astnorm unfolds it
            i += 2
        elif isinstance(s, ast.Assign) and len(s.targets) == 1 and u(s.value) == o \
                and any(u(s.targets[0]) == f"{self_}.{d}[{o}.obstacle_id]" for d in ROLES):
            d = [d for d in ROLES if u(s.targets[0]) == f"{self_}.{d}[{o}.obstacle_id]"][0]
            out.append(f"AStore {ROLES[d]}")
        elif isinstance(s, ast.Expr) and isinstance(s.value, ast.Call) and isinstance(s.value.func, ast.Attribute) \
                and u(s.value.func.value) in (f"{self_}._lanelet_network", f"{self_}.lanelet_network") \
                and s.value.func.attr in NETADD:
            k, takes = NETADD[s.value.func.attr]
            want = [o, lids] if takes else [o]
            if [u(a) for a in s.value.args] != want or s.value.keywords:
                bad(s, "arguments of the network add method")
            out.append(f"ANetAdd {k}")
        elif isinstance(s, ast.For) and not s.orelse and isinstance(s.target, ast.Name) and len(s.body) == 1 \
                and u(s.iter) == f"{self_}._lanelet_network_object_ids({self_}._lanelet_network)" \
                and u(s.body[0]) == f"{self_}._id_set.discard({s.target.id})":
            out.append("AReleaseOld")
        elif isinstance(s, (ast.Assign, ast.AnnAssign)) and u(s.value) == o \
                and u(s.targets[0] if isinstance(s, ast.Assign) else s.target) == f"{self_}._lanelet_network":
            out.append("ASetNet")
        elif t == f"{lids} = set() if {lids} is None else {lids}":
            out.append("ADefaultLids")
        elif t in (f"{self_}._add_static_obstacle_to_lanelets({o}.obstacle_id, {o}.initial_shape_lanelet_ids)",
                   f"{self_}._add_dynamic_obstacle_to_lanelets({o})"):
            out.append("ASkipA")
        else:
            bad(s, "statement of add_objects outside the accepted shapes")
        i += 1
    return out


def parse_add(fn):
    a = fn.args
    if len(a.args) != 3 or len(a.defaults) != 1 or u(a.defaults[0]) != "None" or a.vararg or a.kwarg or a.kwonlyargs:
        bad(fn, "parameters of add_objects")
    self_, o, lids = (x.arg for x in a.args)
    body = body_of(fn)
    if len(body) != 1 or not isinstance(body[0], ast.If) or u(body[0].test) != f"isinstance({o}, list)":
        bad(fn, "add_objects does not start with the list branch")
    th = body[0].body
    if len(th) != 1 or not isinstance(th[0], ast.For) or th[0].orelse or not isinstance(th[0].target, ast.Name) \
            or u(th[0].iter) != o or len(th[0].body) != 1 \
            or u(th[0].body[0]) != f"{self_}.add_objects({th[0].target.id}, {lids})":
        bad(body[0], "the list branch is not one loop calling add_objects(element, lanelet_ids)")
    el = body[0].orelse
    branches = []
    while len(el) == 1 and isinstance(el[0], ast.If):
        node = el[0]
        hit = None
        for cls, (ctor, idattr) in CLASSES.items():
            if u(node.test) == f"isinstance({o}, {cls})":
                hit = (ctor, idattr)
        if hit is None:
            bad(node, "branch test of add_objects")
        branches.append(f"({hit[0]}, {lst(branch_stmts(node.body, self_, o, lids, hit[1]))})")
        el = node.orelse
    if len(el) != 1 or not isinstance(el[0], ast.Raise) or not u(el[0]).startswith("raise ValueError("):
        bad(fn, "the final else of add_objects does not raise ValueError")
    return "true", lst(branches)


def parse_net_ids(cls, fn):
    deco = [u(d) for d in fn.decorator_list]
    if deco == ["staticmethod"] and len(fn.args.args) == 1:
        p = fn.args.args[0].arg
    elif not deco and len(fn.args.args) == 2:
        p = fn.args.args[1].arg
    else:
        bad(fn, "_lanelet_network_object_ids: parameters / decorators")
    body = body_of(fn)
    if len(body) < 2 or not isinstance(body[0], ast.Assign) or not isinstance(body[0].targets[0], ast.Name) \
            or not isinstance(body[-1], ast.Return) or u(body[-1].value) != body[0].targets[0].id:
        bad(fn, "_lanelet_network_object_ids is not `acc = ...; ...; return acc`")
    acc = body[0].targets[0].id
    SIMPLE = {"NLanelets": ("lanelet_id", "lanelets"), "NSigns": ("traffic_sign_id", "traffic_signs"),
              "NLights": ("traffic_light_id", "traffic_lights")}

    def comp(e):
        if isinstance(e, ast.ListComp) and len(e.generators) == 1 and not e.generators[0].ifs \
                and isinstance(e.generators[0].target, ast.Name):
            v = e.generators[0].target.id
            for c, (idattr, prop) in SIMPLE.items():
                if u(e.elt) == f"{v}.{idattr}" and u(e.generators[0].iter) == f"{p}.{prop}":
                    return c
        return None

    out = []
    first = comp(body[0].value)
    if first is None and u(body[0].value) != "[]":
        bad(body[0], "first statement of _lanelet_network_object_ids")
    if first:
        out.append(first)
    for s in body[1:-1]:
        if isinstance(s, ast.AugAssign) and isinstance(s.op, ast.Add) and u(s.target) == acc and comp(s.value):
            out.append(comp(s.value))
        elif isinstance(s, ast.For) and not s.orelse and isinstance(s.target, ast.Name) and u(s.iter) == f"{p}.intersections" \
                and len(s.body) == 2 and u(s.body[0]) == f"{acc}.append({s.target.id}.intersection_id)" \
                and isinstance(s.body[1], ast.AugAssign) and u(s.body[1].target) == acc \
                and isinstance(s.body[1].value, ast.ListComp) and len(s.body[1].value.generators) == 1 \
                and not s.body[1].value.generators[0].ifs \
                and u(s.body[1].value.generators[0].iter) == f"{s.target.id}.incomings" \
                and u(s.body[1].value.elt) == f"{u(s.body[1].value.generators[0].target)}.incoming_id":
            out.append("NInters")
        else:
            bad(s, "statement of _lanelet_network_object_ids outside the accepted shapes")
    return lst(out)


def text():
    raw = open(os.path.join(REPO, FILE), "rb").read()
    tree = ast.parse(raw)
    cls, add = find_method(tree, "add_objects")
    if add.decorator_list:
        bad(add, "decorated add_objects")
    rec, branches = parse_add(N.normal(add, N.class_methods(tree, "Scenario"), KEEP))
    _, nid = find_method(tree, "_lanelet_network_object_ids")
    out = ["(* GENERATED on every run by harness/props/c09_add_src.py from the syntax trees of Scenario.add_objects and",
           "   Scenario._lanelet_network_object_ids.  Do not edit.", f"   source: {FILE} sha1={hashlib.sha1(raw).hexdigest()} *)",
           "From Coq Require Import List.", "From CR Require Import Model.IdPool Model.IdRemoveSrc Model.IdAddSrc.",
           "Import ListNotations.", "",
           "Definition src_add : addsrc := {|", f"  ad_list_recursive := {rec};", f"  ad_branches := {branches};",
           f"  ad_net_ids := {parse_net_ids(cls, nid)} |}}."]
    return "\n".join(out) + "\n"


def generate():
    return write_if_changed(os.path.join(COQ, "Gen", "Src_idadd.v"), text())


if __name__ == "__main__":
    print(text())
