"""C07 source tie: the four registry helpers of commonroad.scenario.scenario.Scenario (_add_static_obstacle_to_lanelets,
_remove_static_obstacle_from_lanelets, _add_dynamic_obstacle_to_lanelets, _remove_dynamic_obstacle_from_lanelets) are
followed symbolically on every run - loops over id sets, over tuples of sources, over the items of an assignment dict,
the local helper function, the None / empty-network / set-based-prediction guards - down to the statements that add an
obstacle id to, or discard it from, a lanelet's registry; which id set or assignment dict each such statement works on, at
which time step, is written to coq/Gen/Src_assign.v as the table of coq/Model/AssignSrc.v.  Proofs/SrcAssign.v proves the
table, interpreted, equal to the four functions of Model/Assign.v that the C07 theorems are about.

Fail-closed: anything the walk does not understand raises SourceShapeError (a broken obligation).  The methods are first
brought into the normal form of vlib/astnorm.py.

Trusted: this walk and its reading of the accepted shapes (find_lanelet_by_id(l).static_obstacles_on_lanelet /
dynamic_obstacles_on_lanelet are the registries of lanelet l; `if d.get(t) is None: d[t] = set()` + `d[t].add(o)` and
Lanelet.add_dynamic_obstacle_to_lanelet are the model's dreg_add; `if t in d: d[t].discard(o)` is dreg_discard; the
guards `x is not None`, `len(self.lanelet_network.lanelets) != 0`, `not isinstance(prediction, SetBasedPrediction)`
only skip work the model describes as a no-op; a set-based prediction has no assignment dicts)."""
import ast
import hashlib
import os

from vlib.core import COQ, REPO
from vlib.py2coq import write_if_changed
from vlib import astnorm as N

FILE = os.path.join("commonroad", "scenario", "scenario.py")


class SourceShapeError(Exception):
    pass


def bad(node, why):
    raise SourceShapeError(f"scenario.py:{getattr(node, 'lineno', '?')}: {why}: {ast.unparse(node)[:150]}")


ISRC = {"initial_shape_lanelet_ids": "IShape", "initial_center_lanelet_ids": "ICenter"}
DSRC = {"shape_lanelet_assignment": "DShape", "center_lanelet_assignment": "DCenter"}


class Walk:
    def __init__(self, fn, kind):
        self.fn, self.kind = fn, kind          # kind: "static" | "dynamic"
        self.self_ = fn.args.args[0].arg
        self.actions = []                       # (verb, registry, source, time)
        self.local_defs = {}
        self.in_pred = False

    # ---- symbolic values: ("ids", src) ("dict", dsrc) ("ids_of", dsrc) ("t_of", dsrc) ("t0",) ("oid",) ("obst",)
    #      ("lid", idsvalue) ("ldict", lidvalue) ("multi", [values]) ("none",)
    def value(self, e, env):
        if isinstance(e, ast.Name):
            if e.id in env:
                return env[e.id]
            bad(e, "unknown name")
        if isinstance(e, ast.Constant) and e.value is None:
            return ("none",)
        if isinstance(e, ast.Attribute):
            base = e.value
            if isinstance(base, ast.Name) and env.get(base.id) == ("obst",):
                if e.attr in ISRC:
                    return ("ids", ISRC[e.attr])
                if e.attr == "obstacle_id":
                    return ("oid",)
                if e.attr == "prediction":
                    return ("pred",)
            if isinstance(base, ast.Attribute) and base.attr == "initial_state" and isinstance(base.value, ast.Name) \
                    and env.get(base.value.id) == ("obst",) and e.attr == "time_step":
                return ("t0",)
            if isinstance(base, ast.Attribute) and base.attr == "prediction" and e.attr in DSRC \
                    and self.value(base, env) == ("pred",):
                return ("dict", DSRC[e.attr])
            if e.attr in ("static_obstacles_on_lanelet", "dynamic_obstacles_on_lanelet"):
                la = self.value(base, env)
                if la[0] == "lanelet":
                    return ("sreg" if e.attr.startswith("static") else "ldict", la[1])
        if isinstance(e, ast.Call) and ast.unparse(e.func) == f"{self.self_}.lanelet_network.find_lanelet_by_id" \
                and len(e.args) == 1 and not e.keywords:
            x = self.value(e.args[0], env)
            if x[0] == "lid":
                return ("lanelet", x[1])
        if isinstance(e, ast.Call) and ast.unparse(e.func) == f"{self.self_}.obstacle_by_id" and len(e.args) == 1 \
                and self.value(e.args[0], env) == ("oid",):
            return ("obst",)
        bad(e, "expression the walk does not understand")

    def guard(self, t, env):
        """conditions that only skip work which is a no-op in the model; returns ("ok",) | ("pred",) | ("skip", name)"""
        parts = t.values if isinstance(t, ast.BoolOp) and isinstance(t.op, ast.And) else [t]
        out = "ok"
        for c in parts:
            u = ast.unparse(c)
            if u == f"len({self.self_}.lanelet_network.lanelets) != 0":
                continue
            if isinstance(c, ast.UnaryOp) and isinstance(c.op, ast.Not) and isinstance(c.operand, ast.Call) \
                    and ast.unparse(c.operand.func) == "isinstance" and ast.unparse(c.operand.args[1]) == "SetBasedPrediction" \
                    and self.value(c.operand.args[0], env) == ("pred",):
                continue
            if isinstance(c, ast.Compare) and len(c.ops) == 1 and isinstance(c.ops[0], ast.IsNot) \
                    and isinstance(c.comparators[0], ast.Constant) and c.comparators[0].value is None:
                v = self.value(c.left, env)
                if v == ("pred",):
                    out = "pred"
                    continue
                if v[0] in ("ids", "dict", "ids_of"):
                    continue
            bad(c, "guard the walk does not understand")
        return out

    def block(self, stmts, env):
        env = dict(env)
        i = 0
        while i < len(stmts):
            s = stmts[i]
            i += 1
            if isinstance(s, ast.FunctionDef):
                self.local_defs[s.name] = s
            elif isinstance(s, (ast.Assign, ast.AnnAssign)):
                tgt = s.targets[0] if isinstance(s, ast.Assign) else s.target
                if isinstance(tgt, ast.Name):
                    env[tgt.id] = self.value(s.value, env)
                elif isinstance(tgt, ast.Subscript) and ast.unparse(s.value) == "set()":
                    pass                                    # d[t] = set(): handled with the `if d.get(t) is None` before it
                else:
                    bad(s, "assignment the walk does not understand")
            elif isinstance(s, ast.For):
                self.loop(s, env)
            elif isinstance(s, ast.If):
                self.cond(s, env, stmts[i:])
            elif isinstance(s, ast.Continue):
                return
            elif isinstance(s, ast.Expr) and isinstance(s.value, ast.Call):
                self.call(s.value, env)
            elif isinstance(s, ast.Pass):
                pass
            else:
                bad(s, "statement the walk does not understand")

    def cond(self, s, env, rest):
        t = s.test
        # if X is None: continue   (inside a loop over a tuple of sources)
        if isinstance(t, ast.Compare) and len(t.ops) == 1 and isinstance(t.ops[0], ast.Is) \
                and isinstance(t.comparators[0], ast.Constant) and t.comparators[0].value is None \
                and len(s.body) == 1 and isinstance(s.body[0], ast.Continue) and not s.orelse:
            if self.value(t.left, env)[0] in ("ids", "dict"):
                return
            bad(s, "None test on something that is not a source")
        # if d.get(T) is None: d[T] = set()
        if isinstance(t, ast.Compare) and isinstance(t.ops[0], ast.Is) and isinstance(t.left, ast.Call) \
                and isinstance(t.left.func, ast.Attribute) and t.left.func.attr == "get" and not s.orelse \
                and len(s.body) == 1 and ast.unparse(s.body[0]).endswith("= set()"):
            d = self.value(t.left.func.value, env)
            if d[0] == "ldict" and ast.unparse(s.body[0].targets[0]) == f"{ast.unparse(t.left.func.value)}[{ast.unparse(t.left.args[0])}]":
                return
            bad(s, "dictionary initialisation the walk does not understand")
        # if T in d: d[T].discard(oid)
        if isinstance(t, ast.Compare) and len(t.ops) == 1 and isinstance(t.ops[0], ast.In) and not s.orelse \
                and len(s.body) == 1 and isinstance(s.body[0], ast.Expr):
            d = self.value(t.comparators[0], env)
            c = s.body[0].value
            if d[0] == "ldict" and isinstance(c, ast.Call) and isinstance(c.func, ast.Attribute) and c.func.attr == "discard" \
                    and ast.unparse(c.func.value) == f"{ast.unparse(t.comparators[0])}[{ast.unparse(t.left)}]" \
                    and self.value(c.args[0], env) == ("oid",):
                self.act("discard", "dyn", d[1], self.value(t.left, env), s)
                return
            bad(s, "discard the walk does not understand")
        if s.orelse:
            bad(s, "else branch")
        g = self.guard(t, env)
        if g == "pred":
            old, self.in_pred = self.in_pred, True
            self.block(s.body, env)
            self.in_pred = old
        else:
            self.block(s.body, env)

    def loop(self, s, env):
        if s.orelse:
            bad(s, "for-else")
        it = s.iter
        if isinstance(it, ast.Tuple) and isinstance(s.target, ast.Name):
            for e in it.elts:
                env2 = dict(env)
                env2[s.target.id] = self.value(e, env)
                self.block(s.body, env2)
            return
        if isinstance(it, ast.Call) and isinstance(it.func, ast.Attribute) and it.func.attr == "items" and not it.args \
                and isinstance(s.target, ast.Tuple) and len(s.target.elts) == 2:
            d = self.value(it.func.value, env)
            if d[0] != "dict":
                bad(s, "items() of something that is not an assignment dict")
            env2 = dict(env)
            env2[s.target.elts[0].id] = ("t_of", d[1])
            env2[s.target.elts[1].id] = ("ids_of", d[1])
            self.block(s.body, env2)
            return
        v = self.value(it, env)
        if v[0] in ("ids", "ids_of") and isinstance(s.target, ast.Name):
            env2 = dict(env)
            env2[s.target.id] = ("lid", v)
            self.block(s.body, env2)
            return
        bad(s, "loop the walk does not understand")

    def call(self, c, env):
        f = c.func
        if isinstance(f, ast.Name) and f.id in self.local_defs:
            d = self.local_defs[f.id]
            params = [a.arg for a in d.args.args]
            if len(params) != len(c.args) or c.keywords:
                bad(c, "call of the local helper")
            env2 = dict(env)
            for p, a in zip(params, c.args):
                env2[p] = self.value(a, env)
            self.block(N.body_of(d), env2)
            return
        if isinstance(f, ast.Attribute) and f.attr in ("add", "discard") and len(c.args) == 1 \
                and self.value(c.args[0], env) == ("oid",):
            tgt = f.value
            if isinstance(tgt, ast.Subscript):          # d[T].add(oid)
                d = self.value(tgt.value, env)
                if d[0] == "ldict":
                    self.act(f.attr, "dyn", d[1], self.value(tgt.slice, env), c)
                    return
            else:
                r = self.value(tgt, env)
                if r[0] == "sreg":
                    self.act(f.attr, "static", r[1], None, c)
                    return
        if isinstance(f, ast.Attribute) and f.attr in ("add_static_obstacle_to_lanelet", "add_dynamic_obstacle_to_lanelet"):
            la = self.value(f.value, env)
            kw = {k.arg: k.value for k in c.keywords}
            args = list(c.args)
            oid = kw.get("obstacle_id", args[0] if args else None)
            if la[0] == "lanelet" and oid is not None and self.value(oid, env) == ("oid",):
                if f.attr.startswith("add_static"):
                    self.act("add", "static", la[1], None, c)
                    return
                t = kw.get("time_step", args[1] if len(args) > 1 else None)
                if t is not None:
                    self.act("add", "dyn", la[1], self.value(t, env), c)
                    return
        bad(c, "call the walk does not understand")

    def act(self, verb, reg, idsvalue, time, node):
        if (reg == "static") != (self.kind == "static"):
            bad(node, "registry of the other kind of obstacle")
        if idsvalue[0] == "ids":
            if reg == "dyn" and time != ("t0",):
                bad(node, "initial lanelet ids registered at another time step than the initial one")
            if self.in_pred:
                bad(node, "initial lanelet ids handled under the prediction guard")
            self.actions.append((verb, "init", idsvalue[1]))
        elif idsvalue[0] == "ids_of":
            if time != ("t_of", idsvalue[1]):
                bad(node, "ids of an assignment entry registered at another time step than the entry's")
            if not self.in_pred:
                bad(node, "assignment dicts read without testing that there is a prediction")
            self.actions.append((verb, "pred", idsvalue[1]))
        else:
            bad(node, "registry action on ids of unknown origin")


def walk(fn, kind, params):
    w = Walk(fn, kind)
    env = {}
    for a, v in zip(fn.args.args[1:], params):
        env[a.arg] = v
    w.block(N.body_of(fn), env)
    return w.actions


def text():
    raw = open(os.path.join(REPO, FILE), "rb").read()
    tree = ast.parse(raw)
    ms = N.class_methods(tree, "Scenario")

    def get(name):
        if name not in ms:
            raise SourceShapeError(f"Scenario.{name} not found")
        try:
            return N.normal(ms[name], {}, ())
        except N.NormError as e:
            raise SourceShapeError(f"Scenario.{name}: {e}")
    a_s = walk(get("_add_static_obstacle_to_lanelets"), "static", [("oid",), ("ids", "IShape")])
    r_s = walk(get("_remove_static_obstacle_from_lanelets"), "static", [("oid",), ("ids", "IShape")])
    a_d = walk(get("_add_dynamic_obstacle_to_lanelets"), "dynamic", [("obst",)])
    r_d = walk(get("_remove_dynamic_obstacle_from_lanelets"), "dynamic", [("obst",)])
    # the lanelet_ids parameter of the static helpers: every call site passes <obstacle>.initial_shape_lanelet_ids
    sites = 0
    for n in ast.walk(tree):
        if isinstance(n, ast.Call) and isinstance(n.func, ast.Attribute) and n.func.attr in (
                "_add_static_obstacle_to_lanelets", "_remove_static_obstacle_from_lanelets"):
            sites += 1
            if len(n.args) != 2 or n.keywords or not (isinstance(n.args[1], ast.Attribute)
                                                      and n.args[1].attr == "initial_shape_lanelet_ids"):
                bad(n, "call site does not pass <obstacle>.initial_shape_lanelet_ids")
            o = ast.unparse(n.args[1].value)
            if ast.unparse(n.args[0]) != f"{o}.obstacle_id":
                bad(n, "call site passes the id of another obstacle than the one whose lanelet ids it passes")
    if sites < 2:
        raise SourceShapeError("call sites of the static registry helpers not found")

    def only(actions, verb, phase, name):
        for v, ph, _ in actions:
            if v != verb:
                raise SourceShapeError(f"{name}: a registry is {v}ed where the method should only {verb}")
        return [s for v, ph, s in actions if ph == phase]
    rows = [("rp_add_static", only(a_s, "add", "init", "_add_static_obstacle_to_lanelets")),
            ("rp_remove_static", only(r_s, "discard", "init", "_remove_static_obstacle_from_lanelets")),
            ("rp_add_dyn_init", only(a_d, "add", "init", "_add_dynamic_obstacle_to_lanelets")),
            ("rp_add_dyn_pred", only(a_d, "add", "pred", "_add_dynamic_obstacle_to_lanelets")),
            ("rp_remove_dyn_init", only(r_d, "discard", "init", "_remove_dynamic_obstacle_from_lanelets")),
            ("rp_remove_dyn_pred", only(r_d, "discard", "pred", "_remove_dynamic_obstacle_from_lanelets"))]
    if any(ph == "pred" for _, ph, _ in a_s + r_s):
        raise SourceShapeError("a static helper touches assignment dicts")
    # init actions must precede pred actions in the dynamic helpers (the model's order)
    for nm, acts in (("_add_dynamic_obstacle_to_lanelets", a_d), ("_remove_dynamic_obstacle_from_lanelets", r_d)):
        phases = [ph for _, ph, _ in acts]
        if phases != sorted(phases, key=lambda x: x != "init"):
            raise SourceShapeError(f"{nm}: assignment entries handled before the initial lanelet ids")
    out = ["(* GENERATED on every run by harness/props/c07_src.py from the syntax trees of the four registry helpers of Scenario.  "
           "Do not edit.", f"   source: {FILE} sha1={hashlib.sha1(raw).hexdigest()} *)",
           "From Coq Require Import List.", "From CR Require Import Model.AssignSrc.", "Import ListNotations.", "",
           "Definition src_registry : reg_prog :=", "  {| " + ";\n     ".join(f"{k} := [{'; '.join(v)}]" for k, v in rows) + " |}.", ""]
    return "\n".join(out)


def generate():
    return write_if_changed(os.path.join(COQ, "Gen", "Src_assign.v"), text())


if __name__ == "__main__":
    print(text())
