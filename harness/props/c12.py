"""C12 — equality and hashing of scenario elements follow their contract.
oracle: the contract itself on generated instances x {same, deepcopy, set-insertion permutations, every
        single-attribute perturbation} for every class (classes x constructor parameters enumerated completely)
corr:   the comparison / hash specs of Model/EqHash.v (Gen/Tables_C12.v + Model/EqHashSpecs.v) evaluated inside Coq on
        the read-back values of the same pairs, predictions compared exactly with the observed (eq, hash-equal)"""
import copy
import json
import os
import sys
import warnings

from vlib.core import COQ, REPO, qq, qz, qb, qlist, qstr
from vlib.flow import load_corpus

from props import c12_classes as K
from props import c12_tables as T

warnings.simplefilter("ignore")

RULE = ("per class (all classes with __eq__/__hash__ in the anchored files, all 14 state classes): instances built "
        "through the public constructors from one seeded PRNG (first instance: every optional argument at its default), "
        "paired with itself, a deepcopy, rebuilds with every id set inserted in reversed / rotated / shuffled order "
        "(ids drawn from a pool colliding modulo 8), and for EVERY constructor parameter (exhaustive; from "
        "inspect.signature) local changes of its value (reals by 3e-10, 1e-7, 0.25; array elements first/middle/last; "
        "ids added/removed/replaced; nested attributes) and values of freshly generated instances; histories: an "
        "instance is hashed and compared, then changed through public mutators (property setters with the value of a "
        "valid single-attribute change, optionally set back; translate_rotate; convert_to_2d of 3-D lanelet polylines) "
        "and paired with a never-used instance after the same mutators (hist) and with a fresh original (hist0). "
        "distinct = distinct (class, x, y) specs; non-trivial = the pair is not (x, x)")
ASSUME = ["a perturbation counts only if the read-back value of the parameter changed: reals by > 1.5e-10, id sets as "
          "sets, None vs empty collection not counted (DESIGN 2.7); pairs whose only difference is <= 1e-10 are used "
          "for the correspondence only",
          "hash(x) == hash(y) observed as equality of CPython hash values (a 2^-61 collision would read as 'equal')",
          "base reals lie on a 1e-6 decimal grid, so rounding to 10 decimals never sits on a tie; float arithmetic of "
          "np.around / round is exact there (model: exact round-half-even over Q)"]


# ------------------------------------------------------------------------------------------------ observation
def outcome(fn):
    try:
        return ("ok", fn())
    except Exception as e:  # noqa - recorded as an outcome
        site = "?"
        tb = e.__traceback__
        while tb is not None:
            code = tb.tb_frame.f_code
            if "commonroad" in code.co_filename:
                site = getattr(code, "co_qualname", code.co_name)
            tb = tb.tb_next
        return ("exc", type(e).__name__, site, str(e)[:120])


def observe(x, y):
    def b(o):
        return ("ok", bool(o[1])) if o[0] == "ok" else o
    return {"eq": b(outcome(lambda: x == y)), "ne": b(outcome(lambda: x != y)), "qe": b(outcome(lambda: y == x)),
            "hx": outcome(lambda: hash(x)), "hy": outcome(lambda: hash(y))}


def make_pair(case):
    """build the two objects of a case; returns (x, y) or None if a spec is not constructible"""
    x, err = K.try_build(case["x"])
    if x is None:
        return None
    rel = case["rel"]
    if rel in ("hist", "hist0"):
        return make_hist_pair(case, x)
    if rel == "same":
        return x, x
    if rel == "copy":
        return x, copy.deepcopy(x)
    y, err = K.try_build(case["y"])
    if y is None:
        return None
    return x, y


def prime(x):
    """what an earlier use of the object may have memoised: hash, comparison with a copy and with itself"""
    import functools
    uses = [lambda: hash(x), lambda: x == copy.deepcopy(x), lambda: x == x, lambda: str(x)]
    # ... and the read-only queries of its public interface: every property, the look-ups by time step
    for name in dir(type(x)):
        if not name.startswith("_") and isinstance(getattr(type(x), name, None), (property, functools.cached_property)):
            uses.append(lambda n=name: getattr(x, n))
    for meth, arg in (("get_state_at_time_step", 3), ("occupancy_at_time", 1), ("state_at_time", 1),
                      ("occupancy_at_time_step", 1), ("state_at_time_step", 1)):
        if callable(getattr(x, meth, None)):
            uses.append(lambda m=meth, a=arg: getattr(x, m)(a))
    for f in uses:
        try:
            f()
        except Exception:  # noqa - judged by the plain cases
            pass


def apply_mutations(obj, muts):
    """public mutators only; returns (object after the history, None) or (None, exception class name)"""
    import numpy as np
    for m in muts:
        try:
            if m["k"] == "set":
                setattr(obj, m["acc"], K.build(m["v"]))
            elif m["k"] == "tr":
                r = obj.translate_rotate(np.array(m["t"], dtype=float), float(m["a"]))
                if r is not None and isinstance(r, type(obj)):
                    obj = r     # shapes / states return the moved object
            elif m["k"] == "2d":
                obj.convert_to_2d()
            else:
                raise ValueError(m["k"])
        except Exception as e:  # noqa - a mutator that rejects the call: the history is not judged
            return None, type(e).__name__
    return obj, None


def make_hist_pair(case, x1):
    """x1: used (hashed, compared) BEFORE the public mutators ran; hist: against x2 = same history, never used before;
    hist0: against a fresh object built from the original spec"""
    prime(x1)
    x1m, e1 = apply_mutations(x1, case["muts"])
    x2, _ = K.try_build(case["x"])
    x2m, e2 = apply_mutations(x2, case["muts"])
    if e1 != e2:
        raise HistoryAsymmetry(f"the mutators {[m['k'] for m in case['muts']]} end with {e1 or 'no exception'} on an "
                               f"object that was hashed / compared before and with {e2 or 'no exception'} on a fresh one")
    if x1m is None:
        return None
    if case["rel"] == "hist":
        return x1m, x2m
    x0, _ = K.try_build(case["x"])
    return x1m, x0


class HistoryAsymmetry(Exception):
    pass


def judge(case, x, y, rbx, rby, o):
    """the contract; returns the list of (failure kind, text)"""
    rel, cls, attr = case["rel"], case["cls"], case.get("attr")
    out = []
    eq_ok = True
    for k in ("eq", "ne", "qe"):
        if o[k][0] == "exc":
            out.append((f"eq-raises-{o[k][1]}@{o[k][2]}", f"{k} raises {o[k][1]} in {o[k][2]}: {o[k][3]}"))
            eq_ok = False
            break
    hash_ok = True
    for k in ("hx", "hy"):
        if o[k][0] == "exc":
            out.append((f"hash-raises-{o[k][1]}@{o[k][2]}", f"hash() raises {o[k][1]} in {o[k][2]}: {o[k][3]}"))
            hash_ok = False
            break
    if not eq_ok:
        return out
    eq, ne, qe = o["eq"][1], o["ne"][1], o["qe"][1]
    if eq != qe:
        out.append(("asymmetric", f"x==y is {eq} but y==x is {qe}"))
    if ne != (not eq):
        out.append(("ne-inconsistent", f"x==y is {eq} and x!=y is {ne}"))
    whole = K.rb_diff(rbx, rby)
    if whole == "same" and not eq:
        kind = {"same": "not-reflexive", "copy": "copy-unequal", "perm": "perm-unequal",
                "hist": "history-unequal", "hist0": "history-unequal"}.get(rel, "same-unequal")
        what = {"same": "x == x is False", "copy": "x == deepcopy(x) is False",
                "perm": "equal values with another set insertion order compare unequal",
                "hist": "after the same public mutators an object that was hashed / compared before and a fresh one "
                        "hold identical values but compare unequal",
                "hist0": "an object brought back to its original values by public mutators compares unequal to a "
                         "fresh one"}.get(
            rel, "objects holding identical values compare unequal")
        out.append((kind, what))
    if rel == "copy" and whole == "diff":
        # x == deepcopy(x) is part of the contract as it stands: a deep copy that holds other values than its original
        # is reported whether or not the comparison notices (seed C12-15: a hand-written __deepcopy__ that forgets a
        # container)
        out.append(("copy-differs", "deepcopy(x) does not hold the constructor-visible values of x"
                    + ("" if eq else " (and x == deepcopy(x) is False)")))
    if rel == "hist0" and eq and whole == "diff":
        out.append(("history-stale-equal", f"after {case.get('how')} the object holds other values than a freshly built "
                                           "one but still compares equal to it (comparison uses data memoised before)"))
    if rel == "pert" and eq:
        dx, dy = dict(rbx[2]), dict(rby[2])
        d = K.rb_diff(dx.get(attr, ("none",)), dy.get(attr, ("none",)), K.setlike_kind(cls, attr)) \
            if (attr in dx or attr in dy) else whole
        if d == "diff":
            out.append(("perturbation-equal", f"objects differing in {cls}.{attr} ({case.get('how')}) compare equal"))
    if eq and hash_ok and o["hx"][1] != o["hy"][1]:
        out.append(("equal-hash-differs", "x == y but hash(x) != hash(y)"))
    return out


def evaluate(case):
    """returns None (not constructible) or dict(x, y, rbx, rby, obs, verdict)"""
    try:
        p = make_pair(case)
    except HistoryAsymmetry as e:
        return {"rbx": ("none",), "rby": ("none",), "obs": None, "verdict": [("history-mutator-asymmetric", str(e))]}
    if p is None:
        return None
    x, y = p
    rbx, rby = K.readback(x), K.readback(y)
    o = observe(x, y)
    v = judge(case, x, y, rbx, rby, o)
    return {"rbx": rbx, "rby": rby, "obs": o, "verdict": v}


def signature(case, kind):
    a = case.get("attr")
    return f"{case['cls']}.{a}:{kind}" if a and kind in ("perturbation-equal",) else f"{case['cls']}:{kind}"


def oracle(case):
    r = evaluate(case)
    if r is None or not r["verdict"]:
        return None
    kind, text = r["verdict"][0]
    return (signature(case, kind), f"{case['cls']} [{case['rel']}{' ' + case['attr'] if case.get('attr') else ''}]: "
                                   f"{text}")


# ------------------------------------------------------------------------------------------------ generation
def gen_instance(rng, cname, minimal=False, stats=None):
    for _ in range(12):
        s = K.minimal_spec(cname, rng) if minimal else K.GEN[cname](rng)
        o, err = K.try_build(s)
        if o is not None:
            try:
                hash(o)
            except Exception:  # noqa - judged by the oracle, not here
                pass
            return s
        if stats is not None:
            stats["rejected_instances"] = stats.get("rejected_instances", 0) + 1
    raise RuntimeError(f"C12: no constructible instance of {cname} in 12 attempts: {err}")


def class_attrs(cname):
    cls = K.CLASSES[cname]
    return K.ctor_params(cls) + K.EXTRA_ATTRS.get(cname, [])


def gen_cases(rng, n_inst, per_attr=3, classes=None, stats=None):
    """cases for all classes; the perturbation matrix classes x attributes is enumerated completely for every
    instance (attributes without a constructible change are counted in stats['no_valid_change'])"""
    cases = []
    stats = stats if stats is not None else {}
    for cname in (classes or list(K.CLASSES)):
        for i in range(n_inst):
            spec = gen_instance(rng, cname, minimal=(i == 0), stats=stats)
            base = {"cls": cname, "x": spec}
            cases.append(dict(base, rel="same"))
            cases.append(dict(base, rel="copy"))
            for mode in ("reverse", "rotate", "shuffle"):
                y = K.permuted(rng, spec, mode)
                if y is not None:
                    cases.append(dict(base, rel="perm", y=y, how=mode))
            attrs = class_attrs(cname)
            if cname == "CustomState":
                attrs = sorted(spec["kw"])
            for a in attrs:
                got = 0
                cand = K.perturbations(rng, spec, a)
                loc = [c for c in cand if c[1].startswith("local")]
                sub = [c for c in cand if c[1].startswith("sub")]
                oth = [c for c in cand if not c[1].startswith(("local", "sub"))]
                rng.shuffle(loc)
                rng.shuffle(sub)
                sub.sort(key=lambda c: "[axis]" not in c[1])
                for y, how in loc[:per_attr] + oth[:2] + sub[:1]:
                    if K.try_build(y)[0] is None:
                        stats["invalid_change"] = stats.get("invalid_change", 0) + 1
                        continue
                    cases.append(dict(base, rel="pert", y=y, attr=a, how=how))
                    got += 1
                if not got:
                    k = f"{cname}.{a}"
                    stats.setdefault("no_valid_change", {})
                    stats["no_valid_change"][k] = stats["no_valid_change"].get(k, 0) + 1
            hs = gen_histories(rng, cname, spec)
            stats["histories"] = stats.get("histories", 0) + len(hs)
            cases += hs
    return cases


def to3d(rng, v):
    """the same spec with a z column on every lanelet polyline (valid input of Lanelet; convert_to_2d drops it)"""
    if isinstance(v, dict):
        if v.get("c") == "Lanelet":
            kw = dict(v["kw"])
            for a in ("left_vertices", "center_vertices", "right_vertices"):
                kw[a] = {"a": [list(p[:2]) + [round(rng.uniform(-3, 3), 3)] for p in kw[a]["a"]]}
            return {"c": "Lanelet", "kw": {k: to3d(rng, x) for k, x in kw.items()}}
        if v.get("c") in ("StopLine", "TrafficSign", "TrafficLight"):
            kw = dict(v["kw"])
            for a in ("start", "end", "position"):
                if isinstance(kw.get(a), dict) and "a" in kw[a] and len(kw[a]["a"]) == 2:
                    kw[a] = {"a": list(kw[a]["a"]) + [round(rng.uniform(-3, 3), 3)]}
            return {"c": v["c"], "kw": {k: to3d(rng, x) for k, x in kw.items()}}
        return {k: to3d(rng, x) for k, x in v.items()}
    if isinstance(v, list):
        return [to3d(rng, x) for x in v]
    return v


def setter_name(cname, a):
    acc = K.ACCESSOR.get((cname, a), a)
    if cname in K.STATE_NAMES or cname in ("CustomState", "SignalState"):
        return acc          # states are plain records: attribute assignment is their public mutator
    p = getattr(K.CLASSES[cname], acc, None)
    return acc if isinstance(p, property) and p.fset is not None else None


def gen_histories(rng, cname, spec, n_set=3):
    """use (hash, ==) -> public mutators (property setters with the value of a valid single-attribute change,
    translate_rotate, convert_to_2d) -> compare: with the same history on a fresh object and with a fresh original"""
    cls = K.CLASSES[cname]
    out = []
    attrs = [a for a in (sorted(spec["kw"]) if cname == "CustomState" else class_attrs(cname)) if setter_name(cname, a)]
    rng.shuffle(attrs)
    for a in attrs[:n_set]:
        cand = [c for c in K.perturbations(rng, spec, a) if not c[1].startswith("sub") and a in c[0].get("kw", {})]
        rng.shuffle(cand)
        for y, how in cand[:1]:
            if K.try_build(y)[0] is None:
                continue
            mut = {"k": "set", "attr": a, "acc": setter_name(cname, a), "v": y["kw"][a]}
            back = {"k": "set", "attr": a, "acc": setter_name(cname, a), "v": spec["kw"][a]} if a in spec["kw"] else None
            out.append(([mut], f"{cname}.{a} = <{how}>", spec))
            if back is not None and rng.random() < 0.5:
                out.append(([mut, back], f"{cname}.{a} = <{how}>; {cname}.{a} = <original>", spec))
    if callable(getattr(cls, "translate_rotate", None)):
        ang = rng.choice([0.0, round(rng.uniform(-3, 3), 3), 1.5])
        tr = {"k": "tr", "t": [round(rng.uniform(-20, 20), 3), round(rng.uniform(-20, 20), 3)], "a": ang}
        out.append(([tr], "translate_rotate", spec))
        if attrs:
            a = attrs[0]
            cand = [c for c in K.perturbations(rng, spec, a) if c[1].startswith("local") and a in c[0].get("kw", {})]
            if cand and K.try_build(cand[0][0])[0] is not None:
                out.append(([tr, {"k": "set", "attr": a, "acc": setter_name(cname, a), "v": cand[0][0]["kw"][a]}],
                            f"translate_rotate; {cname}.{a} = <{cand[0][1]}>", spec))
    if callable(getattr(cls, "convert_to_2d", None)):
        s3 = to3d(rng, spec)
        if K.try_build(s3)[0] is not None:
            out.append(([{"k": "2d"}], "convert_to_2d of 3-D polylines", s3))
        out.append(([{"k": "2d"}], "convert_to_2d", spec))
    # the empty history: an object that was only used (hashed, compared, queried) against one that never was
    out.append(([], "used, not changed", spec))
    cases = []
    for muts, how, sp in out:
        for rel in ("hist", "hist0"):
            cases.append({"cls": cname, "x": sp, "rel": rel, "muts": muts, "how": how})
    return cases


def gen(rng, n):
    return gen_cases(rng, max(1, n))


# ------------------------------------------------------------------------------------------------ Coq terms
def coq_value(v):
    t = v[0]
    if t == "none":
        return "VNone"
    if t == "b":
        return f"(VBool {qb(v[1])})"
    if t == "i":
        return f"(VInt {qz(v[1])})"
    if t == "f":
        return f"(VNum {qq(v[1])})"
    if t == "s":
        return f"(VStr {qstr(v[1])})"
    if t == "e":
        return f"(VEnum {qstr(v[1])})"
    if t == "a":
        return f"(VArr {qlist([qz(n) for n in v[1]])} {qlist([qq(x) for x in v[2]])})"
    if t == "l":
        return f"(VList {qlist([coq_value(x) for x in v[1]])})"
    if t == "set":
        return f"(VSet {qlist([coq_value(x) for x in v[1]])})"
    if t == "o":
        fs = qlist([f"({qstr(a)}, {coq_value(x)})" for a, x in v[2]])
        return f"(VObj {qstr(v[1])} {fs})"
    raise TypeError(t)


def term_size(v):
    t = v[0]
    if t == "a":
        return 1 + len(v[2])
    if t in ("l", "set"):
        return 1 + sum(term_size(x) for x in v[1])
    if t == "o":
        return 1 + sum(term_size(x) for _, x in v[2])
    return 1


class Pool:
    """structural sharing inside one generated file: every large sub-value becomes one Definition, so the many
    pairs (x, y) that differ in one attribute cost only their difference (coqc needs ~1 ms per number literal)"""

    def __init__(self):
        self.names, self.defs, self.leaves = {}, [], 0

    def term(self, v):
        t = v[0]
        if t == "a":
            s = f"(VArr {qlist([qz(n) for n in v[1]])} {qlist([qq(x) for x in v[2]])})"
            n = len(v[2])
        elif t == "l":
            s = f"(VList {qlist([self.term(x) for x in v[1]])})"
            n = 1
        elif t == "set":
            s = f"(VSet {qlist([self.term(x) for x in v[1]])})"
            n = 1
        elif t == "o":
            fs = qlist([f"({qstr(a)}, {self.term(x)})" for a, x in v[2]])
            s = f"(VObj {qstr(v[1])} {fs})"
            n = 1
        else:
            self.leaves += 1
            return coq_value(v)
        if len(s) < 120:
            self.leaves += n
            return s
        name = self.names.get(s)
        if name is None:
            name = f"v{len(self.names)}"
            self.names[s] = name
            self.defs.append(f"Definition {name} : value := {s}.")
            self.leaves += n
        return name


def obs_b(o):
    return f"(OB {qb(o[1])})" if o[0] == "ok" else "OBExc"


def coq_case(ev, pool):
    o = ev["obs"]
    if o["hx"][0] == "ok" and o["hy"][0] == "ok":
        h = f"(OB {qb(o['hx'][1] == o['hy'][1])})"
    else:
        h = "OBExc"
    hx = qb(o["hx"][0] == "ok")
    hy = qb(o["hy"][0] == "ok")
    return f"(MkCase {pool.term(ev['rbx'])} {pool.term(ev['rby'])} {obs_b(o['eq'])} {obs_b(o['qe'])} {h} {hx} {hy})"


IMPORTS = ("From Coq Require Import QArith ZArith List Bool NArith String.\nImport ListNotations.\n"
           "From CR Require Import Model.EqHash Gen.Tables_C12 Model.EqHashSpecs Corr.Obs Corr.C12.\n"
           "Open Scope Q_scope.\n")


def has_minus_one(v):
    """CPython reserves the hash value -1: hash(-1) == hash(-2) == hash(-1.0) == -2, the one designed collision"""
    t = v[0]
    if t in ("i", "f"):
        return v[1] == -1
    if t == "a":
        return any(x == -1 for x in v[2])
    if t in ("l", "set"):
        return any(has_minus_one(x) for x in v[1])
    if t == "o":
        return any(has_minus_one(x) for _, x in v[2])
    return False


def select_for_corr(evaluated, cap):
    """all same / copy / perm pairs and, per class, perturbation pairs taken round-robin over the attributes"""
    out, per = [], {}
    for i, (c, ev) in enumerate(evaluated):
        if ev["obs"] is None or has_minus_one(ev["rbx"]) or has_minus_one(ev["rby"]):
            continue
        if c["rel"] in ("hist", "hist0"):
            per.setdefault(c["cls"] + " histories", {}).setdefault((c["muts"][0]["k"] if c["muts"] else "none") + c["rel"], []).append(i)
        elif c["rel"] != "pert":
            out.append(i)
        else:
            per.setdefault(c["cls"], {}).setdefault(c["attr"], []).append(i)
    for cls, by_attr in per.items():
        n, k = 0, 0
        lists = list(by_attr.values())
        cap_ = max(4, cap // 8) if cls.endswith(" histories") else cap
        while n < cap_ and any(k < len(li) for li in lists):
            for li in lists:
                if k < len(li) and n < cap_:
                    out.append(li[k])
                    n += 1
            k += 1
    return sorted(out)


def corr(ctx, evaluated, cap, shard_leaves=25000):
    """evaluated: list of (case, ev).  Files are cut by the number of literals after sharing."""
    sel = select_for_corr(evaluated, cap)
    shards = []  # (indices, pool, terms)
    cur, pool, terms = [], Pool(), []
    for i in sel:
        c, ev = evaluated[i]
        terms.append(coq_case(ev, pool))
        cur.append(i)
        if pool.leaves > shard_leaves or len(cur) >= 400:
            shards.append((cur, pool, terms))
            cur, pool, terms = [], Pool(), []
    if cur:
        shards.append((cur, pool, terms))
    bad, errors = [], []
    import concurrent.futures

    def run(k):
        idx, pl, tm = shards[k]
        b, e = ctx.coq_bad_indices(f"corr{k}", IMPORTS, "\n".join(pl.defs), tm, "check", shard=len(tm))
        return [idx[j] for j in b], e

    with concurrent.futures.ThreadPoolExecutor(max_workers=12) as ex:
        for b, e in ex.map(run, range(len(shards))):
            bad += b
            errors += e
    ctx.coverage["correspondence_cases"] = len(sel)
    ctx.coverage["correspondence_not_selected"] = len(evaluated) - len(sel)
    ctx.coverage["correspondence_literals"] = sum(p.leaves for _, p, _ in shards)
    for e in errors:
        ctx.corr_break("Corr.C12.check (coqc failed)", e)
    why = explain_bad(ctx, [evaluated[i][1] for i in bad[:8]]) if bad else []
    for n, i in enumerate(bad):
        c, ev = evaluated[i]
        o = ev["obs"]
        ctx.corr_break("Corr.C12.check: eq/hash specs (Model/EqHashSpecs.v) vs implementation",
                       dict(c, observed={k: list(map(str, o[k][:2])) for k in o},
                            disagrees_in=why[n] if n < len(why) else None))
    ctx.log(f"corr cases={len(sel)} of {len(evaluated)} files={len(shards)} disagree={len(bad)} "
            f"coq_errors={len(errors)}")
    return [evaluated[i] for i in bad]


CONJUNCTS = ["attributes of x = generated A_K", "attributes of y = generated A_K", "x has its generated types",
             "y has its generated types", "x == y", "y == x", "hash(x) returns", "hash(y) returns", "hash(x) == hash(y)"]


def explain_bad(ctx, evs):
    """which conjunct of Corr.C12.check fails, for the first disagreeing cases (diagnostics only)"""
    import re
    pool = Pool()
    terms = [coq_case(ev, pool) for ev in evs]
    ok, out = ctx.coq_eval("explain", IMPORTS, "\n".join(pool.defs) + "\nEval vm_compute in (map explain " +
                           qlist(terms) + ").\n")
    if not ok:
        return []
    rows = re.findall(r"\[((?:true|false)(?:;\s*(?:true|false))*)\]", out)
    res = []
    for r in rows:
        flags = [x.strip() == "true" for x in r.split(";")]
        res.append([CONJUNCTS[k] for k, f in enumerate(flags) if not f and k < len(CONJUNCTS)])
    return res


# ------------------------------------------------------------------------------------------------ run
def run(ctx):
    ctx.trusted = ["Coq 8.16.1 kernel + vm_compute (no native_compute)",
                   "axioms: none (Print Assumptions: Closed under the global context for every theorem)",
                   "coq/Gen/Tables_C12.v regenerated on every run from inspect.signature / typing.get_type_hints of every "
                   "class with __eq__/__hash__ in the anchored modules (harness/props/c12_tables.py, fail-closed: unknown "
                   "class, new State subclass, untranslatable annotation abort the run)",
                   "hand-written spec table coq/Model/EqHashSpecs.v (which attribute each __eq__/__hash__ compares and "
                   "how), validated attribute by attribute by the correspondence relation coq/Corr/C12.v on every run",
                   "harness/props/c12.py, c12_classes.py (generators, read-back of held values, Coq term printer)",
                   "CPython: set iteration order, hash() of ints/floats/str/tuples/frozensets, deepcopy; numpy around / "
                   "array_equal / tobytes"]
    T.write_tables(ctx)
    ok = ctx.build_props()
    if ctx.tier == "thorough":
        ctx.coqchk()
    stats = {}
    n_inst = ctx.n(6, 40)
    corpus = load_corpus(ctx.prop)
    cases = [c["case"] if "case" in c else c for c in corpus] + gen_cases(ctx.rng, n_inst, stats=stats)
    evaluated = []
    matrix = set()
    for c in cases:
        ev = evaluate(c)
        if ev is None:
            stats["unbuildable"] = stats.get("unbuildable", 0) + 1
            continue
        ctx.count({"cls": c["cls"], "x": c["x"], "y": c.get("y"), "rel": c["rel"], "muts": c.get("muts")},
                  c["rel"] != "same", f"{c['rel']}")
        ctx.dist["class:" + c["cls"]] = ctx.dist.get("class:" + c["cls"], 0) + 1
        if c["rel"] == "pert":
            matrix.add((c["cls"], c["attr"]))
        for kind, text in ev["verdict"]:
            ctx.fail(signature(c, kind), f"{c['cls']} [{c['rel']}{' ' + c['attr'] if c.get('attr') else ''}]: {text}",
                     c)
        evaluated.append((c, ev))
    full = {(cn, a) for cn in K.CLASSES for a in class_attrs(cn)}
    ctx.coverage["perturbation_matrix"] = {"classes": len(K.CLASSES), "class_x_parameter_cells": len(full),
                                           "cells_with_a_constructible_change": len(full & matrix),
                                           "cells_without": sorted(f"{c}.{a}" for c, a in full - matrix),
                                           "exhaustive": True}
    ctx.coverage["generation"] = stats
    ctx.log(f"oracle cases={len(evaluated)} failures={len(ctx.failures)} matrix={len(full & matrix)}/{len(full)}")
    if ok:
        corr(ctx, evaluated, ctx.n(80, 600))
    if (ctx.proof_breaks or ctx.corr_breaks) and not ctx.failures:
        ctx.log(f"proof/correspondence broke ({len(ctx.proof_breaks)}/{len(ctx.corr_breaks)}); widening the search")
        around = sorted({b["case"]["cls"] for b in ctx.corr_breaks if isinstance(b.get("case"), dict)}) or None
        more = gen_cases(ctx.rng, n_inst * (8 if around else 3), per_attr=6, classes=around)
        for c in more:
            ev = evaluate(c)
            if ev is None:
                continue
            ctx.count({"cls": c["cls"], "x": c["x"], "y": c.get("y"), "rel": c["rel"]}, c["rel"] != "same", "widened")
            for kind, text in ev["verdict"]:
                ctx.fail(signature(c, kind), f"{c['cls']} [{c['rel']} {c.get('attr')}]: {text}", c)
    return ctx.finish(RULE, assumptions=ASSUME)
