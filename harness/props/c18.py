"""C18 — read-only operations do not change scenarios or planning problems.
oracle: random sequences (<= 10) of read-only operations on generated scenarios and on scenarios obtained by
        reading a written XML / protobuf file; after every operation, and after each of the two exports that follow
        it, the structural snapshot (raw stored data, caches excluded, attribute sets of states, dict key sets,
        container types; numpy arrays by value and dtype, also the arrays inside shapes that serve as uncertain
        positions) is compared with the one taken before the sequence, the exported XML and protobuf bytes (date
        aside) with the first export, and the answer of a lanelet lookup with the first answer.  The snapshot code is
        the harness's own (reads instance dictionaries and slots only), so whatever changes is attributed to the
        operation that ran last.  Scenarios ("wide": 1) also hold obstacles with uncertain states (position regions of
        every shape kind, orientation intervals; float and integer coordinates) and shapes whose reference point is
        off the centre, and several intersections with several incoming elements and crossings; drawing uses any
        setting of the boolean flags of the draw-parameter tree (read off MPDrawParams), time windows, parameters
        given to the renderer, per call, or part by part.
corr:   the code version ([code] of Model/ReadOnly.v: heading derived on a copy? goal-lanelet table tested before
        indexing?) is read off the syntax trees of the two anchored functions on every run (fail-closed: anything
        but the repaired version breaks the obligation the theorems rest on);
        Model/ReadOnly.v run by vm_compute on the same sequences predicts, after every step, the attribute-name
        lists and the stored values (digest) of all trajectory states, the other stored data of every obstacle
        (digest), the id sets of every intersection and incoming element, every goal-lanelet table (container kind +
        items), and which caches / lazily filled fields exist with which contents (occupancy sets, lanelet distances,
        spatial index, memoised light-cycle times); compared inside Coq with what is read off the real objects
        (Corr/C18.v)."""
import ast
import atexit
import contextlib
import copy
import dataclasses
import enum
import hashlib
import io
import json
import logging
import os
import pickle
import random
import re
import shutil
import tempfile
import warnings
from collections import defaultdict

import numpy as np

from vlib import scen
from vlib.core import outcome_of, qz, qb, qlist, qopt, sha
from vlib.flow import load_corpus

from props import c11_objs as O

from commonroad.common.file_reader import CommonRoadFileReader
from commonroad.common.file_writer import CommonRoadFileWriter
from commonroad.common.util import AngleInterval, FileFormat, Interval
from commonroad.common.writer.file_writer_interface import OverwriteExistingFile
from commonroad.geometry.shape import Circle, Polygon, Rectangle, Shape, ShapeGroup
from commonroad.prediction.prediction import SetBasedPrediction, TrajectoryPrediction
from commonroad.scenario.intersection import Intersection, IntersectionIncomingElement
from commonroad.scenario.obstacle import (DynamicObstacle, EnvironmentObstacle, ObstacleType, PhantomObstacle,
                                          StaticObstacle)
from commonroad.scenario.scenario import Scenario, ScenarioID, Tag
from commonroad.scenario.state import CustomState, InitialState, KSState, PMState, STState
from commonroad.scenario.trajectory import Trajectory

RULE = ("cases = (scenario seed, source in {generated, read back from XML, read back from protobuf}, <= 10 read-only "
        "ops) over: scenario / obstacle occupancy and state queries, occupancy_set, lanelet lookup by position / shape / "
        "id, obstacles_by_position_intervals, lanelet distance / inner_distance / polygon / interpolate / contains / "
        "get_obstacles, traffic-light state, is_reached / goal_reached (random states and the scenario's own states and "
        "trajectories), == and != on scenario, planning problems and parts, hash of every part (TypeError guarded), "
        "str / repr, copy.copy, copy.deepcopy, pickle dumps+loads, draw + render (MPRenderer, Agg; draw parameters = "
        "the defaults with any subset of the boolean flags of the MPDrawParams tree negated: none / a few / all on / "
        "random half / all negated / one section on; time window 0-5 + 0-12; parameters given to the renderer, with "
        "every draw call, or the parts drawn one by one), XML write, protobuf write; every op is followed by an XML and "
        "a protobuf export.  Scenarios contain the four obstacle roles, trajectories of KS / PM / ST / custom states "
        "incl. custom states with velocity + velocity_y and no orientation (and, rarely, with neither), goal regions "
        "with partial lanelet tables; cases with wide=1 (all generated ones) add 0-2 intersections with 1-3 incoming "
        "elements each (successors right / straight / left, crossings, left_of) and 0-2 obstacles with uncertain initial "
        "and trajectory states (position = Rectangle / Circle / Polygon region, orientation = AngleInterval, velocity "
        "interval; float coordinates, 15 % integer arrays) and an obstacle shape off its reference point (Rectangle / "
        "Circle with centre != 0, polygon referenced at the rear axle, random polygon, ShapeGroup).  "
        "distinct = distinct case dicts; "
        "non-trivial = the sequence contains an occupancy query, a lanelet / light query, a copy or a draw")
ASSUME = ["observe = structural snapshot of every stored attribute reachable from the scenario and the planning "
          "problem set (instance dictionaries and slots, recursively; numpy arrays by value and dtype, including the "
          "centre / vertex arrays of shapes stored as uncertain positions; container types and dict key sets), except "
          "the cache fields (occupancy_set, _initial_occupancy_shape, lanelet _polygon / "
          "_distance / _inner_distance, network _buffered_polygons / _strtee / _lanelet_id_index_by_id, "
          "_cycle_init_timesteps, shape vertices / shapely objects), plus exported XML and protobuf bytes with the date "
          "removed",
          "an exception raised by a read-only operation is not judged here (C01-C03, C12, C19 judge totality); the "
          "comparison is made all the same",
          "each export uses a new writer object with the same arguments (C15 judges writer reuse)",
          "Coq model: which occupancy sets / lanelet distances / light cycles the renderer asks for is an oracle input of "
          "the Draw operation (read off the real objects), as is the draw_intersections flag; stored values enter the "
          "model as digests (one number per trajectory state and per obstacle), the id sets of intersections as sorted "
          "lists; shape-level caches (Rectangle._vertices, shapely objects) and numeric contents of occupancies / "
          "distances are outside the model",
          "draw parameters: boolean flags and the time window only (colours, line widths, zorder etc. keep their "
          "defaults); a flag set on a node is passed on to the nodes below by the library itself"]

# cache fields by (class name, attribute) or attribute alone
SKIP = set(scen.CACHE_FIELDS) | {"_Rectangle__shapely_polygon", "_shapely_circle"}
SKIP_CLS = {("Rectangle", "_vertices")}


def snapshot(obj, _depth=0):
    """JSON-able structural snapshot of the raw stored data (caches excluded); container types are recorded"""
    if _depth > 40:
        return "<deep>"
    if obj is None or isinstance(obj, (bool, str)):
        return obj
    if isinstance(obj, (int, np.integer)):
        return int(obj)
    if isinstance(obj, (float, np.floating)):
        return float(obj)
    if isinstance(obj, enum.Enum):
        return f"{type(obj).__name__}.{obj.name}"
    if isinstance(obj, np.ndarray):
        return ["nd", str(obj.dtype)] + obj.tolist()
    if isinstance(obj, (list, tuple)):
        return [type(obj).__name__] + [snapshot(x, _depth + 1) for x in obj]
    if isinstance(obj, (set, frozenset)):
        return [type(obj).__name__] + sorted((snapshot(x, _depth + 1) for x in obj), key=repr)
    if isinstance(obj, dict):
        items = [[snapshot(k, _depth + 1), snapshot(v, _depth + 1)] for k, v in obj.items()]
        return {"__dict__": sorted(items, key=lambda kv: repr(kv[0])), "__type__": type(obj).__name__}
    d = raw_fields(obj)
    if not d and not hasattr(obj, "__dict__"):
        return repr(obj)
    cn = type(obj).__name__
    out = {"__class__": cn}
    for k in sorted(d):
        if k in SKIP or (cn, k) in SKIP_CLS or k.startswith("__"):
            continue
        out[k] = snapshot(d[k], _depth + 1)
    return out


def raw_fields(obj):
    """instance dictionary and slots of an object"""
    d = {}
    if hasattr(obj, "__dict__"):
        d.update(vars(obj))
    for cls in type(obj).__mro__:
        for s in getattr(cls, "__slots__", ()):
            if hasattr(obj, s):
                d[s] = getattr(obj, s)
    return d


def digest(obj, without=()):
    """the stored values below an object (snapshot: arrays by value, also those nested in shapes used as positions) as
    one 56-bit number; [without]: fields of the object itself that are left out"""
    if without:
        snap = [type(obj).__name__] + [[k, snapshot(v)] for k, v in sorted(raw_fields(obj).items())
                                       if k not in without and k not in SKIP]
    else:
        snap = snapshot(obj)
    return int.from_bytes(hashlib.sha1(json.dumps(snap, sort_keys=True, default=str).encode()).digest()[:7], "big")


@contextlib.contextmanager
def quiet():
    """the writers print to stdout"""
    prev = logging.root.manager.disable
    logging.disable(logging.CRITICAL)
    try:
        with contextlib.redirect_stdout(io.StringIO()), warnings.catch_warnings():
            warnings.simplefilter("ignore")
            yield
    finally:
        logging.disable(prev)


# ------------------------------------------------------------------------------------------ scenarios
def headless_traj(rng, t0, n):
    """custom states with a position and a velocity only: no heading can be derived for them"""
    x, y = scen.rnd(rng, -5, 10), scen.rnd(rng, 0, 6)
    return Trajectory(t0, [CustomState(time_step=t0 + i, position=np.array([round(x + 1.5 * i, 3), y]),
                                       velocity=scen.rnd(rng, 1, 9)) for i in range(n)])


def off_centre_shape(rng):
    """an obstacle shape whose reference point is not the centre of its bounding box"""
    k = rng.choice(["rect", "circ", "poly", "rear", "rear", "group"])
    if k == "rear":   # vehicle outline referenced at the rear axle
        ln, w, r = scen.rnd(rng, 2, 6), scen.rnd(rng, 1, 2.5), scen.rnd(rng, 0.2, 1.5)
        return Polygon(np.array([[-r, -w / 2], [-r, w / 2], [ln - r, w / 2], [ln - r, -w / 2]]))
    if k == "rect":
        return Rectangle(scen.rnd(rng, 1, 6), scen.rnd(rng, 0.5, 3), np.array([scen.rnd(rng, -2, 2), scen.rnd(rng, -1, 1)]),
                         rng.choice([0.0, scen.rnd(rng, -1.5, 1.5)]))
    return scen.rand_shape(rng, (k,), False, 0.7)


def uncertain_traj(rng, t0, n):
    """trajectory whose states have position regions (rectangle / circle / polygon) and / or orientation intervals;
    coordinates are floats, now and then integers"""
    cls = rng.choice([KSState, KSState, PMState, STState, CustomState, "custom_vy"])
    if cls == "custom_vy":
        traj = O.gen_traj(rng, t0, n, "custom_vy")
        for st in traj.state_list:
            if rng.random() < 0.6:
                st.position = scen.rand_shape(rng, ("rect", "circ", "poly"), False)
    else:
        traj = scen.rand_trajectory(rng, t0, n, cls, uncertain=True)
    if rng.random() < 0.15:
        for st in traj.state_list:
            if isinstance(st.position, np.ndarray):
                st.position = np.array([int(round(st.position[0])), int(round(st.position[1]))])
    return traj


def widen(rng, sc, oid):
    """more of a scenario: further intersections (several incoming elements, successors to the right / straight /
    left, crossings) and obstacles with uncertain states and off-centre shapes"""
    net = sc.lanelet_network
    ids = [la.lanelet_id for la in net.lanelets]

    def some(lo, hi):
        return set(rng.sample(ids, min(len(ids), rng.randint(lo, hi))))
    nid = 300
    for _ in range(rng.choice([0, 1, 1, 2])):
        incs = []
        for _ in range(rng.randint(1, 3)):
            incs.append(IntersectionIncomingElement(nid, some(1, 2), successors_right=some(0, 2),
                                                    successors_straight=some(0, 2), successors_left=some(0, 2),
                                                    left_of=incs[-1].incoming_id if incs and rng.random() < 0.4
                                                    else None))
            nid += 1
        net.add_intersection(Intersection(nid, incs, crossings=some(0, 2)))
        nid += 1
    for _ in range(rng.choice([0, 1, 1, 2])):
        t0 = rng.choice([0, 0, 2])
        shape = off_centre_shape(rng) if rng.random() < 0.8 else scen.rand_shape(rng, ("rect", "circ"))
        init = scen.rand_state(rng, InitialState, t0, uncertain=rng.random() < 0.6)
        role = rng.choice(["traj", "traj", "traj", "traj", "static", "none"])
        if role == "static":
            sc.add_objects(StaticObstacle(oid, ObstacleType.PARKED_VEHICLE, shape, init))
        elif role == "none":
            sc.add_objects(DynamicObstacle(oid, ObstacleType.CAR, shape, init, None))
        else:
            traj = uncertain_traj(rng, t0 + 1, rng.randint(1, 4))
            sc.add_objects(DynamicObstacle(oid, rng.choice([ObstacleType.CAR, ObstacleType.TRUCK, ObstacleType.BICYCLE]),
                                           shape, init, TrajectoryPrediction(traj, shape)))
        oid += 1


def gen_scenario(rng, wide=False):
    net = scen.rand_network(rng)
    sc = Scenario(0.1, ScenarioID(False, "ZAM", "Test", rng.randint(1, 9), rng.randint(1, 9), "T", 1),
                  author="a", tags={Tag.URBAN, Tag.HIGHWAY} if rng.random() < 0.5 else {Tag.URBAN},
                  affiliation="b", source="c")
    sc.add_objects(net)
    oid = 500
    for _ in range(rng.randint(1, 4)):
        sc.add_objects(scen.rand_obstacle(rng, oid))
        oid += 1
    if rng.random() < 0.6:
        # trajectory of custom states that carry velocity / velocity_y and no orientation attribute
        t0 = rng.choice([0, 0, 2])
        shape = scen.rand_shape(rng, ("rect", "circ"))
        init = scen.rand_state(rng, InitialState, t0)
        n = rng.randint(1, 4)
        traj = O.gen_traj(rng, t0 + 1, n, "custom_vy")
        if rng.random() < 0.3:   # mixed: some states have an orientation already
            for st in traj.state_list[: rng.randint(1, n)]:
                if rng.random() < 0.6:
                    st.add_attribute("orientation")
                    st.set_value("orientation", scen.rnd(rng, -3, 3))
        sc.add_objects(DynamicObstacle(oid, ObstacleType.CAR, shape, init, TrajectoryPrediction(traj, shape)))
        oid += 1
    if rng.random() < 0.12:
        t0 = rng.choice([0, 2])
        shape = scen.rand_shape(rng, ("rect", "circ"))
        traj = headless_traj(rng, t0 + 1, rng.randint(1, 3))
        if rng.random() < 0.5:   # the first state has both velocity components, the rest none
            traj.state_list[0].add_attribute("velocity_y")
            traj.state_list[0].set_value("velocity_y", 0.5)
        sc.add_objects(DynamicObstacle(oid, ObstacleType.CAR, shape, scen.rand_state(rng, InitialState, t0),
                                       TrajectoryPrediction(traj, shape)))
    ids = [la.lanelet_id for la in sc.lanelet_network.lanelets]
    pps = scen.rand_planning_problem_set(rng, lanelet_ids=ids)
    if wide:   # after everything else: the scenarios of earlier replays (no "wide" key) stay what they were
        widen(rng, sc, 600)
        if rng.random() < 0.5:
            # a lanelet built with mandatory arguments only: no lanelet type, no users, default line markings (what a
            # programmatically built map or a protobuf file without types holds)
            import numpy as _np
            from commonroad.scenario.lanelet import Lanelet as _Lanelet
            x0 = 200.0 + rng.randint(0, 5)
            sc.add_objects(_Lanelet(_np.array([[x0, 3.0], [x0 + 10, 3.0]]), _np.array([[x0, 1.5], [x0 + 10, 1.5]]),
                                    _np.array([[x0, 0.0], [x0 + 10, 0.0]]), 97))
        if rng.random() < 0.4 and sc.lanelet_network.lanelets:
            # one lanelet was corrected after it had been added (its own translate_rotate: the network's spatial index
            # is documented to lag behind until the next structural operation); no read-only operation may catch up
            import numpy as _np
            lls = sc.lanelet_network.lanelets
            lls[rng.randrange(len(lls))].translate_rotate(_np.array([0.75, -0.5]), 0.0)
    return sc, pps


def export_bytes(sc, pps, fmt, workdir):
    """the file a new writer produces, date removed; ['ok', digest] | ['exc', name]"""
    path = os.path.join(workdir, "x.xml" if fmt == "xml" else "x.pb")
    try:
        with quiet():
            # author / affiliation / source / tags differ from the scenario's own: the writer must not store them
            w = CommonRoadFileWriter(sc, pps, "wa", "wb", "wc", {Tag.INTERSTATE},
                                     file_format=FileFormat.XML if fmt == "xml" else FileFormat.PROTOBUF)
            w.write_to_file(path, OverwriteExistingFile.ALWAYS)
        data = open(path, "rb").read()
    except Exception as e:  # noqa  (totality of the writers is C01-C03's business)
        return ["exc", type(e).__name__]
    if fmt == "xml":
        data = re.sub(rb'date="[^"]*"', b'date=""', data)
    else:
        from commonroad.scenario_definition.protobuf_format.generated_scripts import commonroad_pb2
        msg = commonroad_pb2.CommonRoad()
        msg.ParseFromString(data)
        for f in msg.information.date.DESCRIPTOR.fields:   # the date is a required field: blank its parts
            if msg.information.date.HasField(f.name):
                setattr(msg.information.date, f.name, 0)
        data = msg.SerializeToString(deterministic=True)
    return ["ok", hashlib.sha1(data).hexdigest()]


FALLBACK = {}
COVER = {}


def _off_centre(shape):
    """raw data only: is the reference point of the shape away from the centre of its bounding box?"""
    if isinstance(shape, ShapeGroup):
        return True
    if isinstance(shape, Polygon):
        v = np.asarray(shape._vertices, dtype=float)
        return bool(np.linalg.norm((v.min(axis=0) + v.max(axis=0)) / 2.0) > 1e-9)
    return bool(np.linalg.norm(np.asarray(shape._center, dtype=float)) > 1e-12)


def _uncertain(st):
    d = raw_fields(st)
    return isinstance(d.get("position"), Shape) or isinstance(d.get("orientation"), AngleInterval)


def cover(case, sc):
    """which of the generator dimensions a case reaches (for the evidence)"""
    def hit(k):
        COVER[k] = COVER.get(k, 0) + 1
    unc = off = both = False
    for o in sc.dynamic_obstacles:
        p = o._prediction
        if isinstance(p, TrajectoryPrediction):
            u = any(_uncertain(st) for st in p._trajectory._state_list)
            f = _off_centre(p._shape)
            unc, off, both = unc or u, off or f, both or (u and f)
    if unc:
        hit("scenario_with_uncertain_trajectory_state")
    if off:
        hit("scenario_with_off_centre_obstacle_shape")
    if both:
        hit("scenario_with_uncertain_state_and_off_centre_shape")
    if any(_uncertain(o._initial_state) for o in sc.dynamic_obstacles + sc.static_obstacles):
        hit("scenario_with_uncertain_initial_state")
    xs = sc.lanelet_network.intersections
    if sum(len(x._incomings) for x in xs) >= 2:
        hit("scenario_with_2_or_more_incoming_elements")
    if len(xs) >= 2:
        hit("scenario_with_2_or_more_intersections")
    for op in case["ops"]:
        if op[0] == "draw":
            hit("draw")
            flips = op[4] if len(op) > 4 else []
            if flips:
                hit("draw_with_non_default_flags")
            if flips.count("lanelet_network.intersection.draw_intersections") % 2:
                hit("draw_with_intersections_highlighted")
            if len(op) > 3 and op[3]:
                hit("draw_parameters_per_call_or_part_by_part")


def make(case, workdir):
    rng = random.Random(case["seed"])
    wide = bool(case.get("wide"))
    sc, pps = gen_scenario(rng, wide)
    src = case["source"]
    if src == "gen":
        return sc, pps
    fmt = FileFormat.XML if src == "xml" else FileFormat.PROTOBUF
    path = os.path.join(workdir, "src.xml" if src == "xml" else "src.pb")
    try:
        with quiet():
            CommonRoadFileWriter(sc, pps, "a", "b", "c", {Tag.URBAN}, file_format=fmt).write_to_file(
                path, OverwriteExistingFile.ALWAYS)
            return CommonRoadFileReader(path).open()
    except Exception:  # noqa  (a generated scenario the format cannot hold: judged by C01-C03; use it as generated)
        FALLBACK[src] = FALLBACK.get(src, 0) + 1
        rng = random.Random(case["seed"])
        return gen_scenario(rng, wide)


# ------------------------------------------------------------------------------------------ model state
_ATTR = {"position": "Position", "orientation": "Orientation", "velocity": "Velocity", "velocity_y": "VelocityY"}
_OTHER = {}


def q_attr(name):
    if name in _ATTR:
        return _ATTR[name]
    if name not in _OTHER:
        _OTHER[name] = len(_OTHER) + 1
    return f"(Other {_OTHER[name]})"


def q_nat(k):
    return f"{int(k)}%nat"


def zl(xs):
    return qlist([qz(x) for x in xs])


def m_tstate(st):
    prop = isinstance(getattr(type(st), "orientation", None), property)
    return [int(st.time_step), list(vars(st).keys()), prop, digest(st)]


def m_pred(p):
    if p is None:
        return ["none"]
    if isinstance(p, TrajectoryPrediction):
        occ = p.__dict__.get("occupancy_set")
        return ["traj", [m_tstate(st) for st in p.trajectory.state_list],
                None if occ is None else [int(o.time_step) for o in occ]]
    return ["set", [int(o.time_step) for o in p._occupancy_set]]


def m_obst(o):
    # the obstacle's own stored data; of a trajectory prediction everything but the trajectory (modelled state by state)
    p = getattr(o, "_prediction", None)
    val = digest([digest(o, without=("_prediction",)),
                  digest(p, without=("_trajectory",)) if isinstance(p, TrajectoryPrediction) else digest(p)])
    if isinstance(o, StaticObstacle):
        return ["Static", int(o.initial_state.time_step), ["none"], val]
    if isinstance(o, DynamicObstacle):
        return ["Dynamic", int(o.initial_state.time_step), m_pred(o._prediction), val]
    if isinstance(o, PhantomObstacle):
        return ["Phantom", 0, m_pred(o._prediction), val]
    return ["Env", 0, ["none"], val]


def _idl(x):
    return sorted(int(v) for v in (x or ()))


def m_inters(net):
    return [[int(x._intersection_id),
             [[int(i._incoming_id), _idl(i._incoming_lanelets), _idl(i._successors_right), _idl(i._successors_straight),
               _idl(i._successors_left)] for i in x._incomings], _idl(x._crossings)] for x in net.intersections]


def m_state(sc, pps):
    """the model state (Model/ReadOnly.v) read off the real objects; raw fields only"""
    net = sc.lanelet_network
    lls = [[int(la.lanelet_id), la._distance is not None, la._inner_distance is not None] for la in net.lanelets]
    tree = None
    if getattr(net, "_strtee", None) is not None:
        idx = net._lanelet_id_index_by_id
        geoms = list(net._strtee.geometries)
        tree = [int(idx[id(g)]) for g in geoms] if all(id(g) in idx for g in geoms) else \
            ["unindexed"] * len(geoms)
    lights = []
    for t in net.traffic_lights:
        cy = t.traffic_light_cycle
        if cy is None:
            lights.append(None)
        else:
            cum = cy.__dict__.get("_cycle_init_timesteps")
            lights.append([[int(e.duration) for e in cy.cycle_elements], int(cy.time_offset),
                           None if cum is None else [int(x) for x in cum]])
    goals = []
    for pp in pps.planning_problem_dict.values():
        tab = pp.goal._lanelets_of_goal_position
        kind = "none" if tab is None else "default" if isinstance(tab, defaultdict) else "dict"
        goals.append([len(pp.goal.state_list), kind,
                      [] if tab is None else [[int(k), [int(x) for x in v]] for k, v in tab.items()]])
    return {"obst": [m_obst(o) for o in sc.obstacles], "lanelets": lls,
            "buffered": [int(k) for k in net._buffered_polygons.keys()], "tree": tree, "lights": lights,
            "goals": goals, "inters": m_inters(net)}


def q_tstate(t):
    return f"(Build_tstate {qz(t[0])} {qlist([q_attr(a) for a in t[1]])} {qb(t[2])} {qz(t[3])})"


def q_pred(p):
    if p[0] == "none":
        return "PNone"
    if p[0] == "set":
        return f"(PSet {zl(p[1])})"
    return f"(PTraj {qlist([q_tstate(t) for t in p[1]])} {qopt(p[2], zl)})"


def q_state(m):
    obst = qlist([f"(Build_obst {o[0]} {qz(o[1])} {q_pred(o[2])} {qz(o[3])})" for o in m["obst"]])
    lls = qlist([f"(Build_lanelet {qz(x[0])} {qb(x[1])} {qb(x[2])})" for x in m["lanelets"]])
    lights = qlist(["None" if c is None else f"(Some (Build_cycle {zl(c[0])} {qz(c[1])} {qopt(c[2], zl)}))"
                    for c in m["lights"]])
    tree = m["tree"]
    if tree is not None and any(x == "unindexed" for x in tree):
        tree = [-1] * len(tree)
    inters = qlist([f"(Build_inter {qz(x[0])} "
                    + qlist([f"(Build_incoming {qz(i[0])} {zl(i[1])} {zl(i[2])} {zl(i[3])} {zl(i[4])})" for i in x[1]])
                    + f" {zl(x[2])})" for x in m["inters"]])
    net = f"(Build_net {lls} {zl(m['buffered'])} {qopt(tree, zl)} {lights} {inters})"
    kv = lambda items: qlist([f"({qz(k)}, {zl(v)})" for k, v in items])  # noqa
    goals = qlist([f"(Build_goal {q_nat(g[0])} "
                   + ("TNone" if g[1] == "none" else f"(TDefault {kv(g[2])})" if g[1] == "default"
                      else f"(TDict {kv(g[2])})") + ")" for g in m["goals"]])
    return f"(Build_scen {obst} {net} {goals})"


# ------------------------------------------------------------------------------------------ draw parameters
def _flag_paths(node, prefix=""):
    out = []
    for f in dataclasses.fields(node):
        if f.name.startswith("_"):
            continue
        v = getattr(node, f.name)
        if isinstance(v, bool):
            out.append(prefix + f.name)
        elif dataclasses.is_dataclass(v):
            out.extend(_flag_paths(v, prefix + f.name + "."))
    return out


_FLAGS = []


def draw_flags():
    """the paths of all boolean flags of the draw-parameter tree (read off MPDrawParams)"""
    if not _FLAGS:
        from commonroad.visualization.draw_params import MPDrawParams
        _FLAGS.extend(_flag_paths(MPDrawParams()))
    return _FLAGS


def _node(params, path):
    parts = path.split(".")
    for a in parts[:-1]:
        params = getattr(params, a)
    return params, parts[-1]


def make_params(t0, t1, flips):
    """draw parameters: the defaults with the named flags negated (in order; a flag set on a node is passed on to
    the nodes below by the library) and the time window"""
    from commonroad.visualization.draw_params import MPDrawParams
    params = MPDrawParams()
    for path in flips:
        node, name = _node(params, path)
        setattr(node, name, not getattr(node, name))
    params.time_begin = t0
    params.time_end = t1
    return params


def gen_flips(rng):
    flags = draw_flags()
    mode = rng.choice(["default", "default", "few", "few", "all_on", "all_on", "random", "random", "random", "invert",
                       "section", "section"])
    if mode == "default":
        return []
    if mode == "few":
        return sorted(rng.sample(flags, rng.randint(1, 6)))
    if mode == "invert":
        return list(flags)
    from commonroad.visualization.draw_params import MPDrawParams
    dflt = MPDrawParams()

    def is_on(path):
        node, name = _node(dflt, path)
        return getattr(node, name)
    # "antialiased" is passed down from every node: leave it alone here, or later entries would undo earlier ones
    cand = [f for f in flags if not f.endswith("antialiased")]
    if mode == "all_on":
        return [f for f in cand if not is_on(f)]
    if mode == "section":   # every flag of one top-level section on, and a few others negated
        sec = rng.choice(sorted({f.split(".")[0] for f in cand if "." in f}))
        return [f for f in cand if f.startswith(sec + ".") and not is_on(f)] + rng.sample(cand, rng.randint(0, 3))
    return [f for f in cand if rng.random() < 0.5]


# ------------------------------------------------------------------------------------------ read-only operations
def _pick(xs, i):
    return xs[i % len(xs)] if xs else None


def _try_hash(x):
    try:
        hash(x)
    except TypeError:  # unhashable classes are C12's finding, not C18's
        pass


def _index(sc, o):
    for k, x in enumerate(sc.obstacles):
        if x is o:
            return k
    raise ValueError("obstacle not contained")


def _has_headless(sc):
    for o in sc.dynamic_obstacles:
        if isinstance(o.prediction, TrajectoryPrediction):
            for st in o.prediction.trajectory.state_list:
                if not hasattr(st, "orientation") and not (hasattr(st, "velocity_y") and hasattr(st, "velocity")):
                    return True
    return False


def _own_state(sc, pps, sel):
    """a state object that belongs to the scenario / the planning problems"""
    cands = [pp.initial_state for pp in pps.planning_problem_dict.values()]
    for o in sc.dynamic_obstacles + sc.static_obstacles:
        cands.append(o.initial_state)
        if isinstance(getattr(o, "prediction", None), TrajectoryPrediction):
            cands.extend(o.prediction.trajectory.state_list)
    return _pick(cands, sel)


def prims(sc, pps, op, workdir, other, other_case=None):
    """the primitive calls of a harness operation: list of (model op term | callable(before, after) | None, thunk)"""
    name = op[0]
    net = sc.lanelet_network
    out = []
    if name == "occs":
        out.append((f"(OccsAt {qz(op[1])})", lambda: sc.occupancies_at_time_step(op[1])))
    elif name == "occ":
        o = _pick(sc.obstacles, op[1])
        if o is not None:
            out.append((f"(OccAt {q_nat(_index(sc, o))} {qz(op[2])})", lambda: o.occupancy_at_time(op[2])))
    elif name == "occset":
        o = _pick([x for x in sc.dynamic_obstacles if x.prediction is not None], op[1])
        if o is not None:
            out.append((f"(OccSet {q_nat(_index(sc, o))})", lambda: len(o.prediction.occupancy_set)))
    elif name == "state":
        o = _pick(sc.dynamic_obstacles + sc.static_obstacles, op[1])
        if o is not None:
            out.append((f"(StateAt {q_nat(_index(sc, o))} {qz(op[2])})", lambda: o.state_at_time(op[2])))
    elif name == "states":
        out.append((f"(StatesAt {qz(op[1])})", lambda: sc.obstacle_states_at_time_step(op[1])))
    elif name == "by_pos":
        lls = net.lanelets
        pts = [np.array(_pick(lls, i).center_vertices[j % len(_pick(lls, i).center_vertices)][:2]) + np.array([dx, dy])
               for i, j, dx, dy in op[1]]
        out.append(("FindPos", lambda: net.find_lanelet_by_position(pts)))
        if _has_headless(sc):
            # an AttributeError would end the loop over the obstacles half way: ask at time 0, before every prediction
            out.append((None, lambda: sc.obstacles_by_position_intervals([Interval(-10, 30), Interval(-5, 10)])))
        else:
            t = op[2]
            for o in sc.dynamic_obstacles:   # one call; written as the occupancy queries it makes
                out.append((f"(OccAt {q_nat(_index(sc, o))} {qz(t)})", None))
            out.append((None, lambda: sc.obstacles_by_position_intervals([Interval(-10, 30), Interval(-5, 10)],
                                                                         time_step=t)))
    elif name == "by_shape":
        la = _pick(net.lanelets, op[1])
        c = np.array(la.center_vertices[op[2] % len(la.center_vertices)][:2])
        shp = Rectangle(op[3], op[4], c, op[5]) if op[6] == "rect" else Circle(op[3], c)
        out.append(("FindShape", lambda: net.find_lanelet_by_shape(shp)))
    elif name == "lanelet":
        k = op[1] % len(net.lanelets)
        la = net.lanelets[k]

        def q():
            la.distance, la.inner_distance, la.polygon.vertices
            la.interpolate_position(float(la.distance[-1]) * op[2])
            la.contains_points(np.array([la.center_vertices[0][:2]]))
        out.append((f"(LaneletQ {q_nat(k)})", q))
        out.append(("FindId", lambda: (net.find_lanelet_by_id(la.lanelet_id), net.map_inc_lanelets_to_intersections)))
        obs = sc.dynamic_obstacles + sc.static_obstacles
        out.append((f"(GetObstacles {qlist([q_nat(_index(sc, o)) for o in obs])} {qz(op[3])})",
                    lambda: la.get_obstacles(obs, op[3])))
    elif name == "interp":
        k = op[1] % len(net.lanelets)
        la = net.lanelets[k]
        out.append((f"(LaneletDist {q_nat(k)})", lambda: la.interpolate_position(0.0)))
    elif name == "light":
        if net.traffic_lights:
            k = op[1] % len(net.traffic_lights)
            t = net.traffic_lights[k]
            if t.traffic_light_cycle is not None and t.traffic_light_cycle.cycle_elements:
                out.append((f"(LightAt {q_nat(k)} {qz(op[2])})", lambda: t.get_state_at_time_step(op[2])))
    elif name == "is_reached":
        pp = _pick(list(pps.planning_problem_dict.values()), op[1])
        rng = random.Random(op[2])
        if len(op) > 3 and op[3] is not None:
            st = _own_state(sc, pps, op[3])
        else:
            st = scen.rand_state(rng, rng.choice([KSState, InitialState, scen.PMState, scen.STState]),
                                 rng.randint(0, 30))
        out.append(("IsReached", lambda: pp.goal.is_reached(st)))
    elif name == "goal_reached":
        pp = _pick(list(pps.planning_problem_dict.values()), op[1])
        rng = random.Random(op[2])
        own = [o.prediction.trajectory for o in sc.dynamic_obstacles
               if isinstance(o.prediction, TrajectoryPrediction)]
        if len(op) > 3 and op[3] is not None and own:
            traj = _pick(own, op[3])
        else:
            traj = scen.rand_trajectory(rng, rng.randint(0, 5), rng.randint(1, 5), rng.choice([KSState, scen.STState]))
        out.append(("GoalReached", lambda: pp.goal_reached(traj)))
    elif name == "eq":
        if not other:
            other.extend(make(other_case, workdir))

        def q():
            sc == other[0], pps == other[1], sc != other[0], sc == sc, pps == pps
            for a, b in zip(sc.obstacles, other[0].obstacles):
                a == b
            net == other[0].lanelet_network
        out.append(("EqOp", q))
    elif name == "hash":
        def q():
            for x in [sc, pps, net, sc.scenario_id] + sc.obstacles + net.lanelets + net.traffic_lights + \
                    net.traffic_signs + net.intersections + list(pps.planning_problem_dict.values()):
                _try_hash(x)
            for pp in pps.planning_problem_dict.values():
                _try_hash(pp.goal)
                _try_hash(pp.initial_state)
            for o in sc.dynamic_obstacles:
                _try_hash(o.prediction)
                if isinstance(o.prediction, TrajectoryPrediction):
                    _try_hash(o.prediction.trajectory)
        out.append(("HashOp", q))
    elif name == "str":
        def q():
            str(sc), repr(net), str(pps)
            for o in sc.obstacles:
                str(o), repr(o)
            for pp in pps.planning_problem_dict.values():
                str(pp.goal.state_list), repr(pp.initial_state)
        out.append(("StrOp", q))
    elif name == "deepcopy":
        out.append(("DeepCopy", lambda: (copy.deepcopy(sc), copy.deepcopy(pps), copy.deepcopy(net))))
        out.append(("ShallowCopy", lambda: (copy.copy(sc), copy.copy(pps))))
        # the library's own copying routes: a network cut out of this one only reads it

        def cuts():
            from commonroad.scenario.lanelet import LaneletNetwork as _LN, LaneletType as _LT
            from commonroad.geometry.shape import Rectangle as _R
            lls = net.lanelets
            _LN.create_from_lanelet_network(net)
            _LN.create_from_lanelet_list(list(lls))
            if lls:
                la = lls[len(lls) // 2]
                types = set(la.lanelet_type) or {_LT.URBAN}
                _LN.create_from_lanelet_network(net, exclude_lanelet_types=types)
                c = la.center_vertices[len(la.center_vertices) // 2][:2]
                _LN.create_from_lanelet_network(net, shape_input=_R(6.0, 4.0, np.array([float(c[0]), float(c[1])])))
        out.append(("DeepCopy", cuts))
    elif name == "pickle":
        out.append(("Pickle", lambda: (pickle.loads(pickle.dumps(sc)), pickle.loads(pickle.dumps(pps)))))
    elif name == "draw":
        how = op[3] if len(op) > 3 else 0
        flips = op[4] if len(op) > 4 else []
        hl = [False]

        def q():
            import matplotlib.pyplot as plt
            from commonroad.visualization.mp_renderer import MPRenderer
            fig = plt.figure(figsize=(3, 2))
            errs = []

            def part(f, *a, **kw):   # every part is drawn, whatever an earlier one raised
                try:
                    f(*a, **kw)
                except Exception as e:  # noqa
                    errs.append(e)
            try:
                with quiet():
                    params = make_params(op[1], op[1] + op[2], flips)
                    hl[0] = bool(params.lanelet_network.intersection.draw_intersections)
                    if how == 1:     # parameters given with every call
                        rnd = MPRenderer(ax=fig.gca())
                        part(sc.draw, rnd, draw_params=params)
                        part(pps.draw, rnd, draw_params=params)
                    else:
                        rnd = MPRenderer(ax=fig.gca(), draw_params=params)
                        if how == 2:   # part by part
                            part(net.draw, rnd)
                            for o in sc.obstacles:
                                part(o.draw, rnd)
                            for pp in pps.planning_problem_dict.values():
                                part(pp.draw, rnd)
                        else:
                            part(sc.draw, rnd)
                            part(pps.draw, rnd)
                    part(rnd.render)
            finally:
                plt.close(fig)
            if errs:
                raise errs[0]

        def term(before, after):
            occ = [k for k, (a, b) in enumerate(zip(before["obst"], after["obst"]))
                   if a[2][0] == "traj" and a[2][2] is None and b[2][0] == "traj" and b[2][2] is not None]
            dist = [k for k, (a, b) in enumerate(zip(before["lanelets"], after["lanelets"])) if not a[1] and b[1]]
            cum = [k for k, (a, b) in enumerate(zip(before["lights"], after["lights"]))
                   if a is not None and b is not None and a[2] is None and b[2] is not None]
            nl = lambda ks: qlist([q_nat(k) for k in ks])  # noqa
            return f"(Draw {qb(hl[0])} {nl(occ)} {nl(dist)} {nl(cum)})"
        out.append((term, q))
    elif name == "xml_write":
        out.append(("XmlWrite", lambda: export_bytes(sc, pps, "xml", workdir)))
    elif name == "pb_write":
        out.append(("PbWrite", lambda: export_bytes(sc, pps, "pb", workdir)))
    else:
        raise ValueError(name)
    return out


PREDICTED = ("(OccAt", "(OccsAt", "(OccSet", "(GetObstacles", "FindPos", "FindShape", "(LightAt")


def apply_op(sc, pps, op, workdir, other, want_model=False, other_case=None):
    """runs the primitive calls (each guarded); returns (model op terms, raised-by-a-predicted-op, exception names)"""
    terms, raised, excs = [], False, []
    for term, thunk in prims(sc, pps, op, workdir, other, other_case):
        before = m_state(sc, pps) if want_model and callable(term) else None
        r = ("ok", None)
        if thunk is not None:
            with warnings.catch_warnings():
                warnings.simplefilter("ignore")
                r = outcome_of(thunk)
        if r[0] == "exc":
            excs.append(r[1])
        if callable(term):
            term = term(before, m_state(sc, pps)) if want_model else None
        if term is not None:
            terms.append(term)
            if r[0] == "exc" and term.startswith(PREDICTED):
                raised = True
    return terms, raised, excs


def first_diff(a, b):
    d = scen.diff_snap(a, b, limit=3)
    return d[0] if d else None


def classify(path):
    """the kind of change, for the signature: which attribute of which class changed"""
    m = re.findall(r"\.(_?[A-Za-z_]+)", path)
    tail = [x for x in m if x not in ("__dict__",)]
    return ".".join(tail[-2:]) if tail else "?"


def _short(x, n=260):
    t = str(x)
    return t if len(t) <= n else t[:n] + " ...]"


def run_case(case, workdir, want_model=False):
    """returns (None | (signature, what), trace); trace = (initial model state, [(op terms, raised, model state)])"""
    sc, pps = make(case, workdir)
    if want_model:
        cover(case, sc)
    other = []   # an equal scenario built independently, when an == needs one (a copy would itself be an operation)
    src = case["source"]
    s0 = [snapshot(sc), snapshot(pps)]
    m0 = m_state(sc, pps) if want_model else None
    steps = []
    first = {}

    def changed(opname, i, opdesc, exc=None):
        d = first_diff(s0, [snapshot(sc), snapshot(pps)])
        if d:
            return (f"{opname}:{src}:{classify(d)}",
                    f"step {i} {_short(opdesc)} on a scenario (seed {case['seed']}, {src}) changed stored data: {d[:200]}"
                    + (f" (the operation raised {exc})" if exc else ""))
        return None

    def exports(i, opdesc):
        """the two exports that follow every step: each must leave the data alone and equal the first export"""
        for fmt in ("xml", "pb"):
            e = export_bytes(sc, pps, fmt, workdir)
            r = changed(f"{fmt}_write", i, f"{fmt} export after {opdesc}")
            if r:
                return r
            if fmt not in first:
                first[fmt] = e
            elif e != first[fmt]:
                return (f"{opdesc[0] if isinstance(opdesc, list) else 'export'}:{src}:export-{fmt}",
                        f"step {i} {_short(opdesc)} on a scenario (seed {case['seed']}, {src}): the exported {fmt} file "
                        f"differs from the export before the sequence ({first[fmt]} -> {e})")
        return None

    r = exports(-1, "the start")
    if r:
        return r, None
    pts = [np.array(la.center_vertices[len(la.center_vertices) // 2][:2]) for la in sc.lanelet_network.lanelets[:4]]

    def probe():
        """a lookup that touches no lazily filled field: it must keep answering as at the start"""
        with warnings.catch_warnings():
            warnings.simplefilter("ignore")
            r = outcome_of(sc.lanelet_network.find_lanelet_by_position, pts)
        return [r[0], [sorted(x) for x in r[1]] if r[0] == "ok" else r[1]]
    p0 = probe()
    if want_model:   # the first exports are part of the history the model replays
        steps.append(([], False, m_state(sc, pps)))
    for i, op in enumerate(case["ops"]):
        terms, raised, excs = apply_op(sc, pps, op, workdir, other, want_model, case)
        r = changed(op[0], i, op, excs[0] if excs else None)
        if not r and probe() != p0:
            r = (f"{op[0]}:{src}:lookup-answer",
                 f"step {i} {_short(op)} on a scenario (seed {case['seed']}, {src}): find_lanelet_by_position answered {p0} "
                 f"before the sequence and {probe()} after this operation")
        r = r or exports(i, op)
        if r:
            return r, None
        if want_model:
            steps.append((terms, raised, m_state(sc, pps)))
    return None, (m0, steps)


_WORK = None


def workdir():
    global _WORK
    if _WORK is None:
        _WORK = tempfile.mkdtemp(prefix="c18-run-", dir="/var/tmp" if os.path.isdir("/var/tmp") else None)
        atexit.register(shutil.rmtree, _WORK, True)
    return _WORK


def oracle(case):
    return run_case(case, workdir())[0]


# ------------------------------------------------------------------------------------------ generators
OPS = ["occs", "occs", "occ", "occ", "occset", "occset", "state", "states", "by_pos", "by_shape", "lanelet", "interp",
       "light", "light", "is_reached", "is_reached", "goal_reached", "eq", "hash", "str", "deepcopy", "pickle",
       "xml_write", "pb_write", "pb_write", "draw", "draw"]
HEAVY = {"occs", "occ", "occset", "lanelet", "interp", "light", "deepcopy", "pickle", "draw", "by_pos"}


def gen_op(rng):
    name = rng.choice(OPS)
    if name in ("occs", "states"):
        return [name, rng.randint(0, 7)]
    if name in ("occ", "state"):
        return [name, rng.randint(0, 9), rng.randint(0, 7)]
    if name == "occset":
        return [name, rng.randint(0, 9)]
    if name == "by_pos":
        return [name, [[rng.randint(0, 20), rng.randint(0, 8), scen.rnd(rng, -2, 2), scen.rnd(rng, -2, 2)]
                       for _ in range(rng.randint(1, 3))], rng.randint(0, 6)]
    if name == "by_shape":
        return [name, rng.randint(0, 20), rng.randint(0, 8), scen.rnd(rng, 0.5, 5), scen.rnd(rng, 0.5, 3),
                scen.rnd(rng, -3, 3), rng.choice(["rect", "circ"])]
    if name == "lanelet":
        return [name, rng.randint(0, 20), scen.rnd(rng, 0, 1), rng.randint(0, 5)]
    if name == "interp":
        return [name, rng.randint(0, 20)]
    if name == "light":
        return [name, rng.randint(0, 5), rng.randint(0, 60)]
    if name in ("is_reached", "goal_reached"):
        return [name, rng.randint(0, 3), rng.getrandbits(30), rng.randint(0, 30) if rng.random() < 0.6 else None]
    if name == "draw":
        return [name, rng.randint(0, 5), rng.choice([0, 1, 2, 4, 8, 12]), rng.choice([0, 0, 1, 2]), gen_flips(rng)]
    return [name]


def gen_case(rng):
    ops = [gen_op(rng) for _ in range(rng.randint(1, 10))]
    # at most one draw per sequence (cost)
    seen = False
    for i, op in enumerate(ops):
        if op[0] == "draw":
            if seen:
                ops[i] = ["occs", rng.randint(0, 7)]
            seen = True
    return {"seed": rng.getrandbits(30), "source": rng.choice(["gen", "gen", "xml", "xml", "pb"]), "ops": ops,
            "wide": 1}


def gen(rng, n):
    return [gen_case(rng) for _ in range(n)]


def nontrivial(case):
    return any(op[0] in HEAVY for op in case["ops"])


def kind(case):
    return case["source"]


def shrink(case):
    """cut the sequence after the failing step, then drop operations while the signature stays the same"""
    base = oracle(case)
    if not base:
        return case
    ops = list(case["ops"])
    for k in range(len(ops) + 1):
        r = oracle(dict(case, ops=ops[:k]))
        if r and r[0] == base[0]:
            ops = ops[:k]
            break
    i = 0
    while i < len(ops) - 1:
        trial = ops[:i] + ops[i + 1:]
        r = oracle(dict(case, ops=trial))
        if r and r[0] == base[0]:
            ops = trial
        else:
            i += 1
    case = dict(case, ops=ops)
    # the draw parameters: drop negated flags (by halves, then one by one) while the signature stays the same
    budget = [80]
    for i, op in enumerate(ops):
        if op[0] != "draw" or len(op) < 5 or not op[4]:
            continue
        flips = list(op[4])
        chunk = max(1, len(flips) // 2)
        while budget[0] > 0:
            j = 0
            while j < len(flips) and budget[0] > 0:
                trial = flips[:j] + flips[j + chunk:]
                budget[0] -= 1
                r = oracle(dict(case, ops=ops[:i] + [op[:4] + [trial]] + ops[i + 1:]))
                if r and r[0] == base[0]:
                    flips = trial
                else:
                    j += chunk
            if chunk == 1:
                break
            chunk //= 2
        ops = ops[:i] + [op[:4] + [flips]] + ops[i + 1:]
        case = dict(case, ops=ops)
    return case


# ------------------------------------------------------------------------------------------ code version (source)
def _mentions(node, name):
    return any((isinstance(n, ast.Attribute) and n.attr == name) or (isinstance(n, ast.Name) and n.id == name)
               for n in ast.walk(node))


def _find_def(tree, cls, fn):
    for c in ast.walk(tree):
        if isinstance(c, ast.ClassDef) and c.name == cls:
            for f in c.body:
                if isinstance(f, ast.FunctionDef) and f.name == fn:
                    return f
    return None


def source_code_flags(repo):
    """(occ_on_copy, pb_checks_key) of Model/ReadOnly.v's [code], read off the syntax trees; None = not recognised"""
    occ = pb = None
    f = _find_def(ast.parse(open(os.path.join(repo, "commonroad/prediction/prediction.py")).read()),
                  "TrajectoryPrediction", "_create_occupancy_set")
    if f is not None:
        # every assignment `<name>.orientation = ...` in the class (the method itself or a helper it was moved to) must
        # be preceded, in the same statement list, by `<name> = copy.copy(...)` / `copy.deepcopy(...)`
        cls = next((n for n in ast.walk(ast.parse(open(os.path.join(repo, "commonroad/prediction/prediction.py")).read()))
                    if isinstance(n, ast.ClassDef) and n.name == "TrajectoryPrediction"), None)

        def is_copy_call(v):
            if not isinstance(v, ast.Call):
                return False
            fn = v.func
            return (isinstance(fn, ast.Attribute) and fn.attr in ("copy", "deepcopy") and isinstance(fn.value, ast.Name)
                    and fn.value.id == "copy") or (isinstance(fn, ast.Name) and fn.id in ("copy", "deepcopy"))
        for node in ast.walk(cls) if cls is not None else []:
            for field in ("body", "orelse", "finalbody"):
                block = getattr(node, field, None)
                if not isinstance(block, list) or not all(isinstance(b, ast.stmt) for b in block):
                    continue
                for k, st in enumerate(block):
                    tg = st.targets[0] if isinstance(st, ast.Assign) and len(st.targets) == 1 else None
                    if isinstance(tg, ast.Attribute) and tg.attr == "orientation" and isinstance(tg.value, ast.Name) \
                            and tg.value.id != "self":
                        var = tg.value.id
                        rebound = any(isinstance(b, ast.Assign) and len(b.targets) == 1
                                      and isinstance(b.targets[0], ast.Name) and b.targets[0].id == var
                                      and is_copy_call(b.value) for b in block[:k])
                        occ = rebound if occ is None else (occ and rebound)
    f = _find_def(ast.parse(open(os.path.join(repo, "commonroad/common/writer/file_writer_protobuf.py")).read()),
                  "PlanningProblemMessage", "create_message")
    if f is not None:
        subs = [n for n in ast.walk(f) if isinstance(n, ast.Subscript) and _mentions(n.value, "lanelets_of_goal_position")]
        guarded = []
        for node in ast.walk(f):
            if isinstance(node, ast.If):
                has_in = any(isinstance(c, ast.Compare) and any(isinstance(o, ast.In) for o in c.ops)
                             and any(_mentions(x, "lanelets_of_goal_position") for x in c.comparators)
                             for c in ast.walk(node.test))
                if has_in:
                    guarded += [n for b in node.body for n in ast.walk(b) if isinstance(n, ast.Subscript)]
        if subs:
            pb = all(any(n is g for g in guarded) for n in subs)
    return occ, pb


# ------------------------------------------------------------------------------------------ correspondence
def q_case(trace):
    m0, steps = trace
    return ("(" + q_state(m0) + ", " + qlist([f"(mkStep {qlist(terms)} {qb(raised)} {q_state(m)})"
                                              for terms, raised, m in steps]) + ")")


def corr(ctx, traces, cases):
    imports = ("From Coq Require Import ZArith List Bool NArith PArith.\nImport ListNotations.\n"
               "From CR Require Import Model.ReadOnly Corr.C18.\nOpen Scope Z_scope.\n")
    terms = [q_case(t) for t in traces]
    occ, pb = ctx.coverage["source_code_version"]
    defs = (f"Definition src_code : code := {{| occ_on_copy := {qb(occ is not False)}; "
            f"pb_checks_key := {qb(pb is not False)} |}}.\n")
    bad, errors = ctx.coq_bad_indices("corr", imports, defs, terms, "(check_c src_code)", shard=ctx.n(25, 60))
    ctx.coverage["correspondence_sequences"] = len(terms)
    ctx.coverage["correspondence_steps"] = sum(len(t[1]) for t in traces)
    for e in errors:
        ctx.corr_break("Corr.C18.check (coqc failed)", e)
    for i in bad:
        ctx.corr_break("Corr.C18.check: Model/ReadOnly.v vs the real scenario / planning problems (state attribute "
                       "names, goal-lanelet tables, caches after every step; observation equal to the first)", cases[i])
    ctx.log(f"corr sequences={len(terms)} steps={ctx.coverage['correspondence_steps']} disagree={len(bad)} "
            f"coq_errors={len(errors)}")


# ------------------------------------------------------------------------------------------ driver
def run(ctx):
    warnings.filterwarnings("ignore")
    ctx.trusted = ["Coq 8.16.1 kernel + vm_compute (no native_compute)",
                   "axioms: none (Print Assumptions: Closed under the global context for every theorem)",
                   "hand-written model coq/Model/ReadOnly.v of the side effects of the read-only operations "
                   "(prediction.py, obstacle.py, scenario.py, lanelet.py, traffic_light.py, goal.py, both writers; line "
                   "ranges in the file header), tied to the code by the correspondence relation coq/Corr/C18.v on every run",
                   "harness/props/c18.py (generators, structural snapshot through instance dictionaries / slots, reading of "
                   "the private cache fields to classify them, Coq term printer), vlib/scen.py, props/c11_objs.py",
                   "numpy / shapely / STRtree / matplotlib / lxml / protobuf are outside the model; their effect on the "
                   "objects is covered by the snapshot and export comparison only"]
    ctx.build_props()
    if ctx.tier == "thorough":
        ctx.coqchk()
    from vlib.core import REPO
    flags = source_code_flags(REPO)
    ctx.coverage["source_code_version"] = list(flags)
    if flags != (True, True):
        # the theorems are about [step repaired]; the source is (or looks like) another version of the code
        what = [nm for nm, v in zip(("_create_occupancy_set derives the heading on a copy of the state",
                                     "the protobuf writer tests `i in lanelets_of_goal_position` before indexing"),
                                    flags) if v is not True]
        ctx.proof_breaks.append({"theorem": "C18_step_observe (about the repaired code)", "where": "; ".join(what),
                                 "log": f"code version read off the source: occ_on_copy={flags[0]} "
                                        f"pb_checks_key={flags[1]} (None = construct not recognised)"})
        ctx.log(f"proof_broken: the source is not the code version the theorems are about: {what}")
    n = ctx.n(330, 2500)
    wd = workdir()
    cases, traces = [], []
    dist = {}

    def run_all(cs, with_model):
        for c in cs:
            ctx.count(c, nontrivial(c), kind(c))
            for op in c["ops"]:
                dist[op[0]] = dist.get(op[0], 0) + 1
            failure, trace = run_case(c, wd, want_model=with_model)
            if failure:
                seen = any(f["signature"] == failure[0] for f in ctx.failures)
                ctx.fail(failure[0], failure[1], c if seen else shrink(c))
                continue  # the model describes the repaired code; a violating sequence is reported by the oracle
            if with_model:
                cases.append(c)
                traces.append(trace)

    run_all(load_corpus(ctx.prop) + gen(ctx.rng, n), True)
    ctx.coverage["operations"] = dist
    ctx.coverage["read_back_not_possible_used_as_generated"] = dict(FALLBACK)
    ctx.coverage["dimensions_reached"] = dict(COVER)
    ctx.coverage["draw_parameter_flags"] = len(draw_flags())
    corr(ctx, traces if ctx.quick else traces[:1500], cases)
    if (ctx.proof_breaks or ctx.corr_breaks) and not ctx.failures:
        ctx.log(f"proof/correspondence broke ({len(ctx.proof_breaks)}/{len(ctx.corr_breaks)}); widening the search")
        run_all(gen(ctx.rng, ctx.n(n // 2, n)), False)
    return ctx.finish(RULE, assumptions=ASSUME)
