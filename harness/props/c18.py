"""C18 — read-only operations do not change scenarios or planning problems.
oracle: random sequences (<= 10) of read-only operations on generated scenarios and on scenarios obtained by
        reading a written XML / protobuf file; after every operation the structural snapshot (raw stored data,
        caches excluded, attribute sets of states, dict key sets, container types) and the exported XML and
        protobuf bytes (date aside) are compared with those taken before the sequence.
corr:   Model/ReadOnly.v run by vm_compute on the same sequences predicts the part of the observation the anchored
        mechanisms can touch: attribute-name lists of the trajectory states and the goal-lanelet tables (container
        kind + keys) after every operation (Corr/C18.v)."""
import copy
import enum
import hashlib
import json
import math
import os
import pickle
import random
import re
import shutil
import tempfile
from collections import defaultdict

import numpy as np

from vlib import scen
from vlib.core import outcome_of, qz, qb, qlist, qstr
from vlib.flow import load_corpus

from props import c11_objs as O

from commonroad.common.file_reader import CommonRoadFileReader
from commonroad.common.file_writer import CommonRoadFileWriter
from commonroad.common.util import FileFormat, Interval
from commonroad.common.writer.file_writer_interface import OverwriteExistingFile
from commonroad.geometry.shape import Circle, Rectangle
from commonroad.planning.planning_problem import PlanningProblemSet
from commonroad.prediction.prediction import TrajectoryPrediction
from commonroad.scenario.obstacle import DynamicObstacle, ObstacleType
from commonroad.scenario.scenario import Scenario, ScenarioID, Tag
from commonroad.scenario.state import CustomState, InitialState, KSState
from commonroad.scenario.trajectory import Trajectory

RULE = ("cases = (scenario seed, source in {generated, read back from XML, read back from protobuf}, <= 10 read-only "
        "ops) over: scenario / obstacle occupancy and state queries, occupancy_set, lanelet lookup by position / shape, "
        "lanelet distance / polygon / interpolate, traffic-light state, is_reached / goal_reached, == and != on "
        "scenario, planning problems and parts, hash of every part (TypeError guarded), str / repr, copy.deepcopy, "
        "pickle dumps+loads, draw + render (MPRenderer, Agg), XML write, protobuf write.  Scenarios contain the four "
        "obstacle roles, trajectories of KS / PM / ST / custom states incl. custom states with velocity_y and no "
        "orientation, goal regions with partial lanelet tables.  distinct = distinct case dicts; non-trivial = the "
        "sequence contains an occupancy query, a writer, a copy or a draw")
ASSUME = ["observe = structural snapshot of every stored attribute reachable from the scenario and the planning "
          "problem set, except the cache fields (occupancy_set, _initial_occupancy_shape, lanelet _polygon / "
          "_distance / _inner_distance, network _buffered_polygons / _strtee / _lanelet_id_index_by_id, "
          "_cycle_init_timesteps, shape vertices / shapely objects), plus exported XML and protobuf bytes with the date "
          "removed",
          "an exception raised by a read-only operation is not judged here (C01-C03, C12, C19 judge totality); the "
          "comparison is made all the same",
          "each export uses a new writer object with the same arguments (C15 judges writer reuse)"]

# cache fields by (class name, attribute) or attribute alone
SKIP = set(scen.CACHE_FIELDS) | {"_Rectangle__shapely_polygon", "_shapely_circle"}
SKIP_CLS = {("Rectangle", "_vertices")}


def snapshot(obj, _depth=0):
    """JSON-able structural snapshot of the raw stored data (caches excluded); container types are recorded"""
    if _depth > 40:
        return "<deep>"
    if obj is None or isinstance(obj, (bool, str)):
        return obj
    if isinstance(obj, (int, np.integer)):
        return int(obj)
    if isinstance(obj, (float, np.floating)):
        return float(obj)
    if isinstance(obj, enum.Enum):
        return f"{type(obj).__name__}.{obj.name}"
    if isinstance(obj, np.ndarray):
        return ["nd", str(obj.dtype)] + obj.tolist()
    if isinstance(obj, (list, tuple)):
        return [type(obj).__name__] + [snapshot(x, _depth + 1) for x in obj]
    if isinstance(obj, (set, frozenset)):
        return [type(obj).__name__] + sorted((snapshot(x, _depth + 1) for x in obj), key=repr)
    if isinstance(obj, dict):
        items = [[snapshot(k, _depth + 1), snapshot(v, _depth + 1)] for k, v in obj.items()]
        return {"__dict__": sorted(items, key=lambda kv: repr(kv[0])), "__type__": type(obj).__name__}
    d = {}
    if hasattr(obj, "__dict__"):
        d.update(vars(obj))
    for cls in type(obj).__mro__:
        for s in getattr(cls, "__slots__", ()):
            if hasattr(obj, s):
                d[s] = getattr(obj, s)
    if not d and not hasattr(obj, "__dict__"):
        return repr(obj)
    cn = type(obj).__name__
    out = {"__class__": cn}
    for k in sorted(d):
        if k in SKIP or (cn, k) in SKIP_CLS or k.startswith("__"):
            continue
        out[k] = snapshot(d[k], _depth + 1)
    return out


# ------------------------------------------------------------------------------------------ scenarios
def gen_scenario(rng):
    net = scen.rand_network(rng)
    sc = Scenario(0.1, ScenarioID(False, "ZAM", "Test", rng.randint(1, 9), rng.randint(1, 9), "T", 1),
                  author="a", tags={Tag.URBAN, Tag.HIGHWAY} if rng.random() < 0.5 else {Tag.URBAN},
                  affiliation="b", source="c")
    sc.add_objects(net)
    oid = 500
    for _ in range(rng.randint(1, 4)):
        sc.add_objects(scen.rand_obstacle(rng, oid))
        oid += 1
    if rng.random() < 0.6:
        # trajectory of custom states that carry velocity / velocity_y and no orientation attribute
        t0 = rng.choice([0, 0, 2])
        shape = scen.rand_shape(rng, ("rect", "circ"))
        init = scen.rand_state(rng, InitialState, t0)
        traj = O.gen_traj(rng, t0 + 1, rng.randint(1, 4), "custom_vy")
        sc.add_objects(DynamicObstacle(oid, ObstacleType.CAR, shape, init, TrajectoryPrediction(traj, shape)))
    ids = [la.lanelet_id for la in sc.lanelet_network.lanelets]
    pps = scen.rand_planning_problem_set(rng, lanelet_ids=ids)
    return sc, pps


def export_bytes(sc, pps, fmt, workdir):
    """the file a new writer produces, date removed; ('ok', digest) | ('exc', name)"""
    path = os.path.join(workdir, "x.xml" if fmt == "xml" else "x.pb")
    try:
        w = CommonRoadFileWriter(sc, pps, "a", "b", "c", {Tag.URBAN},
                                 file_format=FileFormat.XML if fmt == "xml" else FileFormat.PROTOBUF)
        w.write_to_file(path, OverwriteExistingFile.ALWAYS)
        data = open(path, "rb").read()
    except Exception as e:  # noqa  (totality of the writers is C01-C03's business)
        return ["exc", type(e).__name__]
    if fmt == "xml":
        data = re.sub(rb'date="[^"]*"', b'date=""', data)
    else:
        from commonroad.scenario_definition.protobuf_format.generated_scripts import commonroad_pb2
        msg = commonroad_pb2.CommonRoad()
        msg.ParseFromString(data)
        for f in msg.information.date.DESCRIPTOR.fields:   # the date is a required field: blank its parts
            if msg.information.date.HasField(f.name):
                setattr(msg.information.date, f.name, 0)
        data = msg.SerializeToString(deterministic=True)
    return ["ok", hashlib.sha1(data).hexdigest()]


def make(case, workdir):
    rng = random.Random(case["seed"])
    sc, pps = gen_scenario(rng)
    src = case["source"]
    if src == "gen":
        return sc, pps
    fmt = FileFormat.XML if src == "xml" else FileFormat.PROTOBUF
    path = os.path.join(workdir, "src.xml" if src == "xml" else "src.pb")
    try:
        CommonRoadFileWriter(sc, pps, "a", "b", "c", {Tag.URBAN}, file_format=fmt).write_to_file(
            path, OverwriteExistingFile.ALWAYS)
        return CommonRoadFileReader(path).open()
    except Exception:  # noqa  (a generated scenario the format cannot hold: judged by C01-C03; use it as generated)
        return sc, pps


# ------------------------------------------------------------------------------------------ read-only operations
def _obstacles(sc):
    return sc.obstacles


def _pick(xs, i):
    return xs[i % len(xs)] if xs else None


def _try_hash(x):
    try:
        hash(x)
    except TypeError:  # unhashable classes are C12's finding, not C18's
        pass


def apply_op(sc, pps, op, workdir, other):
    name = op[0]
    net = sc.lanelet_network
    if name == "occs":
        sc.occupancies_at_time_step(op[1])
    elif name == "occ":
        o = _pick(_obstacles(sc), op[1])
        if o is not None:
            o.occupancy_at_time(op[2])
    elif name == "occset":
        o = _pick(sc.dynamic_obstacles, op[1])
        if o is not None and o.prediction is not None:
            len(o.prediction.occupancy_set)
    elif name == "state":
        o = _pick(sc.dynamic_obstacles + sc.static_obstacles, op[1])
        if o is not None:
            o.state_at_time(op[2])
    elif name == "states":
        sc.obstacle_states_at_time_step(op[1])
    elif name == "by_pos":
        lls = net.lanelets
        pts = [np.array(_pick(lls, i).center_vertices[j % len(_pick(lls, i).center_vertices)][:2]) + np.array([dx, dy])
               for i, j, dx, dy in op[1]]
        net.find_lanelet_by_position(pts)
        sc.obstacles_by_position_intervals([Interval(-10, 30), Interval(-5, 10)])
    elif name == "by_shape":
        la = _pick(net.lanelets, op[1])
        c = np.array(la.center_vertices[op[2] % len(la.center_vertices)][:2])
        net.find_lanelet_by_shape(Rectangle(op[3], op[4], c, op[5]) if op[6] == "rect" else Circle(op[3], c))
    elif name == "lanelet":
        la = _pick(net.lanelets, op[1])
        la.distance, la.inner_distance, la.polygon.vertices
        la.interpolate_position(float(la.distance[-1]) * op[2])
        la.contains_points(np.array([la.center_vertices[0][:2]]))
        net.find_lanelet_by_id(la.lanelet_id)
        net.map_inc_lanelets_to_intersections
        la.get_obstacles([o for o in sc.dynamic_obstacles + sc.static_obstacles], op[3])
    elif name == "light":
        t = _pick(net.traffic_lights, op[1])
        if t is not None and t.traffic_light_cycle is not None:
            t.get_state_at_time_step(op[2])
    elif name == "is_reached":
        pp = _pick(list(pps.planning_problem_dict.values()), op[1])
        rng = random.Random(op[2])
        st = scen.rand_state(rng, rng.choice([KSState, InitialState, scen.PMState, scen.STState]), rng.randint(0, 30))
        pp.goal.is_reached(st)
    elif name == "goal_reached":
        pp = _pick(list(pps.planning_problem_dict.values()), op[1])
        rng = random.Random(op[2])
        pp.goal_reached(scen.rand_trajectory(rng, rng.randint(0, 5), rng.randint(1, 5), rng.choice([KSState, scen.STState])))
    elif name == "eq":
        sc == other[0], pps == other[1], sc != other[0], sc == sc, pps == pps
        for a, b in zip(_obstacles(sc), _obstacles(other[0])):
            a == b
        net == other[0].lanelet_network
    elif name == "hash":
        for x in [sc, pps, net, sc.scenario_id] + _obstacles(sc) + net.lanelets + net.traffic_lights + \
                net.traffic_signs + net.intersections + list(pps.planning_problem_dict.values()):
            _try_hash(x)
        for pp in pps.planning_problem_dict.values():
            _try_hash(pp.goal)
            _try_hash(pp.initial_state)
        for o in sc.dynamic_obstacles:
            _try_hash(o.prediction)
            if isinstance(o.prediction, TrajectoryPrediction):
                _try_hash(o.prediction.trajectory)
    elif name == "str":
        str(sc), repr(net), str(pps)
        for o in _obstacles(sc):
            str(o), repr(o)
        for pp in pps.planning_problem_dict.values():
            str(pp.goal.state_list), repr(pp.initial_state)
    elif name == "deepcopy":
        copy.deepcopy(sc), copy.deepcopy(pps), copy.deepcopy(net), copy.copy(sc)
    elif name == "pickle":
        pickle.loads(pickle.dumps(sc)), pickle.loads(pickle.dumps(pps))
    elif name == "draw":
        import matplotlib.pyplot as plt
        from commonroad.visualization.mp_renderer import MPRenderer
        fig = plt.figure(figsize=(3, 2))
        try:
            rnd = MPRenderer(ax=fig.gca())
            rnd.draw_params.time_begin = op[1]
            rnd.draw_params.time_end = op[1] + op[2]
            sc.draw(rnd)
            pps.draw(rnd)
            rnd.render()
        finally:
            plt.close(fig)
    elif name == "xml_write":
        export_bytes(sc, pps, "xml", workdir)
    elif name == "pb_write":
        export_bytes(sc, pps, "pb", workdir)
    else:
        raise ValueError(name)


def observe(sc, pps, workdir):
    return {"snap": [snapshot(sc), snapshot(pps)], "xml": export_bytes(sc, pps, "xml", workdir),
            "pb": export_bytes(sc, pps, "pb", workdir)}


def first_diff(a, b):
    d = scen.diff_snap(a, b, limit=3)
    return d[0] if d else None


def classify(path):
    """the kind of change, for the signature: which attribute of which class changed"""
    m = re.findall(r"\.(_?[A-Za-z_]+)", path)
    tail = [x for x in m if x not in ("__dict__",)]
    return ".".join(tail[-2:]) if tail else "?"


def run_case(case, workdir, on_step=None):
    """returns None | (signature, what); on_step(op, sc, pps, err) is called after every operation"""
    sc, pps = make(case, workdir)
    other = copy.deepcopy((sc, pps))
    before = observe(sc, pps, workdir)
    for i, op in enumerate(case["ops"]):
        r = outcome_of(apply_op, sc, pps, op, workdir, other)
        if on_step is not None:
            on_step(op, sc, pps, r[0] == "exc")
        after = observe(sc, pps, workdir)
        d = first_diff(before["snap"], after["snap"])
        if d:
            return (f"{op[0]}:{case['source']}:{classify(d)}",
                    f"step {i} {op} on a scenario (seed {case['seed']}, {case['source']}) changed stored data: {d[:200]}"
                    + (f" (the operation raised {r[1]})" if r[0] == "exc" else ""))
        for fmt in ("xml", "pb"):
            if before[fmt] != after[fmt]:
                return (f"{op[0]}:{case['source']}:export-{fmt}",
                        f"step {i} {op} on a scenario (seed {case['seed']}, {case['source']}): the exported {fmt} file "
                        f"differs from the export before the sequence ({before[fmt]} -> {after[fmt]})")
    return None


_WORK = None


def workdir():
    global _WORK
    if _WORK is None:
        base = "/var/tmp/g5" if os.path.isdir("/var/tmp/g5") else tempfile.gettempdir()
        _WORK = tempfile.mkdtemp(prefix="c18-", dir=base)
    return _WORK


def oracle(case):
    return run_case(case, workdir())


# ------------------------------------------------------------------------------------------ generators
OPS = ["occs", "occs", "occ", "occ", "occset", "occset", "state", "states", "by_pos", "by_shape", "lanelet", "light",
       "is_reached", "goal_reached", "eq", "hash", "str", "deepcopy", "pickle", "xml_write", "xml_write", "pb_write",
       "pb_write", "pb_write", "draw"]
HEAVY = {"occs", "occ", "occset", "xml_write", "pb_write", "deepcopy", "pickle", "draw"}


def gen_op(rng):
    name = rng.choice(OPS)
    if name in ("occs", "states"):
        return [name, rng.randint(0, 7)]
    if name in ("occ", "state"):
        return [name, rng.randint(0, 9), rng.randint(0, 7)]
    if name == "occset":
        return [name, rng.randint(0, 9)]
    if name == "by_pos":
        return [name, [[rng.randint(0, 20), rng.randint(0, 8), scen.rnd(rng, -2, 2), scen.rnd(rng, -2, 2)]
                       for _ in range(rng.randint(1, 3))]]
    if name == "by_shape":
        return [name, rng.randint(0, 20), rng.randint(0, 8), scen.rnd(rng, 0.5, 5), scen.rnd(rng, 0.5, 3),
                scen.rnd(rng, -3, 3), rng.choice(["rect", "circ"])]
    if name == "lanelet":
        return [name, rng.randint(0, 20), scen.rnd(rng, 0, 1), rng.randint(0, 5)]
    if name == "light":
        return [name, rng.randint(0, 5), rng.randint(0, 60)]
    if name in ("is_reached", "goal_reached"):
        return [name, rng.randint(0, 3), rng.getrandbits(30)]
    if name == "draw":
        return [name, rng.randint(0, 3), rng.randint(0, 4)]
    return [name]


def gen_case(rng):
    ops = [gen_op(rng) for _ in range(rng.randint(1, 10))]
    # at most one draw per sequence (cost)
    seen = False
    for i, op in enumerate(ops):
        if op[0] == "draw":
            if seen:
                ops[i] = ["occs", rng.randint(0, 7)]
            seen = True
    return {"seed": rng.getrandbits(30), "source": rng.choice(["gen", "gen", "xml", "xml", "pb"]), "ops": ops}


def gen(rng, n):
    return [gen_case(rng) for _ in range(n)]


def nontrivial(case):
    return any(op[0] in HEAVY for op in case["ops"])


def kind(case):
    return case["source"]
