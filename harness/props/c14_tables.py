"""C14 table translators: regenerate coq/Gen/Tables_C14.v (the tables of commonroad/common/solution.py) and
coq/Gen/Xsd_solution.v (the shipped CommonRoadSolution_schema.xsd) from the source tree in VERIF_REPO on every
run.  Fail-closed: anything that does not have the expected shape raises TableError; files are only rewritten
when their content changed (keeps make incremental)."""
import ast
import dataclasses
import enum
import inspect
import os
import textwrap
import xml.etree.ElementTree as ET

from vlib.core import COQ, REPO, qlist, qstr, qz


class TableError(Exception):
    pass


def _need(cond, msg):
    if not cond:
        raise TableError("c14_tables: " + msg)


def _word(s):
    return isinstance(s, str) and len(s) > 0 and all(ord(ch) < 128 and (ch.isalnum() or ch == "_") for ch in s)


XSD_PATH = os.path.join(REPO, "commonroad", "scenario_definition", "xml_definition_files",
                        "CommonRoadSolution_schema.xsd")


# ------------------------------------------------------------------------------------------ solution.py
def reader_state_types(sol):
    """the literal dict  state_types = {StateType.X: Class, ...}  inside CommonRoadSolutionReader._parse_state"""
    src = textwrap.dedent(inspect.getsource(sol.CommonRoadSolutionReader._parse_state))
    tree = ast.parse(src)
    found = []
    for node in ast.walk(tree):
        if isinstance(node, ast.Assign) and len(node.targets) == 1 and isinstance(node.targets[0], ast.Name) \
                and node.targets[0].id == "state_types":
            found.append(node.value)
    _need(len(found) == 1 and isinstance(found[0], ast.Dict), "expected exactly one dict literal 'state_types'")
    out = []
    for k, v in zip(found[0].keys, found[0].values):
        _need(isinstance(k, ast.Attribute) and isinstance(k.value, ast.Name) and k.value.id == "StateType",
              "state_types key is not StateType.<member>")
        _need(isinstance(v, ast.Name), "state_types value is not a class name")
        _need(k.attr in sol.StateType.__members__, f"state_types key {k.attr} is no StateType member")
        cls = getattr(sol, v.id, None)
        _need(inspect.isclass(cls) and dataclasses.is_dataclass(cls), f"{v.id} is not a dataclass of solution.py's scope")
        inst = cls()
        attrs = list(inst.attributes)
        _need(attrs == [f.name for f in dataclasses.fields(cls)], f"{v.id}.attributes differ from its dataclass fields")
        _need(all(_word(a) for a in attrs), f"attribute names of {v.id}")
        out.append((k.attr, v.id, attrs))
    _need(len({o[0] for o in out}) == len(out), "duplicate key in state_types")
    # the table must be used as  state_types[state_type](**state_vals)
    _need("state_types[state_type](**state_vals)" in src.replace(" ", "").replace("\n", "") or
          "state_types[state_type](**state_vals)" in src, "state_types is no longer applied as state_types[state_type](**state_vals)")
    return out


def tables():
    from commonroad.common import solution as sol

    t = {}

    def enum_pairs(e, val_ok, what):
        _need(inspect.isclass(e) and issubclass(e, enum.Enum), f"{what} is not an Enum")
        out = []
        for m in e:
            _need(_word(m.name), f"{what} member name {m.name!r}")
            _need(val_ok(m.value), f"{what}.{m.name} has an unexpected value {m.value!r}")
            out.append((m.name, m.value))
        _need(len({n for n, _ in out}) == len(out), f"{what}: duplicate names")
        return out

    str_list = lambda v: isinstance(v, list) and all(_word(x) for x in v)  # noqa
    xml_list = lambda v: isinstance(v, list) and all(  # noqa
        _word(x) or (isinstance(x, tuple) and len(x) >= 1 and all(_word(y) for y in x)) for x in v)
    t["state_fields"] = enum_pairs(sol.StateFields, str_list, "StateFields")
    t["xml_state_fields"] = enum_pairs(sol.XMLStateFields, xml_list, "XMLStateFields")
    t["state_type"] = enum_pairs(sol.StateType, _word, "StateType")
    t["trajectory_type"] = enum_pairs(sol.TrajectoryType, _word, "TrajectoryType")
    is_int = lambda v: isinstance(v, int) and not isinstance(v, bool)  # noqa
    t["vehicle_model"] = enum_pairs(sol.VehicleModel, is_int, "VehicleModel")
    t["vehicle_type"] = enum_pairs(sol.VehicleType, is_int, "VehicleType")
    t["cost_function"] = enum_pairs(sol.CostFunction, is_int, "CostFunction")
    cost_list = lambda v: isinstance(v, list) and all(isinstance(x, sol.CostFunction) for x in v)  # noqa
    sc = enum_pairs(sol.SupportedCostFunctions, cost_list, "SupportedCostFunctions")
    # SupportedCostFunctions members with equal values are aliases in an Enum: iterate __members__ instead
    sc = [(n, m.value) for n, m in sol.SupportedCostFunctions.__members__.items()]
    _need(all(cost_list(v) for _, v in sc), "SupportedCostFunctions values")
    t["supported_costs"] = [(n, [c.name for c in v]) for n, v in sc]
    # TrajectoryType.valid_vehicle_model is code: evaluate it on every pair
    t["valid_vm"] = []
    for tt in sol.TrajectoryType:
        ok = []
        for vm in sol.VehicleModel:
            r = tt.valid_vehicle_model(vm)
            _need(isinstance(r, bool), "valid_vehicle_model does not return a bool")
            if r:
                ok.append(vm.name)
        t["valid_vm"].append((tt.name, ok))
    t["reader_state_types"] = reader_state_types(sol)
    # StateType.fields / xml_fields / TrajectoryType.state_type resolve by *name*: check that is still so
    for st in sol.StateType:
        _need(st.fields is sol.StateFields[st.name].value and st.xml_fields is sol.XMLStateFields[st.name].value,
              "StateType.fields / xml_fields no longer resolve by member name")
    for tt in sol.TrajectoryType:
        _need(tt.state_type is sol.StateType[tt.name], "TrajectoryType.state_type no longer resolves by member name")
    return t


def _entry(x):
    if isinstance(x, tuple):
        return "XTuple " + qlist([qstr(y) for y in x])
    return "XName " + qstr(x)


def render_tables(t):
    L = ["(* Gen/Tables_C14.v - GENERATED by harness/props/c14_tables.py from commonroad/common/solution.py on every",
         "   run of ./check C14; do not edit.  Enum tables in definition order; valid_vm = TrajectoryType.valid_vehicle_model",
         "   evaluated on every (trajectory type, vehicle model); reader_state_types = the dict literal of",
         "   CommonRoadSolutionReader._parse_state with the attribute list of each class. *)",
         "From Coq Require Import String List ZArith.", "From CR Require Import Model.SolTypes.",
         "Import ListNotations.", "Open Scope string_scope.", "Open Scope list_scope.", ""]

    def sl(v):
        return qlist([qstr(x) for x in v])

    def table(name, ty, rows):
        L.append(f"Definition {name} : {ty} := [")
        L.append(";\n".join("  " + r for r in rows))
        L.append("].")
        L.append("")

    table("g_state_fields", "list (string * list string)", [f"({qstr(n)}, {sl(v)})" for n, v in t["state_fields"]])
    table("g_xml_state_fields", "list (string * list xml_entry)",
          [f"({qstr(n)}, {qlist([_entry(x) for x in v])})" for n, v in t["xml_state_fields"]])
    table("g_state_type", "list (string * string)", [f"({qstr(n)}, {qstr(v)})" for n, v in t["state_type"]])
    table("g_trajectory_type", "list (string * string)", [f"({qstr(n)}, {qstr(v)})" for n, v in t["trajectory_type"]])
    table("g_vehicle_model", "list (string * Z)", [f"({qstr(n)}, {qz(v)})" for n, v in t["vehicle_model"]])
    table("g_vehicle_type", "list (string * Z)", [f"({qstr(n)}, {qz(v)})" for n, v in t["vehicle_type"]])
    table("g_cost_function", "list (string * Z)", [f"({qstr(n)}, {qz(v)})" for n, v in t["cost_function"]])
    table("g_supported_costs", "list (string * list string)", [f"({qstr(n)}, {sl(v)})" for n, v in t["supported_costs"]])
    table("g_valid_vm", "list (string * list string)", [f"({qstr(n)}, {sl(v)})" for n, v in t["valid_vm"]])
    table("g_reader_state_types", "list (string * (string * list string))",
          [f"({qstr(n)}, ({qstr(c)}, {sl(a)}))" for n, c, a in t["reader_state_types"]])
    L += ["Definition tables_C14 : tables := {|",
          "  t_fields := g_state_fields; t_xml := g_xml_state_fields; t_stype := g_state_type;",
          "  t_ttype := g_trajectory_type; t_vmodel := g_vehicle_model; t_vtype := g_vehicle_type;",
          "  t_cost := g_cost_function; t_supported := g_supported_costs; t_valid_vm := g_valid_vm;",
          "  t_reader := g_reader_state_types |}.", ""]
    return "\n".join(L)


# ------------------------------------------------------------------------------------------ the XSD
XS = "{http://www.w3.org/2001/XMLSchema}"
SIMPLE = {"xs:float": "TFloat", "xs:int": "TInt", "xs:string": "TString", "xs:dateTime": "TDateTime"}


def _occ(el):
    mn = el.get("minOccurs", "1")
    mx = el.get("maxOccurs", "1")
    _need(mn.isdigit(), f"minOccurs {mn!r}")
    _need(mx == "unbounded" or mx.isdigit(), f"maxOccurs {mx!r}")
    return int(mn), (None if mx == "unbounded" else int(mx))


def _xsd_element(el):
    """-> dict(name, min, max, type) ; type = ('simple', T) | ('complex', kind, [elements], [attrs])"""
    _need(el.tag == XS + "element", f"expected xs:element, got {el.tag}")
    _need(set(el.attrib) <= {"name", "type", "minOccurs", "maxOccurs"}, f"unexpected attributes on xs:element: {el.attrib}")
    name = el.get("name")
    _need(_word(name), f"element name {name!r}")
    mn, mx = _occ(el)
    kids = list(el)
    if el.get("type") is not None:
        _need(not kids, f"element {name}: both a type attribute and children")
        _need(el.get("type") in SIMPLE, f"element {name}: unknown simple type {el.get('type')!r}")
        return {"name": name, "min": mn, "max": mx, "type": ("simple", SIMPLE[el.get("type")])}
    _need(len(kids) == 1 and kids[0].tag == XS + "complexType" and not kids[0].attrib,
          f"element {name}: expected exactly one anonymous xs:complexType")
    return {"name": name, "min": mn, "max": mx, "type": _xsd_complex(kids[0], name)}


def _xsd_complex(ct, where):
    kids = list(ct)
    _need(len(kids) >= 1 and kids[0].tag in (XS + "sequence", XS + "all"),
          f"{where}: complexType must start with xs:sequence or xs:all")
    model = kids[0]
    _need(not model.attrib, f"{where}: occurrence bounds on a model group are not supported")
    kind = "KSeq" if model.tag == XS + "sequence" else "KAll"
    els = [_xsd_element(e) for e in model]
    names = [e["name"] for e in els]
    _need(len(set(names)) == len(names), f"{where}: element names of one model group are not distinct "
                                          "(unique particle attribution would need a real matcher)")
    if kind == "KAll":
        _need(all(e["max"] is not None and e["max"] <= 1 for e in els), f"{where}: xs:all with maxOccurs > 1")
    attrs = []
    for a in kids[1:]:
        _need(a.tag == XS + "attribute", f"{where}: unexpected {a.tag} after the model group")
        _need(set(a.attrib) <= {"name", "type", "use"}, f"{where}: unexpected attributes on xs:attribute: {a.attrib}")
        _need(_word(a.get("name")) and a.get("type") in SIMPLE, f"{where}: attribute {a.attrib}")
        _need(a.get("use", "optional") in ("required", "optional"), f"{where}: attribute use {a.get('use')!r}")
        _need(not list(a), f"{where}: attribute with children")
        attrs.append((a.get("name"), SIMPLE[a.get("type")], a.get("use", "optional") == "required"))
    _need(len({a[0] for a in attrs}) == len(attrs), f"{where}: duplicate attribute declarations")
    return ("complex", kind, els, attrs)


def xsd_model(path=None):
    root = ET.parse(path or XSD_PATH).getroot()
    _need(root.tag == XS + "schema" and not root.attrib, "root is not a plain xs:schema")
    kids = list(root)
    _need(len(kids) == 1, "expected exactly one global element")
    return _xsd_element(kids[0])


def schema_order(model=None):
    """tags of the trajectory elements in the order the schema's root sequence lists them"""
    m = model or xsd_model()
    _need(m["type"][0] == "complex" and m["type"][1] == "KSeq", "root content is not a sequence")
    return [e["name"] for e in m["type"][2]]


def _render_type(t, ind):
    if t[0] == "simple":
        return f"XSimple {t[1]}"
    _, kind, els, attrs = t
    pad = " " * ind
    s = "XNil"
    for e in reversed(els):
        mx = "None" if e["max"] is None else f"(Some {e['max']}%nat)"
        s = f"XCons {qstr(e['name'])} {e['min']}%nat {mx}\n{pad}  ({_render_type(e['type'], ind + 2)})\n{pad}  ({s})"
    at = qlist([f"mk_xattr {qstr(n)} {ty} {'true' if req else 'false'}" for n, ty, req in attrs])
    return f"XComplex {kind}\n{pad}  ({s})\n{pad}  {at}"


def render_xsd(m):
    L = ["(* Gen/Xsd_solution.v - GENERATED by harness/props/c14_tables.py from",
         "   commonroad/scenario_definition/xml_definition_files/CommonRoadSolution_schema.xsd on every run of",
         "   ./check C14; do not edit.  Supported subset (anything else makes the translator fail): one global element,",
         "   anonymous complex types with one xs:sequence / xs:all of elements (min/maxOccurs) followed by attributes,",
         "   simple types xs:float xs:int xs:string xs:dateTime. *)",
         "From Coq Require Import String List.", "From CR Require Import Model.SolTypes.",
         "Import ListNotations.", "Open Scope string_scope.", "Open Scope list_scope.", "",
         f"Definition xsd_root_name : string := {qstr(m['name'])}.",
         f"Definition xsd_root_type : xtype :=\n  {_render_type(m['type'], 2)}.", ""]
    return "\n".join(L)


# ------------------------------------------------------------------------------------------ driver
def _write_if_changed(path, text):
    os.makedirs(os.path.dirname(path), exist_ok=True)
    if os.path.exists(path) and open(path).read() == text:
        return False
    with open(path, "w") as f:
        f.write(text)
    return True


def generate():
    """returns (tables dict, xsd model, [names of files rewritten])"""
    t = tables()
    m = xsd_model()
    _need(m["min"] == 1 and m["max"] == 1, "occurrence bounds on the global element")
    changed = []
    if _write_if_changed(os.path.join(COQ, "Gen", "Tables_C14.v"), render_tables(t)):
        changed.append("Gen/Tables_C14.v")
    if _write_if_changed(os.path.join(COQ, "Gen", "Xsd_solution.v"), render_xsd(m)):
        changed.append("Gen/Xsd_solution.v")
    return t, m, changed


if __name__ == "__main__":
    print(generate()[2])
