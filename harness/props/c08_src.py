"""C08 source tie: GoalRegion._harmonize_state_types, the checks of GoalRegion.is_reached, and the frames of is_reached,
_check_value_in_interval (commonroad/planning/goal.py) and PlanningProblem.goal_reached (planning_problem.py) are parsed
on every run into the statement language of coq/Model/GoalSrc.v and written to coq/Gen/Src_goal.v; Proofs/SrcGoal.v
proves that the parsed programs, run by the interpreter of Model/GoalSrc.v, compute reached1 / is_reached of
Model/Goal.v, which the C08 theorems are about.

Fail-closed: a statement, condition or frame outside the shapes listed in Model/GoalSrc.v raises SourceShapeError
(reported as a broken obligation).  Every method is first brought into the normal form of vlib/astnorm.py (helper
methods of the class inlined, comprehensions as loops, guard clauses and nested ifs as one decision tree, single-use
temporaries and aliases removed - each step keeps the meaning), so that a harmless rewrite gives the same shapes.
Locals may have any names; docstrings, annotations and the arguments of `raise ValueError(...)` are ignored.

Trusted: this parser, and the meaning the interpreter gives to the accepted shapes (used_attributes = the attributes that
are not None, has_value likewise; a Python set of attribute names = fld -> bool; copy.deepcopy gives a value that shares
nothing; CustomState(**attributes) keeps every attribute; np.linalg.norm of a 2-vector = hypot; frames compared as
text stand for the list recursion / reversed scan of Model/Goal.v)."""
import ast
import copy
import hashlib
import os

from vlib.core import COQ, REPO
from vlib.py2coq import write_if_changed
from vlib import astnorm as N


class SourceShapeError(Exception):
    pass


FLD = {"time_step": "FTime", "position": "FPos", "orientation": "FOrient", "velocity": "FVel", "velocity_y": "FVelY"}
QF = {"orientation": "QOrient", "velocity": "QVel", "velocity_y": "QVelY"}
FILES = {"goal": os.path.join("commonroad", "planning", "goal.py"),
         "pp": os.path.join("commonroad", "planning", "planning_problem.py")}


def bad(node, why):
    raise SourceShapeError(f"line {getattr(node, 'lineno', '?')}: {why}: {ast.unparse(node)[:140]}")


def is_name(n, ident):
    return isinstance(n, ast.Name) and n.id == ident


def const_str(n):
    return n.value if isinstance(n, ast.Constant) and isinstance(n.value, str) else None


def body_of(fn):
    return [s for s in fn.body if not (isinstance(s, ast.Expr) and isinstance(s.value, ast.Constant)
                                       and isinstance(s.value.value, str))]


def find_method(tree, cls, name):
    for c in tree.body:
        if isinstance(c, ast.ClassDef) and c.name == cls:
            hits = [f for f in c.body if isinstance(f, ast.FunctionDef) and f.name == name]
            if len(hits) == 1:
                return hits[0]
    raise SourceShapeError(f"{cls}.{name} not found (or defined more than once)")


def attr_of(n, base):
    """n is <base>.<attr> -> attr"""
    if isinstance(n, ast.Attribute) and is_name(n.value, base):
        return n.attr
    return None


# ------------------------------------------------------------------------------------ frames: text up to local names
class _StripRaise(ast.NodeTransformer):
    def visit_Raise(self, n):
        self.generic_visit(n)
        if isinstance(n.exc, ast.Call):
            n.exc = ast.Call(func=n.exc.func, args=[], keywords=[])
        return n


KEEP = ("_harmonize_state_types", "_check_value_in_interval", "is_reached")


def frame_text(fn, methods=None):
    """the function in normal form (helpers inlined, decision tree, temporaries removed: vlib/astnorm.py), arguments
    of raise dropped, locals renamed in order of appearance"""
    fn = _StripRaise().visit(N.normal(copy.deepcopy(fn), methods or {}, KEEP))
    return N.alpha_text(fn)


def ref_text(src):
    return frame_text(ast.parse(src).body[0])


REF_IS_REACHED_SRC = '''
def is_reached(self, state):
    is_reached_list = []
    for goal_state in self.state_list:
        goal_state_tmp = copy.deepcopy(goal_state)
        goal_state_fields = set(goal_state.used_attributes)
        state_fields = set(state.used_attributes)
        state_new, state_fields, goal_state_tmp, goal_state_fields = self._harmonize_state_types(
            state, goal_state_tmp, state_fields, goal_state_fields)
        if not goal_state_fields.issubset(state_fields):
            raise ValueError()
        is_reached = True
        if goal_state.time_step is not None:
            is_reached = is_reached and self._check_value_in_interval(state_new.time_step, goal_state.time_step)
        is_reached_list.append(is_reached)
    return np.any(is_reached_list)
'''
REF_CIV = ref_text('''
def _check_value_in_interval(cls, value, desired_interval):
    if isinstance(desired_interval, (Interval, AngleInterval)):
        is_reached = desired_interval.contains(value)
    else:
        raise ValueError()
    return is_reached
''')
REF_GOAL_REACHED = ref_text('''
def goal_reached(self, trajectory):
    for i, state in reversed(list(enumerate(trajectory.state_list))):
        if self.goal.is_reached(state):
            return True, i
    return False, -1
''')


def decorators(fn):
    return sorted(ast.unparse(d) for d in fn.decorator_list)


# ------------------------------------------------------------------------------------ is_reached: the checks
def split_is_reached(fn, methods):
    """normal form of is_reached -> (normalised function, loop, name of the flag, check statements, text of the frame)"""
    fn = _StripRaise().visit(N.normal(copy.deepcopy(fn), methods, KEEP))
    body = body_of(fn)
    if len(body) != 3 or not isinstance(body[1], ast.For) or body[1].orelse:
        bad(fn, "is_reached is not `list; for goal_state in self.state_list: ...; return any`")
    loop = body[1]
    # normal form of the loop body: ...; if goal_state_fields.issubset(state_fields): R = True; checks; append  else: raise
    if not loop.body or not isinstance(loop.body[-1], ast.If):
        bad(loop, "the loop body does not end with the subset test")
    guard = loop.body[-1]
    lb = list(guard.body)
    idx = [i for i, s in enumerate(lb) if isinstance(s, ast.Assign) and len(s.targets) == 1
           and isinstance(s.targets[0], ast.Name) and isinstance(s.value, ast.Constant) and s.value.value is True]
    if len(idx) != 1 or idx[0] != 0 or len(lb) < 2:
        bad(guard, "the accepted branch does not start with a single `is_reached = True`")
    frame = copy.deepcopy(fn)
    frame.body[1].body[-1].body = [copy.deepcopy(lb[0]), copy.deepcopy(lb[-1])]
    return fn, loop, lb[0].targets[0].id, lb[1:-1], N.alpha_text(frame)


REF_IS_REACHED = split_is_reached(ast.parse(REF_IS_REACHED_SRC).body[0], {})[4]


def parse_is_reached(fn, methods):
    if decorators(fn):
        bad(fn, "is_reached carries a decorator")
    fn, loop, r, checks_src, frame = split_is_reached(fn, methods)
    if frame != REF_IS_REACHED:
        raise SourceShapeError("the frame of GoalRegion.is_reached is not the expected one:\n" + frame
                               + "\n-- expected --\n" + REF_IS_REACHED)
    self_ = fn.args.args[0].arg
    g_names = {loop.target.id}
    sn = None
    for s in loop.body[:-1]:
        if isinstance(s, ast.Assign) and isinstance(s.targets[0], ast.Tuple) and isinstance(s.value, ast.Call) \
                and ast.unparse(s.value.func) == f"{self_}._harmonize_state_types":
            sn = s.targets[0].elts[0].id
            g_names.add(s.targets[0].elts[2].id)       # goal_state_tmp: the deep copy, returned unchanged
    if sn is None:
        bad(loop, "call of _harmonize_state_types not found")
    return [parse_check(s, r, sn, g_names, self_) for s in checks_src]


def parse_check(s, r, sn, g_names, self_):
    if not isinstance(s, ast.If) or s.orelse or len(s.body) != 1:
        bad(s, "a check is `if <guard>: is_reached = is_reached and <test>`")
    a = s.body[0]
    if not (isinstance(a, ast.Assign) and len(a.targets) == 1 and is_name(a.targets[0], r)
            and isinstance(a.value, ast.BoolOp) and isinstance(a.value.op, ast.And) and len(a.value.values) == 2
            and is_name(a.value.values[0], r)):
        bad(a, "a check assigns `is_reached and <test>` to is_reached")
    t = a.value.values[1]
    # ---- guard

    def goal_attr(n):
        return next((attr_of(n, g) for g in g_names if attr_of(n, g)), None)

    def has_value(n):
        """<X>.has_value("a") -> (X, a)"""
        if isinstance(n, ast.Call) and isinstance(n.func, ast.Attribute) and n.func.attr == "has_value" \
                and isinstance(n.func.value, ast.Name) and len(n.args) == 1 and not n.keywords and const_str(n.args[0]):
            return n.func.value.id, const_str(n.args[0])
        return None
    c = s.test
    if isinstance(c, ast.Compare) and len(c.ops) == 1 and isinstance(c.ops[0], ast.IsNot) \
            and isinstance(c.comparators[0], ast.Constant) and c.comparators[0].value is None and goal_attr(c.left):
        guard, attr = "GGoalNotNone", goal_attr(c.left)
    elif isinstance(c, ast.BoolOp) and isinstance(c.op, ast.And) and len(c.values) == 2 \
            and all(has_value(v) for v in c.values):
        (x1, a1), (x2, a2) = has_value(c.values[0]), has_value(c.values[1])
        if a1 != a2 or not ((x1 in g_names and x2 == sn) or (x2 in g_names and x1 == sn)):
            bad(c, "guard does not ask the goal state and the harmonised state for the same attribute")
        guard, attr = "GBothHave", a1
    else:
        bad(c, "guard outside the accepted shapes")
    if attr not in FLD:
        bad(c, f"attribute {attr} is not one the model knows")
    # ---- test
    if isinstance(t, ast.Call) and not t.keywords and isinstance(t.func, ast.Attribute):
        f = t.func
        if f.attr == "_check_value_in_interval" and isinstance(f.value, ast.Name) and f.value.id in (self_, "GoalRegion") \
                and len(t.args) == 2 and attr_of(t.args[0], sn) == attr and goal_attr(t.args[1]) == attr:
            return f"{{| c_fld := {FLD[attr]}; c_guard := {guard}; c_test := TInterval |}}"
        if f.attr == "contains_point" and goal_attr(f.value) == attr and len(t.args) == 1 and attr_of(t.args[0], sn) == attr:
            return f"{{| c_fld := {FLD[attr]}; c_guard := {guard}; c_test := TContainsPoint |}}"
    bad(t, f"test outside the accepted shapes (or not about the harmonised state's and the goal state's {attr})")


# ------------------------------------------------------------------------------------ _harmonize_state_types
def parse_harmonize(fn):
    if decorators(fn) != ["staticmethod"]:
        bad(fn, "_harmonize_state_types is not a staticmethod")
    a = fn.args
    if a.vararg or a.kwarg or a.kwonlyargs or a.posonlyargs or a.defaults or len(a.args) != 4:
        bad(fn, "_harmonize_state_types does not take exactly (state, goal_state, state_fields, goal_state_fields)")
    st, g, sf, gf = [x.arg for x in a.args]
    body = body_of(fn)
    if len(body) != 3:
        bad(fn, "_harmonize_state_types is not `copy; if ...; return`")
    c0 = body[0]
    if not (isinstance(c0, ast.Assign) and len(c0.targets) == 1 and isinstance(c0.targets[0], ast.Name)
            and ast.unparse(c0.value) == f"copy.deepcopy({st})"):
        bad(c0, "first statement is not state_new = copy.deepcopy(state)")
    sn = c0.targets[0].id
    if not isinstance(body[1], ast.If) or body[1].orelse:
        bad(body[1], "second statement is not a plain if")
    if not (isinstance(body[2], ast.Return) and ast.unparse(body[2].value) == f"({sn}, {sf}, {g}, {gf})"):
        bad(body[2], "does not return (state_new, state_fields, goal_state, goal_state_fields)")

    def cond(c):
        if isinstance(c, ast.BoolOp):
            k = "HAnd" if isinstance(c.op, ast.And) else "HOr"
            out = cond(c.values[0])
            for v in c.values[1:]:
                out = f"({k} {out} {cond(v)})"
            return out
        if isinstance(c, ast.UnaryOp) and isinstance(c.op, ast.Not):
            return f"(HNot {cond(c.operand)})"
        if isinstance(c, ast.Call) and isinstance(c.func, ast.Attribute) and c.func.attr == "issubset" \
                and isinstance(c.func.value, ast.Set) and len(c.args) == 1 and not c.keywords \
                and isinstance(c.args[0], ast.Name) and c.args[0].id in (sf, gf) \
                and all(const_str(e) in FLD for e in c.func.value.elts):
            names = "; ".join(FLD[const_str(e)] for e in c.func.value.elts)
            return f"(HSub [{names}] {'WState' if c.args[0].id == sf else 'WGoal'})"
        bad(c, "condition outside the accepted shapes")

    def sn_q(n):
        at = attr_of(n, sn)
        return QF.get(at)

    def stmt(s):
        # state_fields.remove("F")
        if isinstance(s, ast.Expr) and isinstance(s.value, ast.Call) and ast.unparse(s.value.func) == f"{sf}.remove" \
                and len(s.value.args) == 1 and const_str(s.value.args[0]) in FLD:
            return f"HRemove {FLD[const_str(s.value.args[0])]}"
        if isinstance(s, ast.Expr) and isinstance(s.value, ast.Call) and ast.unparse(s.value.func) == f"{sf}.discard" \
                and len(s.value.args) == 1 and const_str(s.value.args[0]) in FLD:
            return f"HDiscard {FLD[const_str(s.value.args[0])]}"
        # state_new.D = np.linalg.norm(np.array([state_new.A, state_new.B]))
        if isinstance(s, ast.Assign) and len(s.targets) == 1 and sn_q(s.targets[0]) and isinstance(s.value, ast.Call):
            v = s.value
            args = None
            if ast.unparse(v.func) == "np.linalg.norm" and len(v.args) == 1 and not v.keywords \
                    and isinstance(v.args[0], ast.Call) and ast.unparse(v.args[0].func) == "np.array" \
                    and len(v.args[0].args) == 1 and isinstance(v.args[0].args[0], ast.List):
                args = v.args[0].args[0].elts
            elif ast.unparse(v.func) in ("math.hypot", "np.hypot") and not v.keywords:
                args = v.args
            if args is not None and len(args) == 2 and all(sn_q(x) for x in args):
                return f"HNorm {sn_q(s.targets[0])} {sn_q(args[0])} {sn_q(args[1])}"
        # if "A" not in state_fields: add; attributes = {...}; attributes["A"] = math.atan2(sn.Y, sn.X); sn = CustomState(**attributes)
        if isinstance(s, ast.If) and not s.orelse and isinstance(s.test, ast.Compare) and len(s.test.ops) == 1 \
                and isinstance(s.test.ops[0], ast.NotIn) and const_str(s.test.left) in QF \
                and is_name(s.test.comparators[0], sf) and len(s.body) == 4:
            a_ = const_str(s.test.left)
            b = s.body
            ok = isinstance(b[0], ast.Expr) and ast.unparse(b[0].value) == f"{sf}.add({a_!r})"
            d = b[1].targets[0].id if isinstance(b[1], ast.Assign) and isinstance(b[1].targets[0], ast.Name) else None
            ok = ok and d is not None and ast.unparse(b[1].value) in (
                f"{{attr: getattr({sn}, attr) for attr in {sn}.attributes}}",
                f"{{a: getattr({sn}, a) for a in {sn}.attributes}}")
            y = x = None
            if ok and isinstance(b[2], ast.Assign) and ast.unparse(b[2].targets[0]) == f"{d}[{a_!r}]" \
                    and isinstance(b[2].value, ast.Call) and ast.unparse(b[2].value.func) in ("math.atan2", "np.arctan2") \
                    and len(b[2].value.args) == 2 and not b[2].value.keywords:
                y, x = sn_q(b[2].value.args[0]), sn_q(b[2].value.args[1])
            ok = ok and y and x and isinstance(b[3], ast.Assign) and is_name(b[3].targets[0], sn) \
                and ast.unparse(b[3].value) == f"CustomState(**{d})"
            if ok:
                return f"HDeriveIfMissing {QF[a_]} {y} {x}"
        bad(s, "statement outside the accepted shapes")
    return cond(body[1].test), [stmt(s) for s in body[1].body]


# ------------------------------------------------------------------------------------ the generated file
def text():
    src, trees = {}, {}
    for k, rel in FILES.items():
        raw = open(os.path.join(REPO, rel), "rb").read()
        src[k] = hashlib.sha1(raw).hexdigest()
        trees[k] = ast.parse(raw)
    gm = N.class_methods(trees["goal"], "GoalRegion")
    pm = N.class_methods(trees["pp"], "PlanningProblem")
    hfn = find_method(trees["goal"], "GoalRegion", "_harmonize_state_types")
    if decorators(hfn) != ["staticmethod"]:
        raise SourceShapeError("_harmonize_state_types is not a staticmethod")
    hn = N.normal(hfn, gm, KEEP)
    hn.decorator_list = hfn.decorator_list
    hc, hb = parse_harmonize(hn)
    checks = parse_is_reached(find_method(trees["goal"], "GoalRegion", "is_reached"), gm)
    civ = find_method(trees["goal"], "GoalRegion", "_check_value_in_interval")
    if decorators(civ) != ["classmethod"] or frame_text(civ, gm) != REF_CIV:
        raise SourceShapeError("GoalRegion._check_value_in_interval is not the expected text:\n" + frame_text(civ, gm))
    gr = find_method(trees["pp"], "PlanningProblem", "goal_reached")
    if decorators(gr) or frame_text(gr, pm) != REF_GOAL_REACHED:
        raise SourceShapeError("PlanningProblem.goal_reached is not the expected text:\n" + frame_text(gr, pm))
    out = ["(* GENERATED on every run by harness/props/c08_src.py from the syntax trees of GoalRegion._harmonize_state_types, "
           "is_reached, _check_value_in_interval and PlanningProblem.goal_reached.  Do not edit.",
           "   sources: " + ", ".join(f"{FILES[k]} sha1={src[k]}" for k in sorted(FILES)) + " *)",
           "From Coq Require Import List.", "From CR Require Import Model.GoalSrc.", "Import ListNotations.", "",
           "Definition src_harmonize : hprog :=", f"  {{| h_cond := {hc};", "     h_body := [" + "; ".join(hb) + "] |}.",
           "Definition src_checks : list check :=", "  [ " + ";\n    ".join(checks) + " ].",
           "Definition src_prologue : prologue_form := PrologueStd.",
           "Definition src_loop : loop_form := LoopAppendAny.",
           "Definition src_check_value : civ_form := CivContains.",
           "Definition src_goal_reached : scan_form := ScanReversedFirstHit.", ""]
    return "\n".join(out)


def generate():
    return write_if_changed(os.path.join(COQ, "Gen", "Src_goal.v"), text())


if __name__ == "__main__":
    print(text())
