"""C19 source tie for clause (a), parameter propagation: the bodies of BaseParam.__setattr__ and BaseParam.__post_init__
(commonroad/visualization/draw_params.py) are parsed on every run into the statement language of
coq/Model/DrawParamsSrc.v and written to coq/Gen/Src_drawparams.v; Proofs/SrcDrawParams.v proves the parsed programs to
compute the model's [set] / [post_init] (Model/DrawParams.v), which the C19 propagation theorems are about.

Fail-closed: any statement, condition or call outside the shapes listed below raises SourceShapeError, which the check
reports as a broken obligation (the model is no longer shown to be the source).  Accepted, with `self`, `name`, `value`
being the method's three parameters under whatever names the source gives them:

  __setattr__(self, name, value)
    if name in {f.name for f in dataclasses.fields(self)}: super().__setattr__(name, value)   -> SStoreIfDeclares
    super().__setattr__(name, value)                                                          -> SStore
    if self.__initialized: for k, v in self.__dict__.items(): <item statements>               -> SForIfInit [..]
    for k, v in self.__dict__.items(): <item statements>                                      -> SFor [..]
      item statements:  if isinstance(v, BaseParam): v.__setattr__(name, value)               -> ICallIfGroup
                        v.__setattr__(name, value)                                            -> ICall
  __post_init__(self)
    self.__initialized = True                                                                 -> PInitTrue
    self.k = self.k                                                                           -> PReassign "k"

Trusted: this parser (what the Python shapes above mean is fixed by the interpreter of Model/DrawParamsSrc.v), that
no subclass of BaseParam overrides the two methods (checked by c19_gen.py), and dataclasses.fields(self) = the declared
fields of the group (the generated class table)."""
import ast
import hashlib
import os

from vlib.core import COQ, REPO
from vlib.py2coq import write_if_changed


class SourceShapeError(Exception):
    pass


def bad(node, why):
    raise SourceShapeError(f"draw_params.py:{getattr(node, 'lineno', '?')}: {why}: {ast.unparse(node)[:120]}")


def is_name(n, ident):
    return isinstance(n, ast.Name) and n.id == ident


def is_initialized(n, self_):
    return (isinstance(n, ast.Attribute) and is_name(n.value, self_)
            and n.attr in ("__initialized", "_BaseParam__initialized"))


def is_setattr_call(call, recv_ok, name, value):
    """recv.__setattr__(name, value)"""
    return (isinstance(call, ast.Call) and isinstance(call.func, ast.Attribute) and call.func.attr == "__setattr__"
            and recv_ok(call.func.value) and len(call.args) == 2 and not call.keywords
            and is_name(call.args[0], name) and is_name(call.args[1], value))


def is_super(n):
    return isinstance(n, ast.Call) and is_name(n.func, "super") and not n.args and not n.keywords


def is_declares(test, self_, name):
    """name in {f.name for f in dataclasses.fields(self)}  (set / list / generator comprehension, or a tuple / list /
    set built from one)"""
    if not (isinstance(test, ast.Compare) and len(test.ops) == 1 and isinstance(test.ops[0], ast.In)
            and is_name(test.left, name)):
        return False
    c = test.comparators[0]
    if isinstance(c, ast.Call) and isinstance(c.func, ast.Name) and c.func.id in ("set", "list", "tuple", "frozenset") \
            and len(c.args) == 1 and not c.keywords:
        c = c.args[0]
    if not isinstance(c, (ast.SetComp, ast.ListComp, ast.GeneratorExp)) or len(c.generators) != 1:
        return False
    g = c.generators[0]
    if g.ifs or g.is_async or not isinstance(g.target, ast.Name):
        return False
    f = g.target.id
    if not (isinstance(c.elt, ast.Attribute) and is_name(c.elt.value, f) and c.elt.attr == "name"):
        return False
    it = g.iter
    return (isinstance(it, ast.Call) and not it.keywords and len(it.args) == 1 and is_name(it.args[0], self_)
            and ((isinstance(it.func, ast.Attribute) and it.func.attr == "fields" and is_name(it.func.value, "dataclasses"))
                 or is_name(it.func, "fields")))


def parse_items(body, v, name, value):
    out = []
    for s in body:
        if isinstance(s, ast.Expr) and is_setattr_call(s.value, lambda r: is_name(r, v), name, value):
            out.append("ICall")
        elif (isinstance(s, ast.If) and not s.orelse and isinstance(s.test, ast.Call) and is_name(s.test.func, "isinstance")
              and len(s.test.args) == 2 and is_name(s.test.args[0], v) and is_name(s.test.args[1], "BaseParam")
              and len(s.body) == 1 and isinstance(s.body[0], ast.Expr)
              and is_setattr_call(s.body[0].value, lambda r: is_name(r, v), name, value)):
            out.append("ICallIfGroup")
        else:
            bad(s, "statement inside the loop over the nested values is outside the accepted shapes")
    return out


def parse_for(s, self_, name, value):
    """for k, v in self.__dict__.items(): ..."""
    if not (isinstance(s, ast.For) and not s.orelse and isinstance(s.target, ast.Tuple) and len(s.target.elts) == 2
            and all(isinstance(e, ast.Name) for e in s.target.elts)):
        bad(s, "not a loop `for k, v in self.__dict__.items()`")
    it = s.iter
    if not (isinstance(it, ast.Call) and not it.args and not it.keywords and isinstance(it.func, ast.Attribute)
            and it.func.attr == "items" and isinstance(it.func.value, ast.Attribute) and it.func.value.attr == "__dict__"
            and is_name(it.func.value.value, self_)):
        bad(s, "the loop does not run over self.__dict__.items()")
    k, v = (e.id for e in s.target.elts)
    if k in (name, value, self_) or v in (name, value, self_):
        bad(s, "loop variables shadow the parameters")
    return parse_items(s.body, v, name, value)


def parse_setattr(fn):
    a = fn.args
    if a.vararg or a.kwarg or a.kwonlyargs or a.posonlyargs or a.defaults or len(a.args) != 3:
        bad(fn, "__setattr__ does not take exactly (self, name, value)")
    self_, name, value = (x.arg for x in a.args)
    out = []
    body = [s for s in fn.body if not (isinstance(s, ast.Expr) and isinstance(s.value, ast.Constant)
                                       and isinstance(s.value.value, str))]
    for s in body:
        if isinstance(s, ast.Expr) and is_setattr_call(s.value, is_super, name, value):
            out.append("SStore")
        elif (isinstance(s, ast.If) and not s.orelse and is_declares(s.test, self_, name) and len(s.body) == 1
              and isinstance(s.body[0], ast.Expr) and is_setattr_call(s.body[0].value, is_super, name, value)):
            out.append("SStoreIfDeclares")
        elif isinstance(s, ast.If) and not s.orelse and is_initialized(s.test, self_) and len(s.body) == 1:
            out.append("(SForIfInit [" + "; ".join(parse_for(s.body[0], self_, name, value)) + "])")
        elif isinstance(s, ast.For):
            out.append("(SFor [" + "; ".join(parse_for(s, self_, name, value)) + "])")
        else:
            bad(s, "statement of __setattr__ is outside the accepted shapes")
    return out


def parse_post_init(fn):
    a = fn.args
    if a.vararg or a.kwarg or a.kwonlyargs or a.posonlyargs or a.defaults or len(a.args) != 1:
        bad(fn, "__post_init__ takes more than self")
    self_ = a.args[0].arg
    out = []
    for s in fn.body:
        if isinstance(s, ast.Expr) and isinstance(s.value, ast.Constant) and isinstance(s.value.value, str):
            continue
        if not (isinstance(s, ast.Assign) and len(s.targets) == 1 and isinstance(s.targets[0], ast.Attribute)
                and is_name(s.targets[0].value, self_)):
            bad(s, "statement of __post_init__ is no assignment to an attribute of self")
        t = s.targets[0]
        if is_initialized(t, self_):
            if not (isinstance(s.value, ast.Constant) and s.value.value is True):
                bad(s, "the initialised flag is set to something else than True")
            out.append("PInitTrue")
        elif isinstance(s.value, ast.Attribute) and is_name(s.value.value, self_) and s.value.attr == t.attr:
            out.append(f'PReassign "{t.attr}"')
        else:
            bad(s, "assignment of __post_init__ is not `self.k = self.k`")
    return out


def text():
    path = os.path.join(REPO, "commonroad", "visualization", "draw_params.py")
    src = open(path).read()
    tree = ast.parse(src)
    cls = [n for n in tree.body if isinstance(n, ast.ClassDef) and n.name == "BaseParam"]
    if len(cls) != 1:
        raise SourceShapeError("draw_params.py: class BaseParam not found exactly once")
    meth = {n.name: n for n in cls[0].body if isinstance(n, ast.FunctionDef)}
    for m in ("__setattr__", "__post_init__"):
        if m not in meth:
            raise SourceShapeError(f"draw_params.py: BaseParam.{m} not found")
        if meth[m].decorator_list:
            bad(meth[m], "decorated method")
    for n in ast.walk(tree):      # no other class may bring its own assignment semantics (also checked on the live classes)
        if isinstance(n, ast.ClassDef) and n.name != "BaseParam":
            for f in n.body:
                if isinstance(f, ast.FunctionDef) and f.name in ("__setattr__", "__post_init__", "__setitem__"):
                    bad(f, f"class {n.name} overrides {f.name}")
    sa, pi = parse_setattr(meth["__setattr__"]), parse_post_init(meth["__post_init__"])
    sha = hashlib.sha1(src.encode()).hexdigest()[:12]
    return ("(* GENERATED on every run by harness/props/c19_src.py from the syntax tree of BaseParam.__setattr__ / "
            f"__post_init__. Do not edit.\n   source: {path} sha1={sha} *)\n"
            "From Coq Require Import String List.\nImport ListNotations.\n"
            "From CR Require Import Model.DrawParamsSrc.\nOpen Scope string_scope.\n\n"
            "Definition src_setattr : list stmt := [" + "; ".join(sa) + "].\n"
            "Definition src_post_init : list pstmt := [" + "; ".join(pi) + "].\n")


def generate():
    return write_if_changed(os.path.join(COQ, "Gen", "Src_drawparams.v"), text())


if __name__ == "__main__":
    print(text())
