"""C19 source tie for clause (a), parameter propagation: the bodies of BaseParam.__setattr__ and BaseParam.__post_init__
(commonroad/visualization/draw_params.py) are parsed on every run into the statement language of
coq/Model/DrawParamsSrc.v and written to coq/Gen/Src_drawparams.v; Proofs/SrcDrawParams.v proves the parsed programs to
compute the model's [set] / [post_init] (Model/DrawParams.v), which the C19 propagation theorems are about.

Fail-closed: any statement, condition or call outside the shapes listed below raises SourceShapeError, which the check
reports as a broken obligation (the model is no longer shown to be the source).  Accepted, with `self`, `name`, `value`
being the method's three parameters under whatever names the source gives them:

  __setattr__(self, name, value)
    if name in {f.name for f in dataclasses.fields(self)}: super().__setattr__(name, value)   -> SStoreIfDeclares
    super().__setattr__(name, value)                                                          -> SStore
    if self.__initialized: for k, v in self.__dict__.items(): <item statements>               -> SForIfInit [..]
    for k, v in self.__dict__.items(): <item statements>                                      -> SFor [..]
      item statements:  if isinstance(v, BaseParam): v.__setattr__(name, value)               -> ICallIfGroup
                        v.__setattr__(name, value)                                            -> ICall
  __post_init__(self)
    self.__initialized = True                                                                 -> PInitTrue
    self.k = self.k                                                                           -> PReassign "k"
    for n in ("k1", "k2", ...): setattr(self, n, getattr(self, n))                            -> PReassign "k1"; ...
Calls of module-level helper functions and of plain methods of BaseParam with plain-name arguments are inlined first
(a call statement by the body of a helper that returns nothing, an `if` test by the expression of a one-line
`return <expr>` helper; parameters renamed to the argument names), `for v in self.__dict__.values()` is accepted like
the loop over `.items()`.

Trusted: this parser (what the Python shapes above mean is fixed by the interpreter of Model/DrawParamsSrc.v), that
no subclass of BaseParam overrides the two methods (checked by c19_gen.py), and dataclasses.fields(self) = the declared
fields of the group (the generated class table)."""
import ast
import hashlib
import os

from vlib.core import COQ, REPO
from vlib.py2coq import write_if_changed


class SourceShapeError(Exception):
    pass


def bad(node, why):
    try:
        txt = ast.unparse(node)[:120]
    except Exception:  # noqa - a node without source positions: name its kind
        txt = type(node).__name__
    raise SourceShapeError(f"draw_params.py:{getattr(node, 'lineno', '?')}: {why}: {txt}")


def is_name(n, ident):
    return isinstance(n, ast.Name) and n.id == ident


def is_initialized(n, self_):
    return (isinstance(n, ast.Attribute) and is_name(n.value, self_)
            and n.attr in ("__initialized", "_BaseParam__initialized"))


def is_setattr_call(call, recv_ok, name, value):
    """recv.__setattr__(name, value)"""
    return (isinstance(call, ast.Call) and isinstance(call.func, ast.Attribute) and call.func.attr == "__setattr__"
            and recv_ok(call.func.value) and len(call.args) == 2 and not call.keywords
            and is_name(call.args[0], name) and is_name(call.args[1], value))


def is_super(n):
    return isinstance(n, ast.Call) and is_name(n.func, "super") and not n.args and not n.keywords


def is_declares(test, self_, name):
    """name in {f.name for f in dataclasses.fields(self)}  (set / list / generator comprehension, or a tuple / list /
    set built from one)"""
    if not (isinstance(test, ast.Compare) and len(test.ops) == 1 and isinstance(test.ops[0], ast.In)
            and is_name(test.left, name)):
        return False
    c = test.comparators[0]
    if isinstance(c, ast.Call) and isinstance(c.func, ast.Name) and c.func.id in ("set", "list", "tuple", "frozenset") \
            and len(c.args) == 1 and not c.keywords:
        c = c.args[0]
    if not isinstance(c, (ast.SetComp, ast.ListComp, ast.GeneratorExp)) or len(c.generators) != 1:
        return False
    g = c.generators[0]
    if g.ifs or g.is_async or not isinstance(g.target, ast.Name):
        return False
    f = g.target.id
    if not (isinstance(c.elt, ast.Attribute) and is_name(c.elt.value, f) and c.elt.attr == "name"):
        return False
    it = g.iter
    return (isinstance(it, ast.Call) and not it.keywords and len(it.args) == 1 and is_name(it.args[0], self_)
            and ((isinstance(it.func, ast.Attribute) and it.func.attr == "fields" and is_name(it.func.value, "dataclasses"))
                 or is_name(it.func, "fields")))


def parse_items(body, v, name, value):
    out = []
    for s in body:
        if isinstance(s, ast.Expr) and is_setattr_call(s.value, lambda r: is_name(r, v), name, value):
            out.append("ICall")
        elif (isinstance(s, ast.If) and not s.orelse and isinstance(s.test, ast.Call) and is_name(s.test.func, "isinstance")
              and len(s.test.args) == 2 and is_name(s.test.args[0], v) and is_name(s.test.args[1], "BaseParam")
              and len(s.body) == 1 and isinstance(s.body[0], ast.Expr)
              and is_setattr_call(s.body[0].value, lambda r: is_name(r, v), name, value)):
            out.append("ICallIfGroup")
        else:
            bad(s, "statement inside the loop over the nested values is outside the accepted shapes")
    return out


def parse_for(s, self_, name, value):
    """for k, v in self.__dict__.items(): ...   |   for v in self.__dict__.values(): ..."""
    it = s.iter if isinstance(s, ast.For) else None
    over_dict = (isinstance(it, ast.Call) and not it.args and not it.keywords and isinstance(it.func, ast.Attribute)
                 and isinstance(it.func.value, ast.Attribute) and it.func.value.attr == "__dict__"
                 and is_name(it.func.value.value, self_))
    if not (isinstance(s, ast.For) and not s.orelse and over_dict):
        bad(s, "not a loop over self.__dict__.items() / .values()")
    if it.func.attr == "items" and isinstance(s.target, ast.Tuple) and len(s.target.elts) == 2 \
            and all(isinstance(e, ast.Name) for e in s.target.elts):
        k, v = (e.id for e in s.target.elts)
    elif it.func.attr == "values" and isinstance(s.target, ast.Name):
        k, v = "", s.target.id
    else:
        bad(s, "loop target does not fit self.__dict__.items() / .values()")
    if k in (name, value, self_) or v in (name, value, self_):
        bad(s, "loop variables shadow the parameters")
    return parse_items(s.body, v, name, value)


class _Subst(ast.NodeTransformer):
    def __init__(self, m):
        self.m = m

    def visit_Name(self, n):
        return ast.copy_location(ast.Name(id=self.m.get(n.id, n.id), ctx=n.ctx), n)


def _callee(call, funcs, self_):
    """(FunctionDef, argument names) of a call to a module-level helper or a method of BaseParam with plain-name
    arguments, else None"""
    if not isinstance(call, ast.Call) or call.keywords or not all(isinstance(a, ast.Name) for a in call.args):
        return None
    f = call.func
    if isinstance(f, ast.Name) and f.id in funcs["module"]:
        return funcs["module"][f.id], [a.id for a in call.args]
    if isinstance(f, ast.Attribute) and is_name(f.value, self_) and f.attr in funcs["methods"] \
            and not f.attr.startswith("__"):
        return funcs["methods"][f.attr], [self_] + [a.id for a in call.args]
    return None


def _body_of(fd):
    return [b for b in fd.body if not (isinstance(b, ast.Expr) and isinstance(b.value, ast.Constant)
                                       and isinstance(b.value.value, str))]


def inline(stmts, funcs, self_, depth=0):
    """helper calls replaced by the helper's body (parameters renamed to the argument names): a call statement by the
    statements of a helper that returns nothing, a call used as an `if` test by the expression of a helper whose
    body is one `return <expr>`"""
    if depth > 4:
        raise SourceShapeError("helper calls nested too deeply")
    out = []
    for st in stmts:
        if isinstance(st, ast.Expr):
            c = _callee(st.value, funcs, self_)
            if c is not None:
                fd, args = c
                a = fd.args
                if a.vararg or a.kwarg or a.kwonlyargs or a.defaults or len(a.args) != len(args):
                    bad(st, "helper signature does not fit the call")
                body = _body_of(fd)
                if any(isinstance(n, ast.Return) and n.value is not None for b in body for n in ast.walk(b)):
                    bad(st, "helper called as a statement returns a value")
                m = dict(zip([x.arg for x in a.args], args))
                out += inline([_Subst(m).visit(ast.parse(ast.unparse(b)).body[0]) for b in body
                               if not isinstance(b, ast.Return)], funcs, self_, depth + 1)
                continue
        if isinstance(st, ast.If):
            c = _callee(st.test, funcs, self_)
            if c is not None:
                fd, args = c
                body = _body_of(fd)
                a = fd.args
                if len(body) != 1 or not isinstance(body[0], ast.Return) or body[0].value is None \
                        or a.vararg or a.kwarg or a.kwonlyargs or a.defaults or len(a.args) != len(args):
                    bad(st, "helper used as a condition is not a single `return <expr>`")
                m = dict(zip([x.arg for x in a.args], args))
                st = ast.If(test=_Subst(m).visit(ast.parse(ast.unparse(body[0].value), mode="eval").body),
                            body=st.body, orelse=st.orelse)
            st = ast.If(test=st.test, body=inline(st.body, funcs, self_, depth), orelse=inline(st.orelse, funcs, self_, depth))
        elif isinstance(st, ast.For):
            st = ast.For(target=st.target, iter=st.iter, body=inline(st.body, funcs, self_, depth), orelse=st.orelse,
                         type_comment=None)
        out.append(st)
    return out


def expand_post_init_loop(stmts, self_):
    """for n in ("a", "b", ...): setattr(self, n, getattr(self, n))   ->   self.a = self.a; self.b = self.b; ..."""
    out = []
    for st in stmts:
        if isinstance(st, ast.For) and not st.orelse and isinstance(st.target, ast.Name) \
                and isinstance(st.iter, (ast.Tuple, ast.List)) \
                and all(isinstance(e, ast.Constant) and isinstance(e.value, str) for e in st.iter.elts) \
                and len(st.body) == 1 and isinstance(st.body[0], ast.Expr):
            c, n = st.body[0].value, st.target.id
            if (isinstance(c, ast.Call) and is_name(c.func, "setattr") and len(c.args) == 3 and not c.keywords
                    and is_name(c.args[0], self_) and is_name(c.args[1], n) and isinstance(c.args[2], ast.Call)
                    and is_name(c.args[2].func, "getattr") and len(c.args[2].args) == 2 and not c.args[2].keywords
                    and is_name(c.args[2].args[0], self_) and is_name(c.args[2].args[1], n)):
                for e in st.iter.elts:
                    out.append(ast.parse(f"{self_}.{e.value} = {self_}.{e.value}").body[0])
                continue
        out.append(st)
    return out


def parse_setattr(fn, funcs=None):
    a = fn.args
    if a.vararg or a.kwarg or a.kwonlyargs or a.posonlyargs or a.defaults or len(a.args) != 3:
        bad(fn, "__setattr__ does not take exactly (self, name, value)")
    self_, name, value = (x.arg for x in a.args)
    out = []
    body = [s for s in fn.body if not (isinstance(s, ast.Expr) and isinstance(s.value, ast.Constant)
                                       and isinstance(s.value.value, str))]
    if funcs is not None:
        body = inline(body, funcs, self_)
    for s in body:
        if isinstance(s, ast.Expr) and is_setattr_call(s.value, is_super, name, value):
            out.append("SStore")
        elif (isinstance(s, ast.If) and not s.orelse and is_declares(s.test, self_, name) and len(s.body) == 1
              and isinstance(s.body[0], ast.Expr) and is_setattr_call(s.body[0].value, is_super, name, value)):
            out.append("SStoreIfDeclares")
        elif isinstance(s, ast.If) and not s.orelse and is_initialized(s.test, self_) and len(s.body) == 1:
            out.append("(SForIfInit [" + "; ".join(parse_for(s.body[0], self_, name, value)) + "])")
        elif isinstance(s, ast.For):
            out.append("(SFor [" + "; ".join(parse_for(s, self_, name, value)) + "])")
        else:
            bad(s, "statement of __setattr__ is outside the accepted shapes")
    return out


def parse_post_init(fn, funcs=None):
    a = fn.args
    if a.vararg or a.kwarg or a.kwonlyargs or a.posonlyargs or a.defaults or len(a.args) != 1:
        bad(fn, "__post_init__ takes more than self")
    self_ = a.args[0].arg
    out = []
    body = expand_post_init_loop(fn.body, self_)
    if funcs is not None:
        body = expand_post_init_loop(inline(body, funcs, self_), self_)
    for s in body:
        if isinstance(s, ast.Expr) and isinstance(s.value, ast.Constant) and isinstance(s.value.value, str):
            continue
        if not (isinstance(s, ast.Assign) and len(s.targets) == 1 and isinstance(s.targets[0], ast.Attribute)
                and is_name(s.targets[0].value, self_)):
            bad(s, "statement of __post_init__ is no assignment to an attribute of self")
        t = s.targets[0]
        if is_initialized(t, self_):
            if not (isinstance(s.value, ast.Constant) and s.value.value is True):
                bad(s, "the initialised flag is set to something else than True")
            out.append("PInitTrue")
        elif isinstance(s.value, ast.Attribute) and is_name(s.value.value, self_) and s.value.attr == t.attr:
            out.append(f'PReassign "{t.attr}"')
        else:
            bad(s, "assignment of __post_init__ is not `self.k = self.k`")
    return out


def text():
    path = os.path.join(REPO, "commonroad", "visualization", "draw_params.py")
    src = open(path).read()
    tree = ast.parse(src)
    cls = [n for n in tree.body if isinstance(n, ast.ClassDef) and n.name == "BaseParam"]
    if len(cls) != 1:
        raise SourceShapeError("draw_params.py: class BaseParam not found exactly once")
    meth = {n.name: n for n in cls[0].body if isinstance(n, ast.FunctionDef)}
    for m in ("__setattr__", "__post_init__"):
        if m not in meth:
            raise SourceShapeError(f"draw_params.py: BaseParam.{m} not found")
        if meth[m].decorator_list:
            bad(meth[m], "decorated method")
    for n in ast.walk(tree):      # no other class may bring its own assignment semantics (also checked on the live classes)
        if isinstance(n, ast.ClassDef) and n.name != "BaseParam":
            for f in n.body:
                if isinstance(f, ast.FunctionDef) and f.name in ("__setattr__", "__post_init__", "__setitem__"):
                    bad(f, f"class {n.name} overrides {f.name}")
    funcs = {"module": {n.name: n for n in tree.body if isinstance(n, ast.FunctionDef)}, "methods": meth}
    sa, pi = parse_setattr(meth["__setattr__"], funcs), parse_post_init(meth["__post_init__"], funcs)
    sha = hashlib.sha1(src.encode()).hexdigest()[:12]
    return ("(* GENERATED on every run by harness/props/c19_src.py from the syntax tree of BaseParam.__setattr__ / "
            f"__post_init__. Do not edit.\n   source: {path} sha1={sha} *)\n"
            "From Coq Require Import String List.\nImport ListNotations.\n"
            "From CR Require Import Model.DrawParamsSrc.\nOpen Scope string_scope.\n\n"
            "Definition src_setattr : list stmt := [" + "; ".join(sa) + "].\n"
            "Definition src_post_init : list pstmt := [" + "; ".join(pi) + "].\n")


def generate():
    return write_if_changed(os.path.join(COQ, "Gen", "Src_drawparams.v"), text())


if __name__ == "__main__":
    print(text())
