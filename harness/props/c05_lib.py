"""Shared by c05.py and c04.py: Coq-term printers and flat observations of commonroad objects in the
traversal order of coq/Model/Scene.v ([atoms_*]), plus the edge streams for angles / translations."""
import math
from fractions import Fraction

import numpy as np

import commonroad
from commonroad.common.util import AngleInterval, Interval
from commonroad.geometry.shape import Circle, Polygon, Rectangle, Shape, ShapeGroup
from commonroad.prediction.prediction import SetBasedPrediction, TrajectoryPrediction
from commonroad.scenario.obstacle import DynamicObstacle, EnvironmentObstacle, PhantomObstacle, StaticObstacle

from vlib.core import qlist, qq, qz

TWO_PI = commonroad.TWO_PI
PI = math.pi


def num(x):
    """exact rational of a Python / numpy number"""
    if isinstance(x, (bool, np.bool_)):
        return Fraction(int(x))
    if isinstance(x, (int, np.integer)):
        return Fraction(int(x))
    return Fraction(float(x))


# what a flat observation holds in place of a stored value that is not a finite number (an interval where a number
# belongs, an object of a foreign class, nan, ...): no model value is close to it, so the correspondence disagrees
# on that case instead of the harness crashing
NOT_A_NUMBER = Fraction(-987654321, 1000)


def num_or_marker(x):
    try:
        if isinstance(x, (bool, np.bool_, int, np.integer)):
            return Fraction(int(x))
        if isinstance(x, Fraction):
            return x
        if isinstance(x, (float, np.floating)) and math.isfinite(float(x)):
            return Fraction(float(x))
    except Exception:  # noqa
        pass
    return NOT_A_NUMBER


def cq(x):
    return qq(num(x))


def cpt(p):
    return f"({cq(p[0])}, {cq(p[1])})"


def cpts(arr):
    return qlist([cpt(p) for p in arr])


def copt(x, f):
    return "None" if x is None else f"(Some {f(x)})"


# ------------------------------------------------------------------------------------ shapes
def c_shape(sh):
    if isinstance(sh, Rectangle):
        return f"(Rect {cq(sh.length)} {cq(sh.width)} {cpt(sh.center)} {cq(sh.orientation)})"
    if isinstance(sh, Circle):
        return f"(Circ {cq(sh.radius)} {cpt(sh.center)})"
    if isinstance(sh, Polygon):
        return f"(Poly {cpts(sh.vertices)})"
    if isinstance(sh, ShapeGroup):
        return f"(Group {qlist([c_shape(x) for x in sh.shapes])})"
    raise TypeError(type(sh))


def f_shape(sh):
    if isinstance(sh, Rectangle):
        return [sh.length, sh.width, sh.center[0], sh.center[1], sh.orientation]
    if isinstance(sh, Circle):
        return [sh.radius, sh.center[0], sh.center[1]]
    if isinstance(sh, Polygon):
        return [v for p in sh.vertices for v in (p[0], p[1])]
    if isinstance(sh, ShapeGroup):
        out = [len(sh.shapes)]
        for x in sh.shapes:
            out += f_shape(x)
        return out
    raise TypeError(type(sh))


# ------------------------------------------------------------------------------------ states
def derived_orientation(st):
    """point-mass states: orientation is a read-only property computed from (velocity, velocity_y)"""
    return isinstance(getattr(type(st), "orientation", None), property)


def is_num(v):
    return isinstance(v, (int, float, np.number)) and not isinstance(v, (bool, np.bool_))


def state_parts(st):
    """(time : int, position | None, stored orientation | None, velocity vector | None, rest : list of numbers)"""
    ts = getattr(st, "time_step", None)
    rest = []
    vec = None
    if derived_orientation(st) and is_num(getattr(st, "velocity", None)) and is_num(getattr(st, "velocity_y", None)):
        vec = (st.velocity, st.velocity_y)
    if isinstance(ts, Interval):
        rest += [ts.start, ts.end]
        ts = 0
    elif ts is None:
        ts = 0
    pos = getattr(st, "position", None)
    ori = None if derived_orientation(st) else getattr(st, "orientation", None)
    for k in st.attributes:
        if k in ("time_step", "position", "orientation") or (vec is not None and k in ("velocity", "velocity_y")):
            continue
        v = getattr(st, k, None)
        if v is None:
            continue
        if isinstance(v, Interval):  # also AngleInterval
            rest += [v.start, v.end]
        elif isinstance(v, (int, float, np.number, bool, np.bool_)):
            rest.append(v)
        else:
            rest.append(NOT_A_NUMBER)  # a value of a foreign type: never equal to the model's payload
    return (int(ts) if is_num(ts) else 0), pos, ori, vec, rest


def c_state(st):
    ts, pos, ori, vec, rest = state_parts(st)
    if pos is None:
        p = "None"
    elif isinstance(pos, Shape):
        p = f"(Some (PRegion {c_shape(pos)}))"
    else:
        p = f"(Some (PPoint {cpt(pos)}))"
    if ori is None:
        o = "None"
    elif isinstance(ori, AngleInterval):
        o = f"(Some (OItv (Build_itv {cq(ori.start)} {cq(ori.end)})))"
    elif is_num(ori):
        o = f"(Some (OExact {cq(ori)}))"
    else:
        raise TypeError(f"input state with an orientation of type {type(ori).__name__}")
    return f"(Build_state {qz(ts)} {p} {o} {copt(vec, cpt)} {qlist([cq(x) for x in rest])})"


def f_state(st):
    """flat observation of a state in the order of [atoms_state]; robust against values of unexpected types in a
    *transformed* state (they are what a broken translate_rotate may leave behind): a position that is neither a
    point nor a shape gets the tag 5, an orientation that is an interval but not an AngleInterval the tag 3, anything
    else the tag 4 - tags the model never produces, so the case disagrees"""
    ts, pos, ori, vec, rest = state_parts(st)
    out = [ts]
    if pos is None:
        out.append(0)
    elif isinstance(pos, Shape):
        out += [1, 2] + f_shape(pos)
    elif isinstance(pos, np.ndarray) and pos.shape == (2,):
        out += [1, pos[0], pos[1]]
    else:
        out += [5]
    if ori is None:
        out.append(0)
    elif isinstance(ori, Interval):
        # (start, length, end): the ends are compared modulo 2pi and must lie inside [-2pi, 2pi] (Corr/C05.v [FR])
        out += [1 if isinstance(ori, AngleInterval) else 3, ori.start, num_or_marker(ori.end) - num_or_marker(ori.start),
                ori.end]
    elif is_num(ori):
        out += [1, ori]
    else:
        out += [4]
    out += [0] if vec is None else [1, vec[0], vec[1]]
    return out + list(rest)


def c_list(f, xs):
    return qlist([f(x) for x in xs])


def f_list(f, xs):
    out = [len(xs)]
    for x in xs:
        out += f(x)
    return out


def f_ptlist(arr):
    return f_list(lambda p: [p[0], p[1]], list(arr))


# ------------------------------------------------------------------------------------ road network
def c_lanelet(la):
    sl = la.stop_line
    s = "None" if sl is None else f"(Some ({cpt(sl.start)}, {cpt(sl.end)}))"
    return f"(Build_lanelet {cpts(la.left_vertices)} {cpts(la.center_vertices)} {cpts(la.right_vertices)} {s})"


def f_lanelet(la):
    sl = la.stop_line
    out = f_ptlist(la.left_vertices) + f_ptlist(la.center_vertices) + f_ptlist(la.right_vertices)
    return out + ([0] if sl is None else [1, sl.start[0], sl.start[1], sl.end[0], sl.end[1]])


def c_network(net):
    return (f"(Build_network {c_list(c_lanelet, net.lanelets)} {cpts([s.position for s in net.traffic_signs])} "
            f"{cpts([t.position for t in net.traffic_lights])})")


def f_network(net):
    return (f_list(f_lanelet, net.lanelets) + f_ptlist([s.position for s in net.traffic_signs])
            + f_ptlist([t.position for t in net.traffic_lights]))


# ------------------------------------------------------------------------------------ obstacles
def c_prediction(p):
    if isinstance(p, TrajectoryPrediction):
        return f"(PTraj {c_list(c_state, p.trajectory.state_list)} {c_shape(p.shape)})"
    if isinstance(p, SetBasedPrediction):
        return f"(PSet {c_list(c_shape, [o.shape for o in p.occupancy_set])})"
    raise TypeError(type(p))


def f_prediction(p):
    if isinstance(p, TrajectoryPrediction):
        return [1] + f_list(f_state, p.trajectory.state_list)
    return [2] + f_list(f_shape, [o.shape for o in p.occupancy_set])


def c_obstacle(o):
    if isinstance(o, StaticObstacle):
        return f"(OStatic {c_shape(o.obstacle_shape)} {c_state(o.initial_state)})"
    if isinstance(o, DynamicObstacle):
        return f"(ODynamic {c_shape(o.obstacle_shape)} {c_state(o.initial_state)} {copt(o.prediction, c_prediction)})"
    if isinstance(o, PhantomObstacle):
        occs = None if o.prediction is None else [x.shape for x in o.prediction.occupancy_set]
        return f"(OPhantom {copt(occs, lambda l: c_list(c_shape, l))})"
    if isinstance(o, EnvironmentObstacle):
        return f"(OEnv {c_shape(o.obstacle_shape)})"
    raise TypeError(type(o))


def f_obstacle(o):
    if isinstance(o, StaticObstacle):
        return [1] + f_state(o.initial_state)
    if isinstance(o, DynamicObstacle):
        return [2] + f_state(o.initial_state) + ([0] if o.prediction is None else [1] + f_prediction(o.prediction))
    if isinstance(o, PhantomObstacle):
        if o.prediction is None:
            return [3, 0]
        return [3, 1] + f_list(f_shape, [x.shape for x in o.prediction.occupancy_set])
    return [4] + f_shape(o.obstacle_shape)


def c_scenario(sc):
    return f"(Build_scenario {c_network(sc.lanelet_network)} {c_list(c_obstacle, sc.obstacles)})"


def f_scenario(sc):
    return f_network(sc.lanelet_network) + f_list(f_obstacle, sc.obstacles)


def c_pproblem(pp):
    return f"(Build_pproblem {c_state(pp.initial_state)} {c_list(c_state, pp.goal.state_list)})"


def f_pproblem(pp):
    return f_state(pp.initial_state) + f_list(f_state, pp.goal.state_list)


def c_ppset(pps):
    return c_list(c_pproblem, list(pps.planning_problem_dict.values()))


def f_ppset(pps):
    return f_list(f_pproblem, list(pps.planning_problem_dict.values()))


def c_flat(xs):
    return qlist([qq(num_or_marker(x)) for x in xs])


# ------------------------------------------------------------------------------------ edge streams
def angle_stream(rng, allow_invalid=True):
    """angles in [-2pi, 2pi]: dense near 0, at +-0.05, multiples of pi/2, the interval ends; ints and numpy
    scalars; with allow_invalid a few just outside (the assertion is part of the model)"""
    k = rng.random()
    if k < 0.22:
        a = rng.choice([-1, 1]) * rng.choice([1e-9, 1e-6, 1e-4, 1e-3, 0.01, 0.02, 0.03, 0.04, 0.049, 0.0499999])
    elif k < 0.30:
        a = rng.uniform(-0.05, 0.05)
    elif k < 0.40:
        a = rng.choice([-1, 1]) * rng.choice([0.05, math.nextafter(0.05, 1), math.nextafter(0.05, 0), 0.0500001, 0.051,
                                               0.06])
    elif k < 0.47:
        a = rng.choice([0.0, -0.0, 0, 1, -1, 2, 3, -3, 6, -6])
    elif k < 0.62:
        a = rng.choice([-4, -3, -2, -1, 1, 2, 3, 4]) * PI / 2 + rng.choice([0.0, 0.0, 1e-9, -1e-9, 1e-3])
    elif k < 0.70:
        a = rng.choice([TWO_PI, -TWO_PI, math.nextafter(TWO_PI, 0), -math.nextafter(TWO_PI, 0), TWO_PI - 1e-6,
                        -TWO_PI + 1e-6])
    elif k < 0.74 and allow_invalid:
        a = rng.choice([math.nextafter(TWO_PI, 10), -math.nextafter(TWO_PI, 10), 7.0, -6.5, 7, 13.0])
    else:
        a = rng.uniform(-TWO_PI, TWO_PI)
    if isinstance(a, float) and abs(a) > TWO_PI and not allow_invalid:
        a = math.copysign(TWO_PI, a)
    if isinstance(a, float) and rng.random() < 0.1:
        a = np.float64(a)
    return a


def translation_stream(rng):
    k = rng.random()
    if k < 0.12:
        return [0.0, 0.0]
    if k < 0.55:
        return [round(rng.uniform(-50, 50), 2), round(rng.uniform(-50, 50), 2)]
    if k < 0.7:
        return [float(rng.randint(-8, 8)) * 0.25, float(rng.randint(-8, 8)) * 0.5]
    if k < 0.8:
        return [rng.uniform(-1, 1) * 10.0 ** rng.randint(-7, 4), rng.uniform(-1, 1) * 10.0 ** rng.randint(-7, 4)]
    if k < 0.9:
        return [rng.choice([1e3, -1e3, 1e4, 100.0]), rng.choice([0.0, -250.0, 1e-7])]
    return [rng.uniform(-500, 500), rng.uniform(-500, 500)]


def angle_class(a):
    a = abs(float(a))
    if a == 0:
        return "a=0"
    if a <= 0.05:
        return "0<|a|<=0.05"
    if a <= TWO_PI:
        return "0.05<|a|<=2pi"
    return "|a|>2pi"
