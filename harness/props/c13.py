"""C13 — benchmark ids print and parse consistently.
tables: coq/Gen/Tables_C13.v regenerated from the source (props/c13_tables.py) before the proofs are built
oracle: print -> grammar -> parse -> compare / re-print on the implementation (ScenarioID and Solution ids)
corr:   Model/BenchId.v (constructor, __str__, recogniser = the regular expression, from_benchmark_id,
        Solution.benchmark_id, _parse_benchmark_id, _parse_vehicle_id) evaluated by vm_compute on the same cases
        plus a malformed stream of mutated ids (validates the hand-written recogniser against `re`)"""
import itertools
import re
import warnings

import numpy as np

from vlib.core import qb, qlist, qopt, qstr, qz
from vlib.flow import load_corpus

from props import c13_tables

from commonroad.common.solution import (CommonRoadSolutionReader, CommonRoadSolutionWriter, CostFunction,
                                        PlanningProblemSolution, Solution, SolutionReaderException, VehicleModel,
                                        VehicleType)
from commonroad.scenario.scenario import ScenarioID
from commonroad.scenario.state import CustomState, InputState, PMInputState
from commonroad.scenario.trajectory import Trajectory

RULE = ("scenario ids: exhaustive product cooperative x configuration (None/0/k) x behaviour (None,S,T,P,I) x prediction "
        "id (None, int, lists of 0..4 ids) with countries (ISO table, ZAM, None, invalid), map names (alnum, with "
        "illegal characters, empty after cleaning), numbers 1..10^20 sampled from the seeded PRNG; solution ids: every "
        "constructible (vehicle model, vehicle type, cost function) tuple once + sampled lists of 1..4; malformed "
        "stream: character-level mutations of printed ids, of solution ids and of vehicle ids.  distinct = distinct "
        "case dicts; non-trivial = valid id (constructor accepts, map name non-empty) or a parse case"
        " + histories on one ScenarioID object (sidmut): print and hash it, re-assign 1..8 of its public fields to those "
        "of another valid id, and - when the resulting field combination is that of a valid id - demand that it prints "
        "like a freshly constructed id with these fields and round-trips (oracle only)")
ASSUME = ["str(int)/int(str) of CPython are the decimal conversions of Coq's DecimalString/DecimalPos",
          "re.fullmatch implements the language of benchmark_id_pattern (the recogniser of the model is validated "
          "against it on the printed ids and on the malformed stream)",
          "ids are ASCII strings (Coq strings are byte strings)"]

# the CommonRoad id grammar as the documentation states it (independent copy, not the library's attribute)
SPEC_RE = re.compile(r"(C-)?([A-Z]{3})_([a-zA-Z0-9]+)-([1-9][0-9]*)(_([1-9][0-9]*)(_([STPI])((-[1-9][0-9]*)+))?)?")
FIELDS = ["cooperative", "country_id", "map_name", "map_id", "configuration_id", "obstacle_behavior", "prediction_id",
          "scenario_version"]
TABLES = {}


# ------------------------------------------------------------------------------------ generators
def rand_num(rng):
    k = rng.random()
    if k < 0.5:
        return rng.randint(1, 9)
    if k < 0.8:
        return rng.choice([10, 11, 19, 20, 99, 100, 101, 999, 1000, 2020, 12345, 90000])
    if k < 0.95:
        return rng.randint(1, 10 ** rng.randint(2, 20))
    return 10 ** rng.randint(1, 25)


def rand_name(rng):
    alnum = "abcxyzABCXYZ0123456789"
    k = rng.random()
    n = "".join(rng.choice(alnum) for _ in range(rng.randint(1, 10)))
    if k < 0.6:
        return rng.choice([n, "Test", "US101", "Lanker", "A9", "0", "7", "C", "T1"])
    if k < 0.85:  # characters the setter removes
        i = rng.randint(0, len(n))
        return n[:i] + rng.choice(["-", "_", " ", ".", "-1_", "C-", ":", ",", "[", "_T-1"]) + n[i:]
    if k < 0.93:
        return rng.choice(["", "-", "__", " ", "-_-", ".:"])
    return n


def rand_country(rng):
    k = rng.random()
    if k < 0.55:
        return rng.choice(TABLES["countries"])
    if k < 0.75:
        return "ZAM"
    if k < 0.85:
        return None
    return rng.choice(["XXX", "usa", "US", "USAA", "Deu", "ZAN", "", "D-U", "AAA"])


def sid_args(rng, coop, conf, beh, pid):
    return {"coop": coop, "country": rand_country(rng), "name": rand_name(rng),
            "mid": rand_num(rng) if rng.random() < 0.93 else rng.choice([0, -1, -7]),
            "conf": conf, "beh": beh, "pid": pid,
            "ver": rng.choice(TABLES["versions"] + [TABLES["default_version"]] * 2) if rng.random() < 0.95
            else rng.choice(["2019a", "", "2020", "2020a "])}


def valid_sid_args(rng):
    beh = rng.choice([None] + TABLES["behaviours"] * 2)
    conf = rng.choice([None, rand_num(rng), rand_num(rng)])
    pid = None
    if beh is not None:
        pid = rng.choice([None, rand_num(rng), [rand_num(rng)], [rand_num(rng) for _ in range(rng.randint(2, 4))]])
    a = sid_args(rng, rng.random() < 0.4, conf, beh, pid)
    a["country"] = rng.choice(TABLES["countries"] + ["ZAM"] * 20)
    a["name"] = rng.choice(["Test", "US101", "a", "Z9z", rand_name(rng)])
    a["mid"] = rand_num(rng)
    a["ver"] = rng.choice(TABLES["versions"])
    return a


def gen_sids(rng, rounds):
    out = []
    behs = [None] + TABLES["behaviours"]
    for _ in range(rounds):
        confs = [None, 0, rand_num(rng)]
        pids = [None, rand_num(rng), [rand_num(rng)], [rand_num(rng), rand_num(rng)],
                [rand_num(rng) for _ in range(rng.randint(3, 4))], [], 0, [0], [rand_num(rng), 0], [-3]]
        for coop, conf, beh, pid in itertools.product([False, True], confs, behs, pids):
            # invalid shapes (negative / zero ids, id without behaviour) are kept but thinned out
            odd = pid in (0, [0], [-3]) or (isinstance(pid, list) and 0 in pid) or (pid is not None and beh is None)
            if odd and rng.random() < 0.8:
                continue
            out.append({"op": "sid", "args": sid_args(rng, coop, conf, beh, pid)})
        for _ in range(6):  # unknown behaviours, negative configuration
            out.append({"op": "sid", "args": sid_args(rng, rng.random() < 0.5, rng.choice([None, -2, 3]),
                                                      rng.choice(["K", "s", "ST", "", "T"]),
                                                      rng.choice([None, 2, [4, 5]]))})
    return out


MUT_ALPHABET = "C-__--0123456789STPIKabzAZ :,[]\n."


def mutate(rng, s):
    k = rng.randint(0, 8)
    i = rng.randint(0, max(0, len(s) - 1)) if s else 0
    if k == 0 and s:
        return s[:i] + s[i + 1:]
    if k == 1:
        return s[:i] + rng.choice(MUT_ALPHABET) + s[i:]
    if k == 2 and s:
        return s[:i] + rng.choice(MUT_ALPHABET) + s[i + 1:]
    if k == 3 and s:
        j = rng.randint(i, len(s))
        return s[:i] + s[i:j] * 2 + s[j:]
    if k == 4:
        return s + rng.choice(["-1", "_1", "_T-1", "-", "_", "-01", "-0", " ", "\n", "_S", "_T-", "-1-", "0"])
    if k == 5:
        return rng.choice(["C-", "C", "-", "c-", "C-C-", " "]) + s
    if k == 6 and s:
        return s[:i] + s[i].swapcase() + s[i + 1:]
    if k == 7:
        return re.sub(r"\d+", lambda m: rng.choice(["0", "01", "", m.group(0) + "0", "007"]), s, count=1)
    return s[:i] + s[i:][::-1]


def gen_parse(rng, n, printed):
    out = []
    pool = list(printed) or ["ZAM_Test-1_1_T-1"]
    fixed = ["", "asdf", "USA_US101-0", "USA_US101_1_T-01", "USA_US-101_1_T-01", "USA_US101-1_T-1", "C-USA_US101-33_2_T-1",
             "ZAM_Test-1", "ZAM_Test-1_1", "ZAM_Test-1_1_T-1-2-3", "XXX_Test-1", "C-", "C-ZAM", "ZAM_-1", "ZAM__-1",
             "CAN_Test-1", "C-CAN_C-1_1_I-1", "ZAM_Test-1_1_T", "ZAM_Test-1_1_T-", "ZAM_Test-1_1_K-1", "ZAM_Test-1_",
             "ZAM_Test-1\n", "ZAM_Test-01", "ZAM_Test-1_1_T-1-", "ZAM_Test-1_1_T-1-0", "ZAM_Test-1_1_T--1",
             "ZAM_Test-1_1_TT-1", "ZAM_Test-1_1_T-1_1", "zam_Test-1", "ZAMM_Test-1", "ZA_Test-1", "ZAM_Te st-1",
             "C-ZAM_Test-1_2_P-7-8", "ZAM_Test-1-2", "ZAM_Test1", "DEU_A9-2_1_T-1 ", " DEU_A9-2_1_T-1"]
    for b in fixed:
        out.append({"op": "parse", "b": b, "ver": TABLES["default_version"]})
    for _ in range(n):
        b = rng.choice(pool)
        for _ in range(rng.choice([0, 1, 1, 1, 2, 3])):
            b = mutate(rng, b)
        ver = rng.choice(TABLES["versions"]) if rng.random() < 0.9 else rng.choice(["2017", "", "2020a:"])
        out.append({"op": "parse", "b": b, "ver": ver})
    return out


def constructible(m, c):
    return not (m == "PM" and c not in ("JB1", "WX1", "MW1"))


def gen_sols(rng, n):
    out = []
    models, types, costs = TABLES["vehicle_models"], TABLES["vehicle_types"], TABLES["cost_functions"]
    for m, t, c in itertools.product(models, types, costs):
        if constructible(m, c):
            out.append({"op": "sol", "sols": [[m, t, c]], "args": valid_sid_args(rng)})
    for _ in range(n):
        k = rng.randint(1, 4)
        sols = []
        while len(sols) < k:
            m, t, c = rng.choice(models), rng.choice(types), rng.choice(costs)
            if constructible(m, c):
                sols.append([m, t, c])
        c = {"op": "sol", "sols": sols, "args": valid_sid_args(rng)}
        if rng.random() < 0.6:      # planning-problem ids in the order the solutions are handed over, not ascending
            c["pids"] = rng.sample(range(1, 40), k)
        if rng.random() < 0.3:      # the vehicle type is corrected after construction (a plain public attribute)
            c["late_type"] = True
        out.append(c)
    return out


def gen_pbid(rng, n, bids):
    out = [{"op": "pbid", "b": b} for b in
           ["PM1:JB1:ZAM_Test-1:2020a", "[PM1,PM3]:[JB1,SA1]:TEST:2020a", "PM1:JB1:TEST", "PM1:JB1:ZAM_Test-1:2020a:x",
            "[PM1, PM3] : [JB1, SA1] : ZAM_Test-1_1_T-1 : 2020a", "PM1:JB1:ZAM_Test-1:2019", "PM1:JB1:XXX_Test-1:2020a",
            ":::", "", "[]:[]:ZAM_Test-1:2018b", "[[PM1]]:J[B]1:ZAM_Test-1:2020a", "PM1,:,JB1:C-DEU_A9-2_1_T-1:2020a"]]
    pool = list(bids) or ["PM1:JB1:ZAM_Test-1:2020a"]
    for _ in range(n):
        b = rng.choice(pool)
        for _ in range(rng.choice([0, 1, 1, 2])):
            b = mutate(rng, b)
        out.append({"op": "pbid", "b": b})
    return out


def gen_vids(rng, n):
    out = []
    models, types = TABLES["vehicle_models"], TABLES["vehicle_types"]
    base = [m + str(t) for m in models for t in types]
    extra = ["", "P", "PM", "PM0", "PM5", "PM9", "PMx", "PM-", "KST", "KST0", "KST5", "KSTT1", "XX1", "pm1", "PM 1",
             "PM11", "K1", "KS12", "MB4 ", "1PM", "ST:"]
    for v in base + extra:
        out.append({"op": "vid", "v": v})
    for _ in range(n):
        out.append({"op": "vid", "v": mutate(rng, rng.choice(base))})
    for c in TABLES["cost_functions"] + ["", "JB", "jb1", "JB11", "XX1", "SM4", "TR1 "]:
        out.append({"op": "cost", "c": c})
    return out


def gen(rng, n):
    """n scales the sampled parts; the exhaustive products are always complete"""
    rounds = max(1, n // 400)
    sids = gen_sids(rng, rounds) + [{"op": "sid", "args": valid_sid_args(rng)} for _ in range(n // 4)]
    printed = set()
    for c in sids:
        o = observe_sid(c["args"])
        if o["ctor"][0] == "ok":
            printed.add(o["printed"])
    sols = gen_sols(rng, n // 8)
    bids = set()
    for c in sols:
        o = observe_sol(c)
        if o.get("bid"):
            bids.add(o["bid"])
    # histories on one object: print, re-assign every field through the public attributes, print / parse again
    muts = [{"op": "sidmut", "args": valid_sid_args(rng), "then": valid_sid_args(rng),
             "fields": sorted(rng.sample(range(len(FIELDS)), rng.choice([1, 1, 1, 2, 3, len(FIELDS)])))}
            for _ in range(max(80, n // 4))]
    return (sids + muts + gen_parse(rng, n, sorted(printed)) + sols + gen_pbid(rng, n // 4, sorted(bids))
            + gen_vids(rng, n // 8))


# ------------------------------------------------------------------------------------ implementation
def exc_name(e):
    return type(e).__name__


def fields_of(sid):
    return {f: getattr(sid, f) for f in FIELDS}


def kwargs_of(a):
    return dict(cooperative=a["coop"], country_id=a["country"], map_name=a["name"], map_id=a["mid"],
                configuration_id=a["conf"], obstacle_behavior=a["beh"],
                prediction_id=list(a["pid"]) if isinstance(a["pid"], list) else a["pid"], scenario_version=a["ver"])


def make_sid(a):
    """('ok', ScenarioID) | ('exc', name).  AssertionError / ValueError are the documented rejections."""
    try:
        return ("ok", ScenarioID(**kwargs_of(a)))
    except (AssertionError, ValueError) as e:
        return ("exc", exc_name(e))


def parse_sid(b, ver):
    """(warned, ('ok', ScenarioID) | ('exc', name))"""
    with warnings.catch_warnings(record=True) as w:
        warnings.simplefilter("always")
        try:
            r = ("ok", ScenarioID.from_benchmark_id(b, ver))
        except Exception as e:  # noqa  (the class is part of the observation)
            r = ("exc", exc_name(e))
    warned = any("Not a valid scenario ID" in str(x.message) for x in w)
    return warned, r


def observe_sid(a):
    o = {"ctor": make_sid(a)}
    if o["ctor"][0] == "ok":
        o["printed"] = str(o["ctor"][1])
    return o


def traj_for(model: VehicleModel):
    if model is VehicleModel.PM:
        sl = [PMInputState(acceleration=0.1, acceleration_y=0.2, time_step=t) for t in range(2)]
    elif model is VehicleModel.KST:
        sl = [CustomState(position=np.array([0.0, 1.0]), steering_angle=0.1, velocity=1.0, orientation=0.2,
                          hitch_angle=0.0, time_step=t) for t in range(2)]
    else:
        sl = [InputState(steering_angle_speed=0.1, acceleration=0.2, time_step=t) for t in range(2)]
    return Trajectory(0, sl)


def build_solution(c):
    r = make_sid(c["args"])
    if r[0] != "ok":
        return None, None
    pids = c.get("pids") or list(range(1, len(c["sols"]) + 1))
    pps = [PlanningProblemSolution(pids[i], VehicleModel[m], VehicleType(t), CostFunction[cf], traj_for(VehicleModel[m]))
           for i, (m, t, cf) in enumerate(c["sols"])]
    if c.get("late_type"):
        others = list(VehicleType)
        pps = []
        for i, (m, t, cf) in enumerate(c["sols"]):
            wrong = next(v for v in others if v != VehicleType(t))
            p = PlanningProblemSolution(pids[i], VehicleModel[m], wrong, CostFunction[cf], traj_for(VehicleModel[m]))
            p.vehicle_type = VehicleType(t)
            pps.append(p)
    return r[1], Solution(r[1], pps)


def observe_sol(c):
    sid, sol = build_solution(c)
    if sol is None:
        return {}
    return {"bid": sol.benchmark_id, "sid": sid}


def parse_bid(b):
    with warnings.catch_warnings(record=True) as w:
        warnings.simplefilter("always")
        try:
            r = ("ok", CommonRoadSolutionReader._parse_benchmark_id(b))
        except Exception as e:  # noqa
            r = ("exc", exc_name(e))
    warned = any("Not a valid scenario ID" in str(x.message) for x in w)
    return warned, r


def parse_vid(v):
    try:
        m, t = CommonRoadSolutionReader._parse_vehicle_id(v)
        return ("ok", (m.name, t.value))
    except Exception as e:  # noqa
        return ("exc", exc_name(e))


def parse_cost(c):
    # the lookup of CommonRoadSolutionReader._parse_planning_problem_solution (lines 706-709)
    if c not in [cf.name for cf in CostFunction]:
        return ("exc", "SolutionReaderException")
    return ("ok", CostFunction[c].name)


# ------------------------------------------------------------------------------------ oracle
def pid_shape(p):
    if p is None:
        return "None"
    if isinstance(p, list):
        return f"list{min(len(p), 3)}"
    return "int"


def valid_case(c):
    """the property's domain: the constructor accepts the arguments and the cleaned map name is alphanumeric"""
    if c["op"] == "sid":
        r = make_sid(c["args"])
        return r[0] == "ok" and r[1].map_name != ""
    if c["op"] == "sol":
        r = make_sid(c["args"])
        return r[0] == "ok" and r[1].map_name != "" and len(c["sols"]) >= 1
    if c["op"] == "sidmut":
        r, r2 = make_sid(c["args"]), make_sid(c["then"])
        return r[0] == "ok" and r2[0] == "ok" and r[1].map_name != "" and r2[1].map_name != ""
    return False


def nontrivial(c):
    return c["op"] in ("parse", "pbid", "vid", "cost") or valid_case(c)


def kind(c):
    if c["op"] == "sid":
        a = c["args"]
        return f"sid:{'valid' if valid_case(c) else 'rejected'}:pid={pid_shape(a['pid'])}"
    if c["op"] == "sol":
        return f"sol:n={min(len(c['sols']), 3)}"
    if c["op"] == "sidmut":
        return "sid:printed-then-reassigned"
    return c["op"]


def check_roundtrip(sid, where):
    """print -> grammar -> parse -> equal -> re-print; returns None | (signature, what)"""
    b = str(sid)
    m = SPEC_RE.fullmatch(b)
    shape = f"pid={pid_shape(sid.prediction_id)}"
    if m is None or not (m.group(2) == "ZAM" or m.group(2) in TABLES["iso"]):
        return (f"{where}:print:grammar:{shape}", f"printed id {b!r} does not conform to the id grammar")
    warned, r = parse_sid(b, sid.scenario_version)
    if r[0] != "ok":
        return (f"{where}:parse:raises:{r[1]}:{shape}", f"from_benchmark_id({b!r}) raises {r[1]}")
    if warned:
        return (f"{where}:parse:fallback:{shape}", f"from_benchmark_id({b!r}) does not recognise the printed id")
    p = r[1]
    for f in FIELDS:
        x, y = getattr(sid, f), getattr(p, f)
        if type(x) is not type(y) or x != y:
            return (f"{where}:roundtrip:{f}:{shape}", f"{b!r} parses back with {f}={y!r}, original {x!r}")
    with warnings.catch_warnings():
        warnings.simplefilter("ignore")
        if not (p == sid) or (p != sid):
            return (f"{where}:roundtrip:eq:{shape}", f"{b!r} parses back to an id that is != the original")
    if str(p) != b:
        return (f"{where}:reprint:{shape}", f"{b!r} parses back to an id printing as {str(p)!r}")
    # what a text parses to depends on the text alone - not on what became of an id parsed from it earlier
    if isinstance(p.prediction_id, list):
        p.prediction_id.append(97)          # the caller edits the list of the id it was handed
        p.prediction_id.reverse()
    p.map_id = p.map_id + 1
    warned, r = parse_sid(b, sid.scenario_version)
    if r[0] != "ok" or warned:
        return (f"{where}:parse-again:raises-or-fallback:{shape}", f"from_benchmark_id({b!r}) fails on the second call")
    for f in FIELDS:
        x, y = getattr(sid, f), getattr(r[1], f)
        if type(x) is not type(y) or x != y:
            return (f"{where}:parse-again:{f}:{shape}",
                    f"{b!r} parsed a second time, after the first result was edited in place, gives {f}={y!r} instead "
                    f"of {x!r}")
    return None


def oracle(c):
    if not valid_case(c):
        return None
    if c["op"] == "sid":
        return check_roundtrip(make_sid(c["args"])[1], "sid")
    if c["op"] == "sidmut":
        # the id an object denotes is given by its current fields, whatever was printed before
        sid = make_sid(c["args"])[1]
        str(sid)
        hash(sid)
        fresh = make_sid(c["then"])[1]
        for i in c.get("fields", range(len(FIELDS))):  # re-assign some fields to those of another valid id
            v = getattr(fresh, FIELDS[i])
            setattr(sid, FIELDS[i], list(v) if isinstance(v, list) else v)
        # in the property's domain only if the resulting field combination is itself that of a valid id
        now = fields_of(sid)
        try:
            same = ScenarioID(cooperative=now["cooperative"], country_id=now["country_id"], map_name=now["map_name"],
                              map_id=now["map_id"], configuration_id=now["configuration_id"],
                              obstacle_behavior=now["obstacle_behavior"], prediction_id=now["prediction_id"],
                              scenario_version=now["scenario_version"])
        except (AssertionError, ValueError):
            return None
        if fields_of(same) != now or any(type(a) is not type(b) for a, b in zip(fields_of(same).values(), now.values())):
            return None
        if str(sid) != str(same):
            return ("sidmut:print:stale", f"id printed as {str(make_sid(c['args'])[1])!r}, then fields "
                                          f"{[FIELDS[i] for i in c.get('fields', [])]} re-assigned: prints as {str(sid)!r} "
                                          f"although its fields are those of {str(same)!r}")
        return check_roundtrip(sid, "sidmut")
    # solution benchmark id
    sid, sol = build_solution(c)
    n = f"n={min(len(c['sols']), 3)}"
    bid = sol.benchmark_id
    warned, r = parse_bid(bid)
    if r[0] != "ok":
        return (f"sol:parse:raises:{r[1]}:{n}", f"_parse_benchmark_id({bid!r}) raises {r[1]}")
    vids, cids, psid = r[1]
    if warned:
        return (f"sol:parse:fallback:{n}", f"scenario id of {bid!r} not recognised")
    if len(vids) != len(c["sols"]) or len(cids) != len(c["sols"]):
        return (f"sol:count:{n}", f"{bid!r} parses to {vids} / {cids}")
    for (m, t, cf), v, ci in zip(c["sols"], vids, cids):
        pv = parse_vid(v)
        if pv != ("ok", (m, t)):
            return (f"sol:vehicle:{m}:{n}", f"vehicle id {v!r} of {bid!r} parses to {pv}, expected {(m, t)}")
        if parse_cost(ci) != ("ok", cf):
            return (f"sol:cost:{n}", f"cost id {ci!r} of {bid!r}, expected {cf}")
    for f in FIELDS:
        x, y = getattr(sid, f), getattr(psid, f)
        if type(x) is not type(y) or x != y:
            return (f"sol:scenario_id:{f}:pid={pid_shape(sid.prediction_id)}",
                    f"{bid!r}: scenario id parses back with {f}={y!r}, original {x!r}")
    # the whole reader path (KST trajectories cannot be read back at all: StateType.KST is missing from the
    # reader's table, which is C14's subject; the id functions above were exercised for KST directly)
    if all(m != "KST" for m, _, _ in c["sols"]):
        try:
            back = CommonRoadSolutionReader.fromstring(CommonRoadSolutionWriter(sol).dump())
        except Exception as e:  # noqa
            return (f"sol:reader:raises:{exc_name(e)}:{n}", f"reading back the solution {bid!r} raises {e!r}")
        got = [(p.vehicle_model.name, p.vehicle_type.value, p.cost_function.name)
               for p in back.planning_problem_solutions]
        if got != [tuple(x) for x in c["sols"]]:
            return (f"sol:reader:tuples:{n}", f"{bid!r} read back as {got}")
        if back.benchmark_id != bid or fields_of(back.scenario_id) != fields_of(sid):
            return (f"sol:reader:id:{n}", f"{bid!r} read back as {back.benchmark_id!r}")
        # what was read is a value of its own: edited in place (a later revision of the map), it does not reach what the
        # same document reads back to the next time
        doc = CommonRoadSolutionWriter(sol).dump()
        back.scenario_id.map_id = back.scenario_id.map_id + 1
        back.scenario_id.configuration_id = (back.scenario_id.configuration_id or 0) + 1
        try:
            again = CommonRoadSolutionReader.fromstring(doc)
        except Exception as e:  # noqa
            return (f"sol:reader:raises:{exc_name(e)}:{n}", f"reading the solution {bid!r} a second time raises {e!r}")
        if again.benchmark_id != bid or fields_of(again.scenario_id) != fields_of(sid):
            return (f"sol:reader:id-after-edit:{n}", f"{bid!r} read, the scenario id of the result edited in place, the "
                                                     f"same document read again: {again.benchmark_id!r}")
    # the same for the id parser itself
    psid.map_id = psid.map_id + 1
    warned2, r2 = parse_bid(bid)
    if r2[0] != "ok" or fields_of(r2[1][2]) != fields_of(sid):
        return (f"sol:parse:after-edit:{n}", f"_parse_benchmark_id({bid!r}) after its earlier result was edited in place: "
                                             f"{r2[1][2] if r2[0] == 'ok' else r2}")
    return None


# ------------------------------------------------------------------------------------ correspondence
def q_pid(p):
    if p is None:
        return "PNone"
    if isinstance(p, list):
        return "(PList " + qlist([qz(x) for x in p]) + ")"
    return f"(PInt {qz(p)})"


def q_args(a):
    return ("{| a_coop := %s; a_country := %s; a_name := %s; a_mid := %s; a_conf := %s; a_beh := %s; a_pid := %s; "
            "a_ver := %s |}" % (qb(a["coop"]), qopt(a["country"], qstr), qstr(a["name"]), qz(a["mid"]),
                                qopt(a["conf"], qz), qopt(a["beh"], qstr), q_pid(a["pid"]), qstr(a["ver"])))


def q_sid(s):
    return ("{| coop := %s; country := %s; mname := %s; mid := %s; conf := %s; beh := %s; pid := %s; ver := %s |}"
            % (qb(s.cooperative), qstr(s.country_id), qstr(s.map_name), qz(s.map_id), qopt(s.configuration_id, qz),
               qopt(s.obstacle_behavior, qstr), q_pid(s.prediction_id), qstr(s.scenario_version)))


EXN = {"AssertionError", "ValueError", "SolutionReaderException"}


def q_obs(r, f):
    if r[0] == "ok":
        return f"(OVal {f(r[1])})"
    return f"(OExc {r[1]})" if r[1] in EXN else "OOther"


def representable(c):
    """Coq strings are byte strings and the model's ids are ints: keep to ASCII / int cases"""
    def asc(s):
        return s is None or (isinstance(s, str) and all(ord(ch) < 128 for ch in s))
    if c["op"] == "sidmut":
        return False  # histories on one object are judged by the oracle only (the model has no mutable ids)
    if c["op"] in ("sid", "sol"):
        a = c["args"]
        return asc(a["country"]) and asc(a["name"]) and asc(a["beh"]) and asc(a["ver"])
    return all(asc(c.get(k)) for k in ("b", "v", "c", "ver"))


def coq_cases(c):
    """the Coq terms (Corr.C13.case) one harness case expands to"""
    op = c["op"]
    out = []
    if op == "sid":
        a = c["args"]
        r = make_sid(a)
        out.append(f"CCtor {q_args(a)} {q_obs(r, q_sid)}")
        if r[0] == "ok":
            b = str(r[1])
            out.append(f"CPrint {q_args(a)} {qstr(b)}")
            w, p = parse_sid(b, r[1].scenario_version)
            out.append(f"CParse {qstr(b)} {qstr(r[1].scenario_version)} {qb(w)} {q_obs(p, q_sid)}")
    elif op == "parse":
        w, p = parse_sid(c["b"], c["ver"])
        out.append(f"CParse {qstr(c['b'])} {qstr(c['ver'])} {qb(w)} {q_obs(p, q_sid)}")
    elif op == "sol":
        sid, sol = build_solution(c)
        if sol is not None:
            vs = qlist([f"({qstr(m)}, {qz(t)})" for m, t, _ in c["sols"]])
            cs = qlist([qstr(cf) for _, _, cf in c["sols"]])
            out.append(f"CBid {vs} {cs} {q_args(c['args'])} {qstr(sol.benchmark_id)}")
            out += coq_cases({"op": "pbid", "b": sol.benchmark_id})
            for v in sol.vehicle_ids:
                out += coq_cases({"op": "vid", "v": v})
    elif op == "pbid":
        w, r = parse_bid(c["b"])

        def q_val(x):
            vids, cids, s = x
            return (f"({qlist([qstr(v) for v in vids])}, {qlist([qstr(v) for v in cids])}, "
                    f"({qb(w)}, (OVal {q_sid(s)})))")
        out.append(f"CParseBid {qstr(c['b'])} {q_obs(r, q_val)}")
    elif op == "vid":
        out.append(f"CVid {qstr(c['v'])} " + q_obs(parse_vid(c["v"]), lambda x: f"({qstr(x[0])}, {qz(x[1])})"))
    elif op == "cost":
        out.append(f"CCost {qstr(c['c'])} " + q_obs(parse_cost(c["c"]), qstr))
    return out


EXTRA_TARGETS = ["Corr/C13.vo"]


def corr(ctx, cases):
    terms, owner = [], []
    for c in cases:
        if not representable(c):
            continue
        for t in coq_cases(c):
            terms.append(t)
            owner.append(c)
    imports = ("From Coq Require Import String List ZArith Bool NArith.\nImport ListNotations.\n"
               "From CR Require Import Gen.Tables_C13 Model.BenchId Corr.C13.\nOpen Scope string_scope.\n"
               "Open Scope list_scope.\n")
    bad, errors = ctx.coq_bad_indices("corr", imports, "", terms, "check")
    if any("Cannot find a physical path" in e or "Compiled library" in e or "No such file" in e for e in errors) \
            and not ctx.proof_breaks:
        # the compiled development is shared with concurrently running checks (a thorough run of another property
        # cleans it): rebuild once instead of reporting a missing .vo as a disagreement
        tier, ctx.tier = ctx.tier, "quick"
        try:
            ctx.build_props(extra_targets=EXTRA_TARGETS)
        finally:
            ctx.tier = tier
        bad, errors = ctx.coq_bad_indices("corr", imports, "", terms, "check")
    ctx.coverage["correspondence_cases"] = len(terms)
    for e in errors:
        ctx.corr_break("Corr.C13.check (coqc failed)", e)
    for i in bad:
        ctx.corr_break("Corr.C13.check: Model/BenchId.v vs ScenarioID / solution id functions",
                       dict(owner[i], coq_case=terms[i][:600]))
    ctx.log(f"corr cases={len(terms)} disagree={len(bad)} coq_errors={len(errors)}")


# ------------------------------------------------------------------------------------ driver
def load_tables():
    import iso3166
    t, changed = c13_tables.generate()
    TABLES.clear()
    TABLES.update(t)
    TABLES["iso"] = set(iso3166.countries_by_alpha3)
    return changed


def gen_around(rng, broken, n):
    """cases near the ones the correspondence disagreed on"""
    out = []
    for b in broken:
        if not isinstance(b, dict):
            continue
        if b.get("op") == "parse":
            # a string the recogniser and the library disagree on: look for a valid id printing close to it
            for _ in range(20):
                out.append({"op": "parse", "b": mutate(rng, b["b"]), "ver": b["ver"]})
        elif b.get("op") in ("sid", "sol"):
            for _ in range(20):
                a = dict(b["args"])
                a["mid"], a["name"] = rand_num(rng), rand_name(rng)
                out.append(dict(b, args=a))
    return out + [{"op": "sid", "args": valid_sid_args(rng)} for _ in range(n)]


def run(ctx):
    ctx.trusted = ["Coq 8.16.1 kernel + vm_compute (no native_compute)",
                   "axioms: none (Print Assumptions: Closed under the global context for every theorem)",
                   "harness/props/c13_tables.py: translator of the country / behaviour / version / vehicle / cost tables "
                   "into coq/Gen/Tables_C13.v (fail-closed, regenerated on every run)",
                   "hand-written model coq/Model/BenchId.v of scenario/scenario.py:360-547 and "
                   "common/solution.py:445-469,506-536,706-709,762-789 (incl. the recogniser standing for the regular "
                   "expression), tied to the code by coq/Corr/C13.v on every run",
                   "Coq standard library DecimalString/DecimalPos as the meaning of str(int)/int(str)",
                   "harness/props/c13.py (generators, oracle, Coq term printer)"]
    changed = load_tables()
    ctx.notes.append(f"Gen/Tables_C13.v regenerated ({'changed' if changed else 'unchanged'}): "
                     f"{len(TABLES['countries'])} countries, behaviours {TABLES['behaviours']}, versions "
                     f"{TABLES['versions']}, {len(TABLES['vehicle_models'])} vehicle models, "
                     f"{len(TABLES['vehicle_types'])} vehicle types, {len(TABLES['cost_functions'])} cost functions")
    ctx.build_props(extra_targets=EXTRA_TARGETS)
    if ctx.tier == "thorough":
        ctx.coqchk()
    n = ctx.n(1600, 40000)
    cases = load_corpus(ctx.prop) + gen(ctx.rng, n)

    def run_oracle(cs):
        for c in cs:
            ctx.count(c, nontrivial(c), kind(c))
            r = oracle(c)
            if r:
                ctx.fail(r[0], r[1], c)

    run_oracle(cases)
    corr(ctx, cases)
    if (ctx.proof_breaks or ctx.corr_breaks) and not ctx.failures:
        ctx.log(f"proof/correspondence broke ({len(ctx.proof_breaks)}/{len(ctx.corr_breaks)}); widening the search")
        broken = [b["case"] for b in ctx.corr_breaks if isinstance(b.get("case"), dict)]
        run_oracle(broken)
        if not ctx.failures:
            run_oracle(gen_around(ctx.rng, broken, n) + gen(ctx.rng, n * 4))
    return ctx.finish(RULE, assumptions=ASSUME)


if not TABLES:
    # --replay and ad-hoc imports need the live tables too (no file is written when nothing changed)
    try:
        load_tables()
    except Exception:  # reported by run() when it regenerates
        pass
