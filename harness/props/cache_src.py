"""Source tie for the invalidation logic of classes that keep derived values (C06: Rectangle, Circle, Polygon; C11:
Lanelet, TrajectoryPrediction, Obstacle, TrafficLightCycle): for every public setter of a primary attribute, the sequence of effects it has
on the derived ("cache") attributes is parsed from the syntax tree on every run and written, with the dependency lists,
to coq/Gen/Src_cachetable.v as rows of the table of coq/Model/CacheTable.v.  Proofs/CacheTable.v proves, for every table
all of whose rows pass [setter_ok], coherence on every history; Props/C06.v / Props/C11.v instantiate it with the parsed
tables ([setter_ok] of the parsed rows is evaluated by the kernel).

What a setter body may contain (anything else ends the part "that always happens"; what follows is the tail):
    docstring, assert                                  ignored
    x = <expr> (a local)                               ignored
    self._a = <expr>            (_a primary)           EStore           (one primary per setter)
    self._k = None              (_k derived)           EDrop k
    self._k = <expr>            (_k derived)           ERebuild k       (also tuple targets, annotated assignments)
    del self.k | if "k" in self.__dict__: del self.k    EDrop k          (functools.cached_property)
    self.m()                    (m(self) of the class)  the effects of m, inlined
    if self._a is not None and ...: self._k = <expr>    ERebuild k       (every operand tests a primary for None: the
                                                                         guard only matters while __init__ runs)
    if hasattr(self, "k"): del self.k                   EDrop k
    if not hasattr(self, "_a"): self._a = v else: warn  nothing          (construction-only store: immutable attribute)
The dependency list of a lazily filled cache is derived: the primaries read, through properties and methods of the class,
by the getter that fills it; eagerly built caches name theirs in SPECS.

Trusted: this parser; SPECS (which attributes are primary, which derived, where each derived one is filled); that the value
stored by ERebuild is the value a fresh object would compute (the correspondence checks of C06 / C11 observe it); Python
attribute semantics (no __setattr__ hooks on these classes)."""
import ast
import hashlib
import os

from vlib.core import COQ, REPO
from vlib.py2coq import write_if_changed
from vlib import astnorm as N


class SourceShapeError(Exception):
    pass


SHAPE = os.path.join("commonroad", "geometry", "shape.py")
LANELET = os.path.join("commonroad", "scenario", "lanelet.py")
PRED = os.path.join("commonroad", "prediction", "prediction.py")
OBST = os.path.join("commonroad", "scenario", "obstacle.py")
LIGHT = os.path.join("commonroad", "scenario", "traffic_light.py")

# fills: derived attribute -> ("getter" | "method", name) that fills it lazily, or ("eager", [primaries])
SPECS = [
    dict(name="rectangle", prop="C06", file=SHAPE, cls="Rectangle",
         attrs=["_length", "_width", "_center", "_orientation"],
         setters={"length": "_length", "width": "_width", "center": "_center", "orientation": "_orientation"},
         fills={"_vertices": ("getter", "vertices"), "__shapely_polygon": ("getter", "_shapely_polygon")}),
    dict(name="circle", prop="C06", file=SHAPE, cls="Circle", attrs=["_radius", "_center"],
         setters={"radius": "_radius", "center": "_center"},
         fills={"_shapely_circle": ("getter", "shapely_object")}),
    dict(name="polygon", prop="C06", file=SHAPE, cls="Polygon", attrs=["_vertices"], setters={"vertices": "_vertices"},
         fills={"_min": ("eager", ["_vertices"]), "_max": ("eager", ["_vertices"]),
                "_shapely_polygon": ("eager", ["_vertices"])}),
    dict(name="lanelet", prop="C11", file=LANELET, cls="Lanelet",
         attrs=["_left_vertices", "_center_vertices", "_right_vertices"],
         setters={"left_vertices": "_left_vertices", "center_vertices": "_center_vertices",
                  "right_vertices": "_right_vertices"},
         fills={"_distance": ("getter", "distance"), "_inner_distance": ("getter", "inner_distance"),
                "_polygon": ("eager", ["_left_vertices", "_right_vertices"])}),
    dict(name="trajectory_prediction", prop="C11", file=PRED, cls="TrajectoryPrediction",
         attrs=["_trajectory", "_shape", "_wheelbase_lengths"],
         setters={"trajectory": "_trajectory", "shape": "_shape"},
         fills={"occupancy_set": ("getter", "occupancy_set")}),
    dict(name="obstacle", prop="C11", file=OBST, cls="Obstacle", attrs=["_initial_state", "_obstacle_shape"],
         setters={"initial_state": "_initial_state", "obstacle_shape": "_obstacle_shape"},
         fills={"_initial_occupancy_shape": ("eager", ["_initial_state", "_obstacle_shape"])}),
    dict(name="traffic_light_cycle", prop="C11", file=LIGHT, cls="TrafficLightCycle",
         attrs=["_cycle_elements", "_time_offset", "_active"],
         setters={"cycle_elements": "_cycle_elements", "time_offset": "_time_offset", "active": "_active"},
         fills={"_cycle_init_timesteps": ("getter", "cycle_init_timesteps")}),
]


def bad(node, why):
    raise SourceShapeError(f"line {getattr(node, 'lineno', '?')}: {why}: {ast.unparse(node)[:140]}")


def body_of(fn):
    return [s for s in fn.body if not (isinstance(s, ast.Expr) and isinstance(s.value, ast.Constant)
                                       and isinstance(s.value.value, str))]


def self_attr(n, self_):
    if isinstance(n, ast.Attribute) and isinstance(n.value, ast.Name) and n.value.id == self_:
        return n.attr
    return None


class ClassView:
    def __init__(self, tree, cls):
        hits = [c for c in tree.body if isinstance(c, ast.ClassDef) and c.name == cls]
        if len(hits) != 1:
            raise SourceShapeError(f"class {cls} not found")
        self.node = hits[0]
        self.getters, self.setters, self.methods = {}, {}, {}
        for f in self.node.body:
            if not isinstance(f, ast.FunctionDef):
                continue
            decs = [ast.unparse(d) for d in f.decorator_list]
            if any(d in ("property", "cached_property", "functools.cached_property") for d in decs):
                self.getters[f.name] = f
            elif any(d.endswith(".setter") for d in decs):
                self.setters[f.name] = f
            elif not decs or decs == ["staticmethod"] or decs == ["classmethod"]:
                self.methods[f.name] = f

    def reads(self, fn, attrs, seen=None):
        """the primary attributes read by fn, through properties and methods of the class"""
        seen = set() if seen is None else seen
        if fn.name in seen:
            return set()
        seen.add(fn.name)
        self_ = fn.args.args[0].arg if fn.args.args else None
        out = set()
        for n in ast.walk(fn):
            a = self_attr(n, self_) if self_ else None
            if a is None:
                continue
            if a in attrs:
                out.add(a)
            elif a in self.getters:
                out |= self.reads(self.getters[a], attrs, seen)
            elif a in self.methods:
                out |= self.reads(self.methods[a], attrs, seen)
        return out


def effects(cv, fn, spec, cidx, depth=0):
    """-> (main, tail, stored primary | None, notes)"""
    if depth > 6:
        bad(fn, "method calls nested too deeply")
    self_ = fn.args.args[0].arg
    attrs, caches = set(spec["attrs"]), set(spec["fills"])
    main, tail, stored, notes = [], [], [None], []

    def target_effects(t, value, out, node):
        a = self_attr(t, self_)
        if a is None:
            if isinstance(t, ast.Name):
                return                      # a local
            if isinstance(t, ast.Tuple):
                for e in t.elts:
                    target_effects(e, value, out, node)
                return
            if isinstance(t, ast.Subscript) or isinstance(t, ast.Attribute):
                bad(node, "store into something reachable from self that the table does not describe")
            bad(node, "assignment target")
        if a in attrs:
            if stored[0] not in (None, a):
                bad(node, "a setter that stores two primary attributes")
            stored[0] = a
            out.append("EStore")
        elif a in caches:
            none = isinstance(value, ast.Constant) and value.value is None
            out.append(f"{'EDrop' if none else 'ERebuild'} {cidx[a]}")
        # any other attribute of self: not part of the table

    def stmt(s, out):
        """effects of one statement that has no control flow of its own; False if it has"""
        if isinstance(s, (ast.Assert, ast.Pass)):
            return True
        if isinstance(s, ast.Assign):
            for t in s.targets:
                target_effects(t, s.value, out, s)
            return True
        if isinstance(s, ast.AnnAssign):
            if s.value is not None:
                target_effects(s.target, s.value, out, s)
            return True
        if isinstance(s, ast.Delete):
            for t in s.targets:
                a = self_attr(t, self_)
                if a in caches:
                    out.append(f"EDrop {cidx[a]}")
                elif a in attrs:
                    bad(s, "a primary attribute is deleted")
            return True
        if isinstance(s, ast.Expr) and isinstance(s.value, ast.Call):
            f = s.value.func
            m = self_attr(f, self_)
            if m is not None and m in cv.methods and not s.value.args and not s.value.keywords:
                mm, mt, ms, mn = effects(cv, cv.methods[m], spec, cidx, depth + 1)
                if ms is not None:
                    bad(s, "a helper method stores a primary attribute")
                out.extend(mm)
                if mt:
                    return ("tail", mt)
                return True
            if m is not None:
                bad(s, "call of something on self that is not a plain method of the class")
            return True                      # warnings.warn(...), logging: no effect on self
        if isinstance(s, ast.If):
            t = s.test
            # if "k" in self.__dict__: del self.k
            if isinstance(t, ast.Compare) and len(t.ops) == 1 and isinstance(t.ops[0], ast.In) \
                    and isinstance(t.left, ast.Constant) and t.left.value in caches and not s.orelse \
                    and ast.unparse(t.comparators[0]) == f"{self_}.__dict__" and len(s.body) == 1 \
                    and isinstance(s.body[0], ast.Delete) and len(s.body[0].targets) == 1 \
                    and self_attr(s.body[0].targets[0], self_) == t.left.value:
                out.append(f"EDrop {cidx[t.left.value]}")
                return True
            # if hasattr(self, "k"): del self.k
            if isinstance(t, ast.Call) and ast.unparse(t.func) == "hasattr" and len(t.args) == 2 and not s.orelse \
                    and ast.unparse(t.args[0]) == self_ and isinstance(t.args[1], ast.Constant) \
                    and t.args[1].value in caches and len(s.body) == 1 and isinstance(s.body[0], ast.Delete) \
                    and len(s.body[0].targets) == 1 and self_attr(s.body[0].targets[0], self_) == t.args[1].value:
                out.append(f"EDrop {cidx[t.args[1].value]}")
                return True
            # if self._a is not None and self._b is not None: self._k = <expr>
            ops = t.values if isinstance(t, ast.BoolOp) and isinstance(t.op, ast.And) else [t]
            if not s.orelse and all(isinstance(o, ast.Compare) and len(o.ops) == 1 and isinstance(o.ops[0], ast.IsNot)
                                    and self_attr(o.left, self_) in attrs and isinstance(o.comparators[0], ast.Constant)
                                    and o.comparators[0].value is None for o in ops) \
                    and all(isinstance(b, (ast.Assign, ast.AnnAssign)) for b in s.body):
                sub = []
                for b in s.body:
                    stmt(b, sub)
                if all(e.startswith("ERebuild") for e in sub):
                    out.extend(sub)
                    notes.append(f"{fn.name}: rebuild guarded by `{ast.unparse(t)}` (holds once __init__ has run)")
                    return True
            # if not hasattr(self, "_a"): self._a = v  else: <no store>     (either polarity)
            neg = isinstance(t, ast.UnaryOp) and isinstance(t.op, ast.Not)
            h = t.operand if neg else t
            first, other = (s.body, s.orelse) if neg else (s.orelse, s.body)
            if isinstance(h, ast.Call) and ast.unparse(h.func) == "hasattr" and len(h.args) == 2 \
                    and ast.unparse(h.args[0]) == self_ and isinstance(h.args[1], ast.Constant) \
                    and h.args[1].value in attrs and len(first) == 1 and isinstance(first[0], ast.Assign) \
                    and self_attr(first[0].targets[0], self_) == h.args[1].value \
                    and not any(self_attr(n, self_) and isinstance(getattr(n, "ctx", None), ast.Store)
                                for b in other for n in ast.walk(b)):
                notes.append(f"{fn.name}: {h.args[1].value} is stored only while it does not exist yet "
                             f"(construction); afterwards the setter leaves the object alone")
                return True
        return False

    def collect_tail(stmts, out):
        for s in stmts:
            r = stmt(s, out)
            if r is True:
                continue
            if isinstance(r, tuple):
                out.extend(r[1])
                continue
            if isinstance(s, ast.If):
                collect_tail(s.body, out)
                collect_tail(s.orelse, out)
            elif isinstance(s, (ast.For, ast.While, ast.With, ast.Try)):
                for n in ast.walk(s):
                    if isinstance(n, (ast.Assign, ast.AnnAssign, ast.AugAssign, ast.Delete)):
                        stmt(n, out) if not isinstance(n, ast.AugAssign) else target_effects(n.target, n.value, out, n)
            elif isinstance(s, (ast.Return, ast.Raise, ast.Expr)):
                continue
            else:
                bad(s, "statement kind")

    body = body_of(fn)
    for i, s in enumerate(body):
        r = stmt(s, main)
        if r is True:
            continue
        if isinstance(r, tuple):
            tail.extend(r[1])
        else:
            collect_tail([s], tail)
        collect_tail(body[i + 1:], tail)
        break
    return main, tail, stored[0], notes


def table(spec):
    raw = open(os.path.join(REPO, spec["file"]), "rb").read()
    cv = ClassView(ast.parse(raw), spec["cls"])
    aidx = {a: i for i, a in enumerate(spec["attrs"])}
    cidx = {k: i for i, k in enumerate(spec["fills"])}
    deps, notes = {}, []
    for k, (how, what) in spec["fills"].items():
        if how == "eager":
            deps[k] = list(what)
        else:
            fn = (cv.getters if how == "getter" else cv.methods).get(what)
            if fn is None:
                raise SourceShapeError(f"{spec['cls']}.{what} (fills {k}) not found")
            me = fn.args.args[0].arg
            fills_k = any(self_attr(t, me) == k for n in ast.walk(fn) if isinstance(n, (ast.Assign, ast.AnnAssign))
                          for t in (n.targets if isinstance(n, ast.Assign) else [n.target])) \
                or k == what                                   # cached_property: the getter's value IS the cache
            if not fills_k:
                raise SourceShapeError(f"{spec['cls']}.{what} does not fill {k}")
            deps[k] = sorted(cv.reads(fn, set(spec["attrs"])), key=lambda a: aidx[a])
            if not deps[k]:
                raise SourceShapeError(f"{spec['cls']}.{what}: no primary attribute read while filling {k}")
    rows = []
    for sname, attr in spec["setters"].items():
        fn = cv.setters.get(sname)
        if fn is None:
            raise SourceShapeError(f"{spec['cls']}.{sname} setter not found")
        # normal form first (vlib/astnorm.py): helper methods inlined, guard clauses and nested ifs as one decision
        # tree, aliases / single-use temporaries removed, setattr(self, "<const>", v) as an assignment
        plain = {k: v for k, v in cv.methods.items() if not v.decorator_list or
                 [ast.unparse(d) for d in v.decorator_list] in (["staticmethod"], ["classmethod"])}
        try:
            fn = N.normal(fn, plain)
        except N.NormError as e:
            raise SourceShapeError(f"{spec['cls']}.{sname} setter: {e}")
        main, tail, stored, ns = effects(cv, fn, spec, cidx)
        notes += ns
        if stored is not None and stored != attr:
            bad(fn, f"the {sname} setter stores {stored}, not {attr}")
        rows.append((sname, aidx[attr], main, tail))
    return dict(sha=hashlib.sha1(raw).hexdigest(), aidx=aidx, cidx=cidx, deps=deps, rows=rows, notes=notes)


def text():
    out = ["(* GENERATED on every run by harness/props/cache_src.py from the syntax trees of the setters of Rectangle, Circle, "
           "Polygon (geometry/shape.py), Lanelet (scenario/lanelet.py), TrajectoryPrediction (prediction/prediction.py) and "
           "Obstacle (scenario/obstacle.py).  Do not edit. *)",
           "From Coq Require Import List.", "From CR Require Import Model.CacheTable.", "Import ListNotations.", ""]
    for spec in SPECS:
        t = table(spec)
        nm = spec["name"]
        out.append(f"(* {spec['cls']} ({spec['file']} sha1={t['sha']})")
        out.append("   attributes: " + ", ".join(f"{i} = {a}" for a, i in t["aidx"].items()))
        out.append("   derived:    " + ", ".join(f"{i} = {k} <- {{{', '.join(t['deps'][k])}}}" for k, i in t["cidx"].items()))
        for n in t["notes"]:
            out.append("   note: " + n)
        out.append("*)")
        out.append(f"Definition src_{nm}_caches : list nat := [{'; '.join(str(i) for i in t['cidx'].values())}].")
        arms = " ".join(f"| {i} => [{'; '.join(str(t['aidx'][a]) for a in t['deps'][k])}]" for k, i in t["cidx"].items())
        out.append(f"Definition src_{nm}_deps (k : nat) : list nat := match k with {arms} | _ => [] end.")
        rows = []
        for sname, a, main, tail in t["rows"]:
            rows.append(f"  (* {sname} *) {{| s_attr := {a}; s_main := [{'; '.join(main)}]; s_tail := [{'; '.join(tail)}] |}}")
        out.append(f"Definition src_{nm}_setters : list setter :=\n  [\n" + ";\n".join(rows) + "\n  ].")
        out.append("")
    return "\n".join(out)


def generate():
    return write_if_changed(os.path.join(COQ, "Gen", "Src_cachetable.v"), text())


if __name__ == "__main__":
    print(text())
