"""C07 — obstacle / lanelet assignment is geometrically correct and invertible.

case   = {"net": strip-road parameters, "obs": [obstacle specs], "read": None | {"fmt", "os", "la"}, "ops": [...]}
         ops: add o | remove o | assign(time_steps, obstacle_ids, use_center_only); "read": the scenario is opened from a
         file (XML / protobuf) that holds the obstacles "os", with lanelet_assignment="la" (default True; False: the
         obstacles of the file come without any assignment and the history assigns them).
         An obstacle spec holds the poses [x, y, orientation] of the trajectory states; consecutive poses may share the
         position and / or the orientation (standing still, turning on the spot, sliding, coming back to an earlier pose).
oracle = the property statement, executable, against the real Scenario after every operation:
         (1) an admissible operation does not raise; (2) after an assignment the recorded centre / shape lanelet sets of
         every requested (obstacle, time step of its horizon) equal a brute-force geometric answer (shapely polygons
         built here from the raw lanelet vertices and from the raw parameters of the occupancy shape, plain
         `intersects`, no spatial index; lanelets within 1e-6 of the decision boundary are not judged); (3) after every
         operation the registries of the lanelets are the inverse of the stored shape assignment of the contained
         obstacles (histories with use_center_only=True: the weaker "consistent" clauses); (4) nothing stored
         contradicts the geometry.
corr   = Model/Assign.v evaluated by vm_compute on the same histories (Corr/C07.v): after every step the exception
         class, the obstacle keys, every assignment attribute of every obstacle and every registry of every lanelet
         must agree; the model's two geometric oracles are tables filled with what find_lanelet_by_position /
         find_lanelet_by_shape return for the obstacle's states (that these agree with the geometry is C06 and
         clause (2) above).  ORead = file opened with lanelet_assignment=True, OLoad = opened without (then assigned by
         the history); C07_read_complete / C07_read_is_assign: the reader stores the lookup of every state of its own.
         A reader or an assignment that reuses the lanelets of a previous state (e.g. because the position did not
         change while the orientation did) disagrees with the model and with the brute-force geometry."""
import atexit
import contextlib
import io
import logging
import math
import random
import zlib
import os
import shutil
import tempfile
import warnings

import numpy as np
from shapely.geometry import Point as SPoint
from shapely.geometry import Polygon as SPolygon

from vlib.core import qz, qb, qlist, qopt, sha
from vlib.flow import load_corpus

from commonroad.common.file_reader import CommonRoadFileReader
from commonroad.common.file_writer import CommonRoadFileWriter, OverwriteExistingFile
from commonroad.common.util import FileFormat
from commonroad.geometry.shape import Circle, Polygon, Rectangle, ShapeGroup
from commonroad.planning.planning_problem import PlanningProblemSet
from commonroad.prediction.prediction import TrajectoryPrediction
from commonroad.scenario.lanelet import Lanelet, LaneletNetwork
from commonroad.scenario.obstacle import DynamicObstacle, ObstacleType, StaticObstacle
from commonroad.scenario.scenario import Scenario, ScenarioID, Tag
from commonroad.scenario.state import InitialState, KSState
from commonroad.scenario.trajectory import Trajectory

RULE = ("histories (1-14 operations) over a generated road (1-3 lanes x 1-3 segments, straight or curved, optionally a "
        "crossing road so that lanelets overlap) and a universe of 1-5 obstacles (static / dynamic with a trajectory "
        "prediction of 1-6 states / dynamic without prediction; rectangle, circle, polygon, shape group; centred and "
        "off-centre shapes, 1 in 3 long and thin (6-14 m x 0.4-1.6 m) so that the lanelets met depend on the "
        "orientation; placed on a lane, straddling a lane boundary, partly or completely off the road; initial "
        "time steps 0-3; trajectories made of driving / sliding (orientation kept) / standing still (pose repeated) / "
        "turning on the spot (position kept, orientation changed) / returning to an earlier pose, the first state "
        "possibly at the initial pose): add_objects, remove_obstacle (contained obstacles, rarely an absent one), "
        "assign_obstacles_to_lanelets(time_steps None / subsets incl. steps outside the horizon, obstacle_ids None / "
        "subsets, use_center_only in 1 of 5 histories), and in 2 of 5 histories the scenario is opened from an XML or "
        "protobuf file, 3 of 4 times with lanelet_assignment=True, else without (then assigned by the history).  Every "
        "route (assign on built objects, assign on objects read from a file, XML reader, protobuf reader) is judged "
        "per time step against the brute-force geometry of the state of THAT time step.  evaluations = operations; "
        "distinct = distinct histories; non-trivial = the history contains an assignment and a removal")
ASSUME = ["the obstacles do not move and the lanelet network does not change during a history (re-assignment after "
          "translate_rotate / a new initial state is outside the quantifier of C07: stale registry entries remain, "
          "see design.d/C07.md)",
          "states are exact (no uncertain positions); dynamic obstacles have a TrajectoryPrediction that starts one "
          "step after the initial state, or no prediction (set-based predictions are never assigned by the library)",
          "a file read with lanelet_assignment=True is schema-valid: its dynamic obstacles have a trajectory",
          "a file opened with lanelet_assignment=False yields new obstacle objects without assignment attributes (the "
          "model's admissibility test `ok` demands it in the correspondence; the oracle judges whatever is stored)",
          "positions and orientations of consecutive states are compared nowhere by the oracle or the model: every time "
          "step is judged with the geometry / lookup of its own state (identical consecutive poses are ordinary inputs)",
          "which lanelets contain a point / meet a shape is taken from find_lanelet_by_position / find_lanelet_by_shape "
          "in the Coq model (their geometric correctness is C06); the Python oracle compares the recorded sets with a "
          "brute-force computation, using for a Circle the disc the implementation itself uses (radius/2, recorded "
          "finding of C06) and not judging lanelets within 1e-6 of the decision boundary",
          "add_objects is called for obstacles that are not contained; obstacle_ids name contained obstacles"]

V = np.array
EPS = 1e-6
_TMP = None


def tmpdir():
    global _TMP
    if _TMP is None:
        base = "/var/tmp/c07" if os.path.isdir("/var/tmp/c07") else os.environ.get("VERIF_TMP", "/var/tmp")
        _TMP = tempfile.mkdtemp(prefix="c07_", dir=base)
        atexit.register(shutil.rmtree, _TMP, True)
    return _TMP


# ------------------------------------------------------------------------------------ building objects from a case
def net_rings(nd):
    """lanelet id -> (left vertices, right vertices): lanes of a road that follows an arc of curvature kappa, cut into
    segments; optionally a crossing road (two more lanelets) over the first segment"""
    lanes, segs, w, sl, kappa, pts = nd["lanes"], nd["segs"], nd["width"], nd["seg_len"], nd["kappa"], nd["pts"]
    total = segs * (pts - 1) + 1
    ds = sl / (pts - 1)
    ref, th = [], []
    x = y = a = 0.0
    for _ in range(total):
        ref.append((x, y))
        th.append(a)
        x, y, a = x + ds * math.cos(a), y + ds * math.sin(a), a + kappa * ds
    out = {}
    for s in range(segs):
        idx = range(s * (pts - 1), (s + 1) * (pts - 1) + 1)
        for la in range(lanes):
            def off(d):
                return [[round(ref[i][0] - d * math.sin(th[i]), 4), round(ref[i][1] + d * math.cos(th[i]), 4)] for i in idx]
            out[1 + s * lanes + la] = (off((la + 1) * w), off(la * w))
    if nd.get("cross"):
        x0, cw = nd["cross"], 3.0
        top = lanes * w + 4.0
        out[90] = ([[x0, -4.0], [x0, top]], [[x0 + cw, -4.0], [x0 + cw, top]])
        out[91] = ([[x0 + cw, -4.0], [x0 + cw, top]], [[x0 + 2 * cw, -4.0], [x0 + 2 * cw, top]])
    if nd.get("twin") in out:
        out[95] = ([list(p) for p in out[nd["twin"]][0]], [list(p) for p in out[nd["twin"]][1]])
    return out


def build_net(nd):
    net = LaneletNetwork()
    for lid, (left, right) in sorted(net_rings(nd).items()):
        left, right = V(left), V(right)
        net.add_lanelet(Lanelet(left, (left + right) / 2.0, right, lid))
    return net


def put_network(sc, nd):
    """the lanelets of the case enter the scenario as a network, as a list, one by one, or as a list whose last element
    is rejected (an id that is taken: the caller catches the ValueError and goes on with what was accepted)"""
    route = nd.get("route", "network")
    if route == "network":
        sc.add_objects(build_net(nd))
        return
    lanelets = []
    for lid, (left, right) in sorted(net_rings(nd).items()):
        left, right = V(left), V(right)
        lanelets.append(Lanelet(left, (left + right) / 2.0, right, lid))
    if route == "one_by_one":
        for la in lanelets:
            sc.add_objects(la)
    elif route == "list":
        sc.add_objects(lanelets)
    else:
        left, right = lanelets[0].left_vertices.copy(), lanelets[0].right_vertices.copy()
        again = Lanelet(left, (left + right) / 2.0, right, lanelets[0].lanelet_id)
        try:
            sc.add_objects(lanelets + [again])
        except ValueError:
            pass


def build_shape(s):
    k = s["k"]
    if k == "rect":
        return Rectangle(s["l"], s["w"], V(s.get("c", [0.0, 0.0])), s.get("o", 0.0))
    if k == "circ":
        return Circle(s["r"], V(s.get("c", [0.0, 0.0])))
    if k == "poly":
        return Polygon(V(s["v"]))
    return ShapeGroup([build_shape(m) for m in s["m"]])


def build_obstacle(od):
    x, y, th = od["init"]
    init = InitialState(time_step=od["t0"], position=V([x, y]), orientation=th, velocity=1.0, acceleration=0.0,
                        yaw_rate=0.0, slip_angle=0.0)
    shape = build_shape(od["shape"])
    if zlib.crc32(repr(sorted(od["shape"].items(), key=str)).encode()) % 3 == 0:
        # the footprint was looked at before the obstacle was put together (drawn, measured): whatever the shape
        # remembers from that must not travel with the copies placed at the states (seed C07-15)
        for m in (shape.shapes if isinstance(shape, ShapeGroup) else [shape]):
            _ = m.shapely_object
            if hasattr(m, "vertices"):
                _ = m.vertices
    if od["role"] == "static":
        return StaticObstacle(od["id"], ObstacleType.PARKED_VEHICLE, shape, init)
    if od["role"] == "none":
        return DynamicObstacle(od["id"], ObstacleType.CAR, shape, init, None)
    states = [KSState(time_step=od["t0"] + 1 + i, position=V([px, py]), orientation=pth, velocity=1.0,
                      steering_angle=0.0) for i, (px, py, pth) in enumerate(od["states"])]
    return DynamicObstacle(od["id"], ObstacleType.CAR, shape, init,
                           TrajectoryPrediction(Trajectory(od["t0"] + 1, states), build_shape(od["shape"])))


def new_scenario():
    return Scenario(0.1, ScenarioID(False, "ZAM", "Test", 1, 1, "T", 1))


def open_with_assignment(case):
    """writes the network and the obstacles case['read']['os'] to a file and opens it with lanelet_assignment=True
    (or False when case['read']['la'] is False)"""
    rd = case["read"]
    scw = new_scenario()
    scw.add_objects(build_net(case["net"]))
    by_id = {od["id"]: od for od in case["obs"]}
    for o in rd["os"]:
        scw.add_objects(build_obstacle(by_id[o]))
    ff = FileFormat.XML if rd["fmt"] == "xml" else FileFormat.PROTOBUF
    path = os.path.join(tmpdir(), "ZAM_Test-1_1_T-1" + (".xml" if rd["fmt"] == "xml" else ".pb"))
    logging.disable(logging.WARNING)  # the writer logs "Default location will be written ..." and prints "Replace file"
    try:
        with contextlib.redirect_stdout(io.StringIO()):
            CommonRoadFileWriter(scw, PlanningProblemSet(), "a", "b", "c", {Tag.URBAN}, file_format=ff) \
                .write_to_file(path, OverwriteExistingFile.ALWAYS, check_validity=False)
            sc, _ = CommonRoadFileReader(path, file_format=ff).open(lanelet_assignment=rd.get("la", True))
    finally:
        logging.disable(logging.NOTSET)
    return sc


# ------------------------------------------------------------------------------------ brute-force geometry
def shape_geoms(shape, outer=False):
    """shapely geometries of a commonroad shape, from its raw parameters (no use of shape.shapely_object).
    A Circle is judged with two discs: the library intersects lanelets with a disc of half the radius (recorded
    finding of C06, pinned by tests/common/test_file_reader.py::test_open_all).  C07 is about the bookkeeping, so a
    lanelet is 'definitely met' when the inner disc (radius/2) meets it and 'definitely not met' when the disc of the
    full radius (outer=True) misses it; lanelets in between are not judged."""
    if isinstance(shape, ShapeGroup):
        out = []
        for m in shape.shapes:
            out += shape_geoms(m, outer)
        return out
    if isinstance(shape, Rectangle):
        c, s = math.cos(shape.orientation), math.sin(shape.orientation)
        hl, hw = shape.length / 2.0, shape.width / 2.0
        cx, cy = float(shape.center[0]), float(shape.center[1])
        return [SPolygon([(cx + c * dx - s * dy, cy + s * dx + c * dy)
                          for dx, dy in ((-hl, -hw), (hl, -hw), (hl, hw), (-hl, hw))])]
    if isinstance(shape, Circle):
        return [SPoint(float(shape.center[0]), float(shape.center[1])).buffer(shape.radius if outer
                                                                              else shape.radius / 2.0)]
    return [SPolygon([(float(px), float(py)) for px, py in shape.vertices])]


def decide(ring, inner, outer):
    """does the lanelet polygon meet the shape?  True / False / None (within EPS of the boundary, or between the two
    discs of a circle)"""
    grown, shrunk = ring.buffer(EPS), ring.buffer(-EPS)
    if any(shrunk.intersects(g) for g in inner):
        return True
    if not any(grown.intersects(g) for g in outer):
        return False
    return None


class Geo:
    """the geometric truth of a case: for every obstacle and time step of its horizon the lanelets that contain the
    centre and the lanelets the occupancy meets (definite members, undecided lanelets)"""

    def __init__(self, case, O):
        self.rings = {lid: SPolygon([tuple(p) for p in left] + [tuple(p) for p in reversed(right)])
                      for lid, (left, right) in net_rings(case["net"]).items()}
        self.centre, self.shape = {}, {}
        self.horizon = {}
        self.undecided = 0
        for od in case["obs"]:
            o = O[od["id"]]
            t0 = o.initial_state.time_step
            ts = [t0]
            if isinstance(o, DynamicObstacle) and o.prediction is not None:
                ts = list(range(t0, o.prediction.final_time_step + 1))
            self.horizon[od["id"]] = ts
            for t in ts:
                st = o.initial_state if t == t0 else o.prediction.trajectory.state_at_time_step(t)
                pos = st.position
                pt = [SPoint(float(pos[0]), float(pos[1]))]
                occ = o.occupancy_at_time(t).shape
                self.centre[(od["id"], t)] = self._sets(pt, pt)
                self.shape[(od["id"], t)] = self._sets(shape_geoms(occ), shape_geoms(occ, outer=True))
        self.stats = {"placements": len(self.shape)}
        for od in case["obs"]:
            if od["role"] != "traj":
                continue
            poses = [od["init"]] + od["states"]
            for i in range(1, len(poses)):
                a, b = poses[i - 1], poses[i]
                same_p, same_o = a[:2] == b[:2], a[2] == b[2]
                k = "consecutive states: " + ("same pose" if same_p and same_o else
                                              "same position, other orientation" if same_p else
                                              "moved, same orientation" if same_o else "moved and turned")
                self.stats[k] = self.stats.get(k, 0) + 1
                ta, tb = od["t0"] + i - 1, od["t0"] + i
                if same_p and self.shape[(od["id"], ta)][0] != self.shape[(od["id"], tb)][0]:
                    k = "consecutive states at the same position that meet different lanelets"
                    self.stats[k] = self.stats.get(k, 0) + 1
        for key, (sy, _) in self.shape.items():
            cy = self.centre[key][0]
            for name, hit in (("shape on more lanelets than the centre", len(sy) > len(cy)),
                              ("centre on a lanelet the shape does not meet", bool(cy - sy)),
                              ("centre on several lanelets", len(cy) > 1),
                              ("shape on the road, centre off the road", bool(sy) and not cy),
                              ("completely off the road", not sy and not cy)):
                if hit:
                    self.stats[name] = self.stats.get(name, 0) + 1

    def _sets(self, inner, outer):
        yes, maybe = set(), set()
        for lid, ring in self.rings.items():
            d = decide(ring, inner, outer)
            if d is True:
                yes.add(lid)
            elif d is None:
                maybe.add(lid)
                self.undecided += 1
        return yes, maybe

    @staticmethod
    def agrees(recorded, truth):
        yes, maybe = truth
        return (set(recorded) ^ yes) <= maybe


# ------------------------------------------------------------------------------------ observation
def sset(x):
    return None if x is None else sorted(int(i) for i in x)


def sdict(d):
    return None if d is None else {int(t): sorted(int(i) for i in v) for t, v in d.items()}


def observe(sc, O):
    obs = {}
    for oid, o in O.items():
        pred = getattr(o, "prediction", None)
        obs[oid] = {"ic": sset(o.initial_center_lanelet_ids), "ish": sset(o.initial_shape_lanelet_ids),
                    "ca": sdict(pred.center_lanelet_assignment) if pred is not None else None,
                    "sa": sdict(pred.shape_lanelet_assignment) if pred is not None else None}
    return {"statics": sorted(o.obstacle_id for o in sc.static_obstacles),
            "dynamics": sorted(o.obstacle_id for o in sc.dynamic_obstacles),
            "obs": obs,
            "sreg": {la.lanelet_id: sorted(la.static_obstacles_on_lanelet) for la in sc.lanelet_network.lanelets},
            "dreg": {la.lanelet_id: {int(t): sorted(v) for t, v in la.dynamic_obstacles_on_lanelet.items()}
                     for la in sc.lanelet_network.lanelets}}


def stored_shape(ob, od, t):
    """the stored shape assignment of an obstacle at t, as the registry is supposed to mirror it"""
    out = set()
    if t == od["t0"] and ob["ish"] is not None:
        out |= set(ob["ish"])
    if od["role"] == "traj" and ob["sa"] is not None and t in ob["sa"]:
        out |= set(ob["sa"][t])
    return out


def stored_centre(ob, od, t):
    out = set()
    if t == od["t0"] and ob["ic"] is not None:
        out |= set(ob["ic"])
    if od["role"] == "traj" and ob["ca"] is not None and t in ob["ca"]:
        out |= set(ob["ca"][t])
    return out


# ------------------------------------------------------------------------------------ the property, executable
def op_name(case, op):
    by_id = {od["id"]: od for od in case["obs"]}
    if op["op"] == "add":
        return f"add_objects({'static' if by_id[op['o']]['role'] == 'static' else 'dynamic'})"
    if op["op"] == "remove":
        return f"remove_obstacle({'static' if by_id[op['o']]['role'] == 'static' else 'dynamic'})"
    return f"assign_obstacles_to_lanelets(use_center_only={op['c']})"


def read_name(case):
    return f"open({case['read']['fmt']}, lanelet_assignment={bool(case['read'].get('la', True))})"


def has_group(case, ids):
    by_id = {od["id"]: od for od in case["obs"]}
    return any(by_id[o]["shape"]["k"] == "group" for o in ids)


def check_recorded(case, geo, snap, pairs, centre_only):
    """clause (2): the requested (obstacle, time step) pairs carry the geometric answer"""
    by_id = {od["id"]: od for od in case["obs"]}
    for o, t in pairs:
        od, ob = by_id[o], snap["obs"][o]
        recs = []
        if t == od["t0"]:
            recs.append(("initial", ob["ic"], None if centre_only else ob["ish"]))
        if od["role"] == "traj":
            recs.append(("prediction", None if ob["ca"] is None else ob["ca"].get(t),
                         None if centre_only or ob["sa"] is None else ob["sa"].get(t)))
        for where, c, s in recs:
            if c is None or (not centre_only and s is None):
                return (f"time step of the horizon not assigned ({where}, {od['role']})",
                        f"obstacle {o} t={t}: centre={c} shape={s}")
            if not geo.agrees(c, geo.centre[(o, t)]):
                return (f"recorded centre lanelets differ from the geometry ({where}, {od['role']})",
                        f"obstacle {o} t={t}: recorded {c}, geometry {sorted(geo.centre[(o, t)][0])}")
            if not centre_only and not geo.agrees(s, geo.shape[(o, t)]):
                return (f"recorded shape lanelets differ from the geometry ({where}, {od['role']}, {od['shape']['k']})",
                        f"obstacle {o} t={t}: recorded {s}, geometry {sorted(geo.shape[(o, t)][0])}")
    return None


def check_truth(case, geo, snap):
    """clause (4): whatever is stored for a time step of the horizon equals the geometry (the world is fixed)"""
    for od in case["obs"]:
        o, ob = od["id"], snap["obs"][od["id"]]
        for t in geo.horizon[o]:
            for name, rec, truth in (("centre", ob["ic"] if t == od["t0"] else None, geo.centre),
                                     ("shape", ob["ish"] if t == od["t0"] else None, geo.shape),
                                     ("centre", (ob["ca"] or {}).get(t), geo.centre),
                                     ("shape", (ob["sa"] or {}).get(t), geo.shape)):
                if rec is not None and not geo.agrees(rec, truth[(o, t)]):
                    return (f"stored {name} lanelets contradict the geometry ({od['role']}, {od['shape']['k']})",
                            f"obstacle {o} t={t}: stored {rec}, geometry {sorted(truth[(o, t)][0])}")
    return None


def check_registries(case, snap, strict):
    """clause (3): registries = inverse of the stored shape assignment of the contained obstacles"""
    by_id = {od["id"]: od for od in case["obs"]}
    for lid in snap["sreg"]:
        reg = set(snap["sreg"][lid])
        for o in reg:
            if o not in snap["statics"]:
                return ("static registry names an obstacle that is not in the scenario",
                        f"lanelet {lid} lists {o}, static obstacles {snap['statics']}")
        want = {o for o in snap["statics"] if lid in stored_shape(snap["obs"][o], by_id[o], by_id[o]["t0"])}
        if not want <= reg:
            return ("static registry misses a stored shape lanelet",
                    f"lanelet {lid}: registry {sorted(reg)}, shape assignment names {sorted(want)}")
        for o in reg - want:
            if strict or lid not in stored_centre(snap["obs"][o], by_id[o], by_id[o]["t0"]):
                return ("static registry is not the inverse of the stored shape assignment",
                        f"lanelet {lid}: registry {sorted(reg)}, shape assignment names {sorted(want)}")
        times = set(snap["dreg"][lid])
        for o in snap["dynamics"]:
            times |= set(snap["obs"][o]["sa"] or {}) | {by_id[o]["t0"]}
        for t in sorted(times):
            reg = set(snap["dreg"][lid].get(t, []))
            for o in reg:
                if o not in snap["dynamics"]:
                    return ("dynamic registry names an obstacle that is not in the scenario",
                            f"lanelet {lid} t={t} lists {o}, dynamic obstacles {snap['dynamics']}")
            want = {o for o in snap["dynamics"] if lid in stored_shape(snap["obs"][o], by_id[o], t)}
            if not want <= reg:
                return ("dynamic registry misses a stored shape lanelet",
                        f"lanelet {lid} t={t}: registry {sorted(reg)}, shape assignment names {sorted(want)}")
            for o in reg - want:
                if strict or lid not in stored_centre(snap["obs"][o], by_id[o], t):
                    return ("dynamic registry is not the inverse of the stored shape assignment",
                            f"lanelet {lid} t={t}: registry {sorted(reg)}, shape assignment names {sorted(want)}")
    return None


_ELSEWHERE = []


def use_elsewhere(sc, O):
    """the map of the scenario is cut out into a second scenario (LaneletNetwork.create_from_lanelet_network), which gets
    copies of the obstacles and assigns them: nothing of that may show in the first scenario"""
    import copy
    try:
        net2 = LaneletNetwork.create_from_lanelet_network(sc.lanelet_network)
        sc2 = new_scenario()
        sc2.add_objects(net2)
        for i in sorted(O):
            ob = copy.deepcopy(O[i])
            ob.obstacle_id = 5000 + int(i)
            sc2.add_objects(ob)
        sc2.assign_obstacles_to_lanelets()
        _ELSEWHERE.append(sc2)
        del _ELSEWHERE[:-3]
    except Exception:  # noqa - whatever the second scenario does to itself is not judged here
        pass


def apply_op(sc, O, op):
    if op.get("elsewhere"):
        use_elsewhere(sc, O)
    try:
        if op["op"] == "add":
            sc.add_objects(O[op["o"]])
        elif op["op"] == "remove":
            sc.remove_obstacle(O[op["o"]])
        else:
            sc.assign_obstacles_to_lanelets(time_steps=None if op["ts"] is None else list(op["ts"]),
                                            obstacle_ids=None if op["ids"] is None else set(op["ids"]),
                                            use_center_only=op["c"])
    except (KeyError, AttributeError, AssertionError, TypeError, ValueError, IndexError) as e:
        return type(e).__name__
    return None


def lib_world(sc, O, case, times):
    """the tables of the model's world: what the library's own lookups answer for every obstacle and time step.
    None when a lookup raises (then the case is not used for the correspondence)."""
    net = sc.lanelet_network
    cin, sm = {}, {}
    for od in case["obs"]:
        o = O[od["id"]]
        cin[od["id"]], sm[od["id"]] = {}, {}
        for t in times:
            if t == od["t0"]:
                pos = o.initial_state.position
            elif od["role"] == "traj" and o.prediction.trajectory.state_at_time_step(t) is not None:
                pos = o.prediction.trajectory.state_at_time_step(t).position
            else:
                continue
            try:
                cin[od["id"]][t] = sorted(set(net.find_lanelet_by_position([pos])[0]))
                sm[od["id"]][t] = sorted(set(net.find_lanelet_by_shape(o.occupancy_at_time(t).shape)))
            except (AssertionError, AttributeError, TypeError):
                return None
    return {"cin": cin, "sm": sm}


def in_domain(snap, op):
    inside = set(snap["statics"]) | set(snap["dynamics"])
    if op["op"] == "add":
        return op["o"] not in inside
    if op["op"] == "assign":
        return op["ids"] is None or set(op["ids"]) <= inside
    return True


def execute(case, chooser=None):
    """runs a history on the implementation and judges every step.
    Returns (failure | None, trace, info); trace = [(op | 'read', exception name | None, snapshot)]"""
    by_id = {od["id"]: od for od in case["obs"]}
    info = {"world": None, "times": [], "undecided": 0}
    trace = []
    O = {}
    strict = True
    if case.get("read"):
        try:
            sc = open_with_assignment(case)
        except (KeyError, AttributeError, AssertionError, TypeError, ValueError, IndexError) as e:
            kinds = " [ShapeGroup obstacle]" if has_group(case, case["read"]["os"]) else ""
            return ((f"{read_name(case)}:raises {type(e).__name__}{kinds}",
                     f"reading a file with obstacles {case['read']['os']} raised {type(e).__name__}: {str(e)[:120]}"),
                    trace, info)
        for o in case["read"]["os"]:
            O[o] = sc.obstacle_by_id(o)
    else:
        sc = new_scenario()
        put_network(sc, case["net"])
    for od in case["obs"]:
        if od["id"] not in O:
            O[od["id"]] = build_obstacle(od)
    geo = Geo(case, O)
    lo = min(od["t0"] for od in case["obs"]) - 2
    hi = max(od["t0"] + len(od.get("states", [])) for od in case["obs"]) + 2
    info["times"] = list(range(lo, hi + 1))
    info["world"] = lib_world(sc, O, case, info["times"])
    info["undecided"] = geo.undecided
    info["placements"] = geo.stats

    def state_clauses(snap, name):
        pr = check_registries(case, snap, strict) or check_truth(case, geo, snap)
        return (f"{name}:{pr[0]}", pr[1]) if pr else None

    failure = None
    snap = observe(sc, O)
    if case.get("read"):
        trace.append(("read", None, snap))
        name = read_name(case)
        pr = None
        if case["read"].get("la", True):   # clause (2) for the reader: every state of the file, judged on its own
            pairs = [(o, t) for o in case["read"]["os"] for t in geo.horizon[o]]
            pr = check_recorded(case, geo, snap, pairs, False)
        # (lanelet_assignment=False: nothing has to be recorded yet; clauses (3) and (4) judge whatever is)
        failure = (f"{name}:{pr[0]}", pr[1]) if pr else state_clauses(snap, name)
    ops = case["ops"]
    step = 0
    while failure is None:
        if chooser is not None:
            op = chooser(snap, step)
            if op is None:
                break
            ops.append(op)
        elif step >= len(ops):
            break
        else:
            op = ops[step]
        if not in_domain(snap, op):  # not an admissible call (DESIGN 2.7): the history ends before it
            if chooser is not None:
                ops.pop()
            break
        name = op_name(case, op)
        before = snap
        exc = apply_op(sc, O, op)
        snap = observe(sc, O)
        trace.append((op, exc, snap))
        if op["op"] == "assign" and op["c"]:
            strict = False
        if exc is not None:
            extra = ""
            if op["op"] == "assign":
                ids = op["ids"] if op["ids"] is not None else before["statics"] + before["dynamics"]
                early = op["ts"] is not None and any(t < by_id[o]["t0"] for o in ids for t in op["ts"]
                                                     if by_id[o]["role"] == "traj")
                if exc == "AssertionError" and has_group(case, ids):
                    extra = " [ShapeGroup obstacle]"
                elif exc == "AttributeError" and early:
                    extra = " [time step before an obstacle's initial time step]"
            failure = (f"{name}:raises {exc}{extra}", f"step {step} {op} raised {exc}")
            break
        if op["op"] == "assign":
            ids = op["ids"] if op["ids"] is not None else snap["statics"] + snap["dynamics"]
            pairs = [(o, t) for o in ids for t in geo.horizon[o] if op["ts"] is None or t in op["ts"]
                     or (by_id[o]["role"] == "static")]
            pr = check_recorded(case, geo, snap, pairs, op["c"])
            if pr:
                failure = (f"{name}:{pr[0]}", f"step {step} {op}: {pr[1]}")
                break
        if op["op"] == "remove":
            o = op["o"]
            if o in snap["statics"] or o in snap["dynamics"]:
                failure = (f"{name}:obstacle still contained", f"step {step} {op}")
                break
            left = [lid for lid in snap["sreg"] if o in snap["sreg"][lid]] + \
                   [(lid, t) for lid in snap["dreg"] for t, v in snap["dreg"][lid].items() if o in v]
            if left:
                failure = (f"{name}:a registry keeps the removed obstacle"
                           f"{'' if strict else ' (after use_center_only=True)'}",
                           f"step {step} {op}: obstacle {o} still listed on {left[:6]}")
                break
        failure = state_clauses(snap, name)
        if failure:
            failure = (failure[0], f"step {step} {op}: {failure[1]}")
        step += 1
    return failure, trace, info


def oracle(case):
    c = dict(case)
    c["ops"] = list(case["ops"])
    return execute(c)[0]


# ------------------------------------------------------------------------------------ generator
def r3(rng, lo, hi):
    return round(rng.uniform(lo, hi), 3)


def gen_shape(rng, allow_group=True, offc=False, long=False):
    """long: a long thin shape (truck, trailer, tram): which lanelets it meets depends on its orientation"""
    k = rng.choice(["rect", "rect", "rect", "circ", "poly"] + (["group"] if allow_group else []))
    c = [r3(rng, -2.5, 2.5), r3(rng, -4.0, 4.0)] if offc else [0.0, 0.0]
    if long and k == "circ":
        k = "rect"
    if long and k == "rect":
        return {"k": "rect", "l": r3(rng, 6.0, 14.0), "w": r3(rng, 0.4, 1.6), "c": c,
                "o": r3(rng, -1.5, 1.5) if offc else 0.0}
    if long and k == "poly":  # a thin quadrilateral along a random axis through c, slightly irregular
        hl, hw, a = r3(rng, 3.0, 7.0), r3(rng, 0.2, 0.8), (rng.uniform(-1.5, 1.5) if offc else 0.0)
        ca, sa = math.cos(a), math.sin(a)
        return {"k": "poly", "v": [[round(c[0] + ca * dx - sa * dy, 3), round(c[1] + sa * dx + ca * dy, 3)]
                                   for dx, dy in ((-hl, -hw), (hl * rng.uniform(0.8, 1.0), -hw * rng.uniform(0.5, 1.0)),
                                                  (hl, hw), (-hl * rng.uniform(0.8, 1.0), hw * rng.uniform(0.5, 1.0)))]}
    if long and k == "group":  # tractor + trailer
        return {"k": "group", "m": [gen_shape(rng, False, rng.random() < 0.5, True)] +
                                   [gen_shape(rng, False, True) for _ in range(rng.randint(0, 2))]}
    if k == "rect":
        return {"k": "rect", "l": r3(rng, 1.0, 6.0), "w": r3(rng, 0.6, 3.5), "c": c,
                "o": r3(rng, -1.5, 1.5) if offc else 0.0}
    if k == "circ":
        return {"k": "circ", "r": r3(rng, 0.4, 4.0), "c": c}
    if k == "poly":
        n = rng.randint(3, 6)
        angs = sorted(rng.uniform(0, 2 * math.pi) for _ in range(n))
        while min((angs[(i + 1) % n] - angs[i]) % (2 * math.pi) for i in range(n)) < 0.4:
            angs = sorted(rng.uniform(0, 2 * math.pi) for _ in range(n))
        return {"k": "poly", "v": [[round(c[0] + rr * math.cos(a), 3), round(c[1] + rr * math.sin(a), 3)]
                                   for rr, a in ((rng.uniform(0.8, 3.0), a) for a in angs)]}
    return {"k": "group", "m": [gen_shape(rng, False, True) for _ in range(rng.randint(1, 3))]}


def wrap(a):
    return round(math.atan2(math.sin(a), math.cos(a)), 3)


def gen_states(rng, x, y, th, width):
    """the poses [x, y, orientation] of the trajectory states that follow the initial pose.  A trajectory is made of
    moves: drive (new position, old or new orientation), slide (new position, orientation kept), stand (pose repeated),
    swivel (position kept, orientation changed: turning on the spot), back (an earlier pose again)."""
    profile = rng.choice(["drive", "drive", "mixed", "mixed", "mixed", "swivel", "stand", "stop-turn-go"])
    n = rng.randint(1, 4) if profile == "drive" else rng.randint(1, 6)
    dy = rng.choice([0.0, 0.0, width / 2.0, -width / 3.0, width])
    poses, px, py, pth = [], x, y, th
    for i in range(n):
        if profile == "mixed":
            mv = rng.choice(["drive", "slide", "stand", "stand", "swivel", "swivel", "back"])
        elif profile == "stop-turn-go":
            mv = ["drive", "stand", "swivel", "swivel", "drive", "slide"][(i + (0 if n > 3 else 1)) % 6]
        else:
            mv = profile
        if mv == "drive":
            px, py = round(px + r3(rng, 0.5, 4.0), 3), round(py + dy * rng.random(), 3)
            pth = rng.choice([th, r3(rng, -1.0, 1.0)])
        elif mv == "slide":
            px, py = round(px + r3(rng, -2.0, 4.0), 3), round(py + r3(rng, -1.0, 1.0) * width / 2.0, 3)
        elif mv == "swivel":
            pth = rng.choice([wrap(pth + rng.choice([-1, 1]) * rng.choice([0.3, 0.6, 1.0, math.pi / 2, 2.0, math.pi])),
                              wrap(pth + r3(rng, -1.6, 1.6)), r3(rng, -3.1, 3.1), 0.0])
        elif mv == "back":
            px, py, pth = rng.choice([[x, y, th]] + poses)
        poses.append([px, py, pth])
    return poses


def gen_case(rng):
    lanes, segs = rng.randint(1, 3), rng.randint(1, 3)
    width, seg_len = rng.choice([3.0, 3.5, 4.0]), rng.choice([8.0, 12.0, 20.0])
    nd = {"lanes": lanes, "segs": segs, "width": width, "seg_len": seg_len,
          "kappa": rng.choice([0.0, 0.0, 0.02, -0.015, 0.04]), "pts": rng.randint(2, 4),
          "cross": rng.choice([None, None, 2.0, 5.0])}
    if rng.random() < 0.25:
        # a lane that is modelled twice (car lane + tram / bus lanelet over the same surface): same boundary polylines,
        # another id
        nd["twin"] = rng.randint(1, lanes * segs)
    # how the lanelets enter the scenario (derived from the net itself: no draw from the main stream)
    nd["route"] = random.Random(zlib.crc32(repr(sorted(nd.items())).encode())).choice(
        ["network"] * 5 + ["list", "list", "list_rejected", "list_rejected", "one_by_one"])
    length, top = segs * seg_len, lanes * width
    obs = []
    n_obs = rng.choice([1, 2, 2, 3, 3, 4, 5])
    for i in range(n_obs):
        role = rng.choice(["static", "traj", "traj", "none"])
        place = rng.random()
        if place < 0.45:      # on a lane
            y = (rng.randrange(lanes) + 0.5) * width + r3(rng, -0.4, 0.4)
        elif place < 0.8:     # at a lane boundary (straddling, or just touching)
            y = rng.randint(0, lanes) * width + rng.choice([0.0, r3(rng, -0.6, 0.6), r3(rng, -1.6, 1.6)])
        else:                 # anywhere, also off the road
            y = r3(rng, -5.0, top + 5.0)
        x = rng.choice([r3(rng, 0.5, length - 0.5), r3(rng, 0.5, length - 0.5), r3(rng, -4.0, length + 4.0),
                        rng.randint(0, segs) * seg_len])
        th = rng.choice([0.0, 0.0, r3(rng, -3.1, 3.1)])
        t0 = rng.choice([0, 0, 0, 1, 3])
        od = {"id": 30 + i, "role": role,
              "shape": gen_shape(rng, True, rng.random() < 0.25, rng.random() < 0.33), "t0": t0,
              "init": [round(x, 3), round(y, 3), th]}
        if role == "traj":
            od["states"] = gen_states(rng, od["init"][0], od["init"][1], th, width)
        obs.append(od)
    case = {"net": nd, "obs": obs, "read": None, "ops": []}
    if rng.random() < 0.4:
        cand = [od["id"] for od in obs if od["role"] != "none"]
        if cand:
            case["read"] = {"fmt": rng.choice(["xml", "pb"]),
                            "os": sorted(rng.sample(cand, rng.randint(1, len(cand)))),
                            "la": rng.random() < 0.75}
    return case


def make_chooser(rng, case):
    by_id = {od["id"]: od for od in case["obs"]}
    all_ids = sorted(by_id)
    n_steps = rng.choice([rng.randint(1, 5), rng.randint(4, 10), rng.randint(8, 14)])
    allow_centre = rng.random() < 0.2
    wild_remove = rng.random() < 0.1
    tmax = max(od["t0"] + len(od.get("states", [])) for od in case["obs"])
    unassigned_file = bool(case.get("read")) and not case["read"].get("la", True)

    def chooser(snap, step):
        op = choose(snap, step)
        if op is not None and rng.random() < 0.12:
            op["elsewhere"] = True
        return op

    def choose(snap, step):
        if step >= n_steps:
            return None
        inside = sorted(set(snap["statics"]) | set(snap["dynamics"]))
        outside = [o for o in all_ids if o not in inside]
        r = rng.random()
        if step == 0 and unassigned_file and r < 0.6:
            return {"op": "assign", "ts": None, "ids": None, "c": False}
        if outside and (r < 0.3 or not inside):
            return {"op": "add", "o": rng.choice(outside)}
        if r < 0.7 and inside:
            ts = None
            if rng.random() < 0.45:
                ts = sorted(set(rng.randint(-1, tmax + 1) for _ in range(rng.randint(1, 4))))
            ids = None
            if rng.random() < 0.4:
                ids = sorted(rng.sample(inside, rng.randint(1, len(inside))))
            return {"op": "assign", "ts": ts, "ids": ids, "c": allow_centre and rng.random() < 0.5}
        if inside and not (wild_remove and outside and rng.random() < 0.3):
            return {"op": "remove", "o": rng.choice(inside)}
        if outside:
            return {"op": "remove" if wild_remove else "add", "o": rng.choice(outside)}
        return {"op": "assign", "ts": None, "ids": None, "c": False}

    return chooser


def gen_history(rng):
    case = gen_case(rng)
    failure, trace, info = execute(case, make_chooser(rng, case))
    return case, failure, trace, info


# ------------------------------------------------------------------------------------ Coq terms
def zl(l):
    return qlist([qz(z) for z in l])


def ztab(d, f):
    return qlist([f"({qz(k)}, {f(v)})" for k, v in sorted(d.items())])


def coq_world(case, info):
    w = info["world"]
    dyn = {od["id"]: od["role"] != "static" for od in case["obs"]}
    t0 = {od["id"]: od["t0"] for od in case["obs"]}
    tf = {od["id"]: od["t0"] + len(od["states"]) for od in case["obs"] if od["role"] == "traj"}
    return (f"(Build_wdata {ztab(dyn, qb)} {ztab(t0, qz)} {ztab(tf, qz)} "
            f"{ztab(w['cin'], lambda d: ztab(d, zl))} {ztab(w['sm'], lambda d: ztab(d, zl))})")


def coq_snap(snap):
    obs = snap["obs"]
    oz = lambda key: ztab({o: obs[o][key] for o in obs}, lambda v: qopt(v, zl))  # noqa
    od = lambda key: ztab({o: obs[o][key] for o in obs}, lambda v: qopt(v, lambda d: ztab(d, zl)))  # noqa
    return (f"(Build_osnap {zl(snap['statics'])} {zl(snap['dynamics'])} {oz('ic')} {oz('ish')} {od('ca')} {od('sa')} "
            f"{ztab(snap['sreg'], zl)} {ztab(snap['dreg'], lambda d: ztab(d, zl))})")


def coq_op(case, op):
    if op == "read":
        return f"({'ORead' if case['read'].get('la', True) else 'OLoad'} {zl(case['read']['os'])})"
    if op["op"] == "add":
        return f"(OAdd {qz(op['o'])})"
    if op["op"] == "remove":
        return f"(ORemove {qz(op['o'])})"
    return f"(OAssign {qopt(op['ts'], zl)} {qopt(op['ids'], zl)} {qb(op['c'])})"


EXN = {None: "ENone", "KeyError": "EKeyError", "AttributeError": "EAttributeError", "AssertionError": "EAssertionError"}


def coq_case(case, trace, info):
    steps = [f"({coq_op(case, op)}, {EXN.get(exc, 'EOther')}, Some {coq_snap(snap)})" for op, exc, snap in trace]
    return f"(CHist {coq_world(case, info)} {zl(info['times'])} {qlist(steps)})"


def corr(ctx, items):
    """items: (case, trace, info) of histories the oracle accepted"""
    imports = ("From Coq Require Import ZArith List Bool NArith.\nImport ListNotations.\n"
               "From CR Require Import Model.Assign Corr.C07.\nOpen Scope Z_scope.\n")
    usable = [it for it in items if it[2]["world"] is not None and it[1]]
    terms = [coq_case(c, t, i) for c, t, i in usable]
    bad, errors = ctx.coq_bad_indices("corr", imports, "", terms, "check", shard=ctx.n(30, 120))
    ctx.coverage["correspondence_histories"] = len(terms)
    ctx.coverage["correspondence_steps"] = sum(len(t) for _, t, _ in usable)
    ctx.coverage["histories_without_world_tables"] = len(items) - len(usable)
    for e in errors:
        ctx.corr_break("Corr.C07.check (coqc failed)", e)
    for i in bad:
        ctx.corr_break("Corr.C07.check: Model/Assign.v vs Scenario.add_objects / remove_obstacle / "
                       "assign_obstacles_to_lanelets / file reader with lanelet_assignment (state after every step)",
                       usable[i][0])
    ctx.log(f"corr histories={len(terms)} steps={ctx.coverage['correspondence_steps']} disagree={len(bad)} "
            f"coq_errors={len(errors)}")
    return [usable[i][0] for i in bad]


# ------------------------------------------------------------------------------------ shrinking
def shrink(case):
    base = oracle(case)
    if not base:
        return case
    ops = list(case["ops"])

    def fails(c):
        try:
            r = oracle(c)
        except Exception:  # noqa
            return False
        return bool(r) and r[0] == base[0]

    cur = dict(case)
    for k in range(len(ops) + 1):
        if fails(dict(cur, ops=ops[:k])):
            ops = ops[:k]
            break
    i = 0
    while i < len(ops) - 1:
        trial = ops[:i] + ops[i + 1:]
        if fails(dict(cur, ops=trial)):
            ops = trial
        else:
            i += 1
    cur = dict(cur, ops=ops)
    # drop obstacles that the failure does not need
    for od in list(cur["obs"]):
        if len(cur["obs"]) == 1:
            break
        oid = od["id"]
        if any(op.get("o") == oid or oid in (op.get("ids") or []) for op in cur["ops"]):
            continue
        trial = dict(cur, obs=[x for x in cur["obs"] if x["id"] != oid])
        if cur.get("read"):
            rest = [o for o in cur["read"]["os"] if o != oid]
            if not rest:
                continue
            trial["read"] = dict(cur["read"], os=rest)
        if fails(trial):
            cur = trial
    return cur


# ------------------------------------------------------------------------------------ outside the domain: a note
def move_probe():
    """informational only (never a failure): C07 quantifies over add / assign / remove with obstacles that stay where
    they are.  What happens when a contained obstacle is moved between two assignments is recorded in the evidence."""
    try:
        case = {"net": {"lanes": 2, "segs": 1, "width": 3.0, "seg_len": 20.0, "kappa": 0.0, "pts": 2, "cross": None},
                "obs": [{"id": 30, "role": "static", "shape": {"k": "rect", "l": 2.0, "w": 1.0}, "t0": 0,
                         "init": [10.0, 1.5, 0.0]}]}
        sc = new_scenario()
        sc.add_objects(build_net(case["net"]))
        o = build_obstacle(case["obs"][0])
        sc.add_objects(o)
        sc.assign_obstacles_to_lanelets()
        o.translate_rotate(V([0.0, 3.0]), 0.0)
        sc.assign_obstacles_to_lanelets()
        stale = 30 in sc.lanelet_network.find_lanelet_by_id(1).static_obstacles_on_lanelet
        return ("outside the quantifier of C07 (obstacle moved by translate_rotate between two assignments): shape "
                f"assignment {sorted(o.initial_shape_lanelet_ids)}, the lanelet left behind still lists the obstacle: "
                f"{stale}")
    except Exception as e:  # noqa
        return f"outside the quantifier of C07 (obstacle moved between two assignments): probe raised {type(e).__name__}"


# ------------------------------------------------------------------------------------ driver
def step_kind(case, op, exc):
    if op == "read":
        return read_name(case)
    k = op_name(case, op)
    if op["op"] == "assign":
        k += f"[ts={'None' if op['ts'] is None else 'list'},ids={'None' if op['ids'] is None else 'set'}]"
    return k + ("!" + exc if exc else "")


def record(ctx, case, trace, info):
    for op, exc, _ in trace:
        ctx.evaluations += 1
        k = step_kind(case, op, exc)
        ctx.dist[k] = ctx.dist.get(k, 0) + 1
    ctx.dist["histories"] = ctx.dist.get("histories", 0) + 1
    for od in case["obs"]:
        k = f"obstacle:{od['role']}/{od['shape']['k']}"
        ctx.dist[k] = ctx.dist.get(k, 0) + 1
    kinds = {op["op"] for op in case["ops"]}
    if "assign" in kinds and "remove" in kinds:
        ctx.distinct.add(sha(case))
        if len(ctx.samples) < 3 and len(case["ops"]) <= 8:
            ctx.samples.append(case)


def run(ctx):
    warnings.filterwarnings("ignore")
    ctx.trusted = ["Coq 8.16.1 kernel + vm_compute (no native_compute)",
                   "axioms: none (Print Assumptions: Closed under the global context for every theorem)",
                   "hand-written model coq/Model/Assign.v of commonroad/scenario/scenario.py (add_objects for obstacles, "
                   "_add/_remove_*_obstacle_(to|from)_lanelets, remove_obstacle, assign_obstacles_to_lanelets), "
                   "lanelet.py add_*_obstacle_to_lanelet and the reader-side assignment of file_reader_xml.py / "
                   "file_reader_protobuf.py, tied to the code by the correspondence relation coq/Corr/C07.v on every run",
                   "the model's geometric oracles cin / sm are the library's find_lanelet_by_position / "
                   "find_lanelet_by_shape (property C06); shapely for the brute-force oracle",
                   "harness/props/c07.py (generators, brute-force oracle, Coq term printer)"]
    ctx.trusted.insert(3, "harness/props/c07_src.py: symbolic walk over the syntax trees of Scenario._add_static_obstacle_to_lanelets / "
                          "_remove_static_obstacle_from_lanelets / _add_dynamic_obstacle_to_lanelets / "
                          "_remove_dynamic_obstacle_from_lanelets (normal form of vlib/astnorm.py) down to the registry add / discard "
                          "statements, written as the table coq/Gen/Src_assign.v on every run (fail-closed); "
                          "C07_registry_helpers_are_source proves the table, interpreted (Model/AssignSrc.v), equal to the four "
                          "functions of Model/Assign.v; trusted: the walk and its reading of the accepted shapes; "
                          "assign_obstacles_to_lanelets, add_objects, remove_obstacle and the reader-side assignment are tied by "
                          "correspondence only")
    from props import c07_src
    try:
        changed = c07_src.generate()
        ctx.notes.append(f"Gen/Src_assign.v regenerated from the source ({'changed' if changed else 'unchanged'})")
    except Exception as e:   # SourceShapeError, SyntaxError, OSError: the model is no longer shown to be the source
        ctx.proof_breaks.append({"theorem": "source parser:Gen/Src_assign.v (C07_registry_helpers_are_source)",
                                 "where": "harness/props/c07_src.py", "log": str(e)})
        ctx.log(f"proof_broken theorem=C07_registry_helpers_are_source (source parser: {e})")
    ctx.build_props(extra_targets=["Corr/C07.vo"])
    if ctx.tier == "thorough":
        ctx.coqchk()
    n = ctx.n(600, 12000)
    items = []
    undecided = 0
    placements = {}
    for c in load_corpus(ctx.prop):
        c = dict(c, ops=list(c["ops"]))
        f, t, info = execute(c)
        record(ctx, c, t, info)
        if f:
            ctx.fail(f[0], f[1], c)
        else:
            items.append((c, t, info))
    for _ in range(n):
        case, failure, trace, info = gen_history(ctx.rng)
        record(ctx, case, trace, info)
        undecided += info["undecided"]
        for k, v in info.get("placements", {}).items():
            placements[k] = placements.get(k, 0) + v
        if failure:
            known = any(f["signature"] == failure[0] for f in ctx.failures)
            ctx.fail(failure[0], failure[1], case if known else shrink(case))
            continue  # the model describes the repaired code; a violating history is reported by the oracle
        items.append((case, trace, info))
    ctx.coverage["near_boundary_decisions_not_judged"] = undecided
    ctx.coverage["placements (obstacle, time step)"] = placements
    ctx.notes.append(move_probe())
    if not ctx.samples and items:
        ctx.samples.append(items[0][0])
    bad_cases = corr(ctx, items)
    if (ctx.proof_breaks or ctx.corr_breaks) and not ctx.failures:
        ctx.log(f"proof/correspondence broke ({len(ctx.proof_breaks)}/{len(ctx.corr_breaks)}); widening the search")
        for _ in range(n * 6):
            case, failure, trace, info = gen_history(ctx.rng)
            record(ctx, case, trace, info)
            if failure:
                ctx.fail(failure[0], failure[1], shrink(case))
                break
    return ctx.finish(RULE, assumptions=ASSUME)
