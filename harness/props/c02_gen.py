"""C02: scenarios whose objects are built through the public constructors with DEFAULT arguments (the part of the
input space the test suite never serialises: every fixture comes out of the XML reader, which fills everything).
A case is {"op": "pb", "fmt": "pb", "seed", "edge", "variant": "defaults"}: the scenario of props/codec_gen.py for the
seed, with each object replaced - with probability 1/2, decided by a second stream derived from the seed - by the
same object built with only its mandatory arguments (absent optional data: no signal states, no prediction, no
stop-line references, default light direction / offset, no first occurrences, default shape centre / orientation,
default location ...).  Only defaults that the XML format of C01 can carry as well are produced (an intersection
incoming without lanelets, a traffic light without cycle, a GeoTransformation without reference and an Environment
with unset members are rejected by BOTH writers: outside 'scenarios as in C01').  Traffic lights additionally get
independent `active` flags for the light and for its cycle (the format carries the light's).
variant "twins": the scenario of the seed plus LAST-BIT TWINS - further occupancies / obstacles / goal regions whose
shapes are copies of shapes already in the scenario with some coordinates moved to the adjacent double
(numpy.nextafter) or zero given the other sign: values that agree to ~15 digits but are different doubles, which only
a bit-level comparison tells apart ('every real-valued quantity bit-identical').
The oracle of C02 lives here too: write -> read -> canonical content (vlib/canon.py) compared with tolerance 0 AND,
beyond canon.compare's relative slack of 1e-12, every float compared by its 8 bytes."""
import os
import random
import tempfile

import numpy as np

from commonroad.common.util import Interval
from commonroad.geometry.shape import Circle, Rectangle
from commonroad.planning.goal import GoalRegion
from commonroad.prediction.prediction import TrajectoryPrediction
from commonroad.planning.planning_problem import PlanningProblem, PlanningProblemSet
from commonroad.scenario.intersection import Intersection, IntersectionIncomingElement
from commonroad.scenario.lanelet import LaneletNetwork, StopLine
from commonroad.scenario.obstacle import DynamicObstacle, EnvironmentObstacle, PhantomObstacle, StaticObstacle
from commonroad.scenario.scenario import GeoTransformation, Location, Scenario
from commonroad.scenario.state import CustomState, InitialState, SignalState
from commonroad.scenario.traffic_light import TrafficLight, TrafficLightCycle
from commonroad.scenario.traffic_sign import TrafficSign, TrafficSignElement

from props import codec_run
from props.codec_gen import Gen
from vlib import canon


def gen_cases(rng, n):
    out = [{"op": "pb", "seed": rng.randrange(1 << 40), "fmt": "pb", "edge": rng.random() < 0.3,
            "variant": "defaults" if i % 2 == 0 else "twins"} for i in range(n)]
    for c in out:
        if rng.random() < 0.25:
            c["twice"] = rng.choice(["full", "scenario"])
    return out


def plain_shape(r, s):
    if isinstance(s, Rectangle):
        return Rectangle(s.length, s.width)
    if isinstance(s, Circle):
        return Circle(s.radius)
    return s


def plain_initial(st):
    p = st.position if isinstance(st.position, np.ndarray) else np.array([1.0, 2.0])
    o = st.orientation if isinstance(st.orientation, float) else 0.25
    return InitialState(time_step=st.time_step, position=p, orientation=o)


def build(case):
    if not case.get("variant"):
        return codec_run.build(case)
    if case["variant"] == "twins":
        return build_twins(case)
    return build_defaults(case)


def build_defaults(case):
    sc, pps, meta = Gen(case["seed"], "pb", case.get("edge", False)).build()
    r = random.Random(case["seed"] ^ 0x5DEECE66D)

    def flip():
        return r.random() < 0.5
    old = sc.lanelet_network
    net = LaneletNetwork()
    for s in old.traffic_signs:
        if flip():
            s = TrafficSign(s.traffic_sign_id, [TrafficSignElement(e.traffic_sign_element_id) if flip() else e
                                                for e in s.traffic_sign_elements], None, s.position)
        net.add_traffic_sign(s, set())
    for t in old.traffic_lights:
        if flip():
            t = TrafficLight(t.traffic_light_id, t.position, TrafficLightCycle(list(t.traffic_light_cycle.cycle_elements)))
        elif flip():
            c = t.traffic_light_cycle
            t = TrafficLight(t.traffic_light_id, t.position,
                             TrafficLightCycle(list(c.cycle_elements), time_offset=c.time_offset, active=flip()),
                             active=flip(), direction=t.direction)
        net.add_traffic_light(t, set())
    for la in old.lanelets:
        if la.stop_line is not None and flip():
            sl = la.stop_line
            la.stop_line = StopLine(sl.start, sl.end, sl.line_marking) if flip() else \
                StopLine(sl.start, sl.end, sl.line_marking, set(), set())
        if flip() and flip():
            # adjacency id and direction flag are independent optional fields of the format: a lanelet edited through
            # its public setters can hold one without the other
            if la.adj_left is not None and flip():
                la.adj_left = None                       # the flag stays
            elif la.adj_right is not None:
                la.adj_right = None
        net.add_lanelet(la)
    for i in old.intersections:
        if flip():
            i = Intersection(i.intersection_id, [IntersectionIncomingElement(e.incoming_id, set(e.incoming_lanelets))
                                                 if flip() else e for e in i.incomings])
        net.add_intersection(i)
    sc2 = Scenario(sc.dt, sc.scenario_id)
    sc2.add_objects(net)
    for o in sc.obstacles:
        if flip():
            if isinstance(o, StaticObstacle):
                o = StaticObstacle(o.obstacle_id, o.obstacle_type, plain_shape(r, o.obstacle_shape),
                                   plain_initial(o.initial_state))
            elif isinstance(o, DynamicObstacle):
                kw = {}
                if flip():
                    kw["initial_signal_state"] = r.choice([SignalState(time_step=o.initial_state.time_step, horn=True),
                                                           SignalState(time_step=o.initial_state.time_step,
                                                                       braking_lights=False, indicator_left=True)])
                o = DynamicObstacle(o.obstacle_id, o.obstacle_type, plain_shape(r, o.obstacle_shape),
                                    plain_initial(o.initial_state), **kw)
            elif isinstance(o, PhantomObstacle):
                o = PhantomObstacle(o.obstacle_id)
            elif isinstance(o, EnvironmentObstacle):
                o = EnvironmentObstacle(o.obstacle_id, o.obstacle_type, plain_shape(r, o.obstacle_shape))
        elif isinstance(o, DynamicObstacle) and isinstance(o.prediction, TrajectoryPrediction) and flip():
            # the prediction carries its own shape (the format has a field for it): e.g. the footprint plus a margin
            s0 = o.prediction.shape
            s1 = (Rectangle(s0.length + 0.8, s0.width + 0.6) if isinstance(s0, Rectangle)
                  else Circle(s0.radius + 0.001) if isinstance(s0, Circle) else Rectangle(5.3, 2.6))
            o.prediction = TrajectoryPrediction(o.prediction.trajectory, s1)
        sc2.add_objects(o)
    probs = []
    for p in pps.planning_problem_dict.values():
        if flip():
            a = r.randint(0, 20)
            p = PlanningProblem(p.planning_problem_id, p.initial_state,
                                GoalRegion([CustomState(time_step=Interval(a, a + r.randint(1, 9)))]))
        probs.append(p)
    if flip():
        meta = dict(meta)
        meta["location"] = r.choice([None, Location(), Location(geo_transformation=GeoTransformation("+proj=utm +zone=32")),
                                     Location(r.randint(1, 99999))])
    if flip():
        meta = dict(meta)
        meta["tags"] = set()
    return sc2, PlanningProblemSet(probs), meta


def twin(r, s):
    """a copy of shape s with some coordinates moved to the adjacent double / zero of the other sign"""
    from commonroad.geometry.shape import Polygon, ShapeGroup

    def nudge(x):
        x = float(x)
        k = r.random()
        if k < 0.4:
            return x
        if x == 0.0:
            return -x if k < 0.7 else float(np.nextafter(x, 1.0))
        return float(np.nextafter(x, np.inf if k < 0.7 else -np.inf))
    if isinstance(s, Rectangle):
        return Rectangle(s.length, s.width, np.array([nudge(s.center[0]), nudge(s.center[1])]), nudge(s.orientation))
    if isinstance(s, Circle):
        return Circle(s.radius, np.array([nudge(s.center[0]), nudge(s.center[1])]))
    if isinstance(s, Polygon):
        vs = list(s.vertices)
        if len(vs) > 1 and float(vs[0][0]) == float(vs[-1][0]) and float(vs[0][1]) == float(vs[-1][1]):
            vs = vs[:-1]
        return Polygon(np.array([[nudge(x), nudge(y)] for x, y in vs]))
    if isinstance(s, ShapeGroup):
        return ShapeGroup([twin(r, m) for m in s.shapes])
    return s


def build_twins(case):
    from commonroad.prediction.prediction import Occupancy, SetBasedPrediction
    sc, pps, meta = Gen(case["seed"], "pb", case.get("edge", False)).build()
    r = random.Random(case["seed"] ^ 0x2545F4914F6CDD1D)
    oid = 1 + max([o.obstacle_id for o in sc.obstacles] + [3000])
    for o in list(sc.obstacles):
        pred = getattr(o, "prediction", None)
        if isinstance(pred, SetBasedPrediction) and pred.occupancy_set:
            occs = list(pred.occupancy_set)
            last = occs[-1].time_step
            t = (last.end if isinstance(last, Interval) else last) + 1
            for _ in range(r.randint(1, 3)):
                occs.append(Occupancy(t, twin(r, r.choice(occs).shape)))
                t += 1
            new = SetBasedPrediction(pred.initial_time_step, occs)
            sc.remove_obstacle(o)
            if isinstance(o, PhantomObstacle):
                o = PhantomObstacle(o.obstacle_id, new)
            else:
                o = DynamicObstacle(o.obstacle_id, o.obstacle_type, o.obstacle_shape, o.initial_state, new,
                                    initial_signal_state=o.initial_signal_state, signal_series=o.signal_series)
            sc.add_objects(o)
        elif isinstance(o, (StaticObstacle, EnvironmentObstacle)) and r.random() < 0.7:
            if isinstance(o, StaticObstacle):
                sc.add_objects(StaticObstacle(oid, o.obstacle_type, twin(r, o.obstacle_shape), o.initial_state))
            else:
                sc.add_objects(EnvironmentObstacle(oid, o.obstacle_type, twin(r, o.obstacle_shape)))
            oid += 1
    probs = []
    for p in pps.planning_problem_dict.values():
        goals, log = list(p.goal.state_list), dict(p.goal.lanelets_of_goal_position or {})
        for i, st in enumerate(list(goals)):
            if i not in log and st.has_value("position") and not isinstance(st.position, np.ndarray) and r.random() < 0.7:
                kw = {a: getattr(st, a) for a in st.attributes if getattr(st, a) is not None}
                kw["position"] = twin(r, st.position)
                goals.append(CustomState(**kw))
        probs.append(PlanningProblem(p.planning_problem_id, p.initial_state, GoalRegion(goals, log or None)))
    return sc, PlanningProblemSet(probs), meta


_CACHE = {}


def roundtrip(case):
    k = (case["seed"], case.get("edge"), case.get("variant"))
    if k in _CACHE:
        return _CACHE[k]
    sc, pps, meta = build(case)
    exp = codec_run.expected_canon(case, sc, pps, meta)
    d = tempfile.mkdtemp(prefix="verif-c02-", dir="/var/tmp")
    path = os.path.join(d, "f.pb")
    out = {"stage": "ok", "diffs": []}
    try:
        try:
            codec_run.write(case, sc, pps, meta, path)
        except Exception as e:  # noqa  (the property: writing a scenario of the domain must succeed)
            out.update(stage="write", error=f"{type(e).__name__}: {str(e)[:200]}")
            return out
        try:
            sc2, pps2 = codec_run.read(case, path)
        except Exception as e:  # noqa
            out.update(stage="read", error=f"{type(e).__name__}: {str(e)[:200]}")
            return out
        got = canon.canon(sc2, pps2, "pb")
        out["diffs"] = canon.compare(exp, got, 0.0, limit=60)
        if not out["diffs"]:
            out["diffs"] = bit_diffs(exp, got, limit=60)
        return out
    finally:
        for f in os.listdir(d):
            os.remove(os.path.join(d, f))
        os.rmdir(d)
        if len(_CACHE) > 4000:
            _CACHE.clear()
        _CACHE[k] = out


def bit_diffs(a, b, path="", out=None, limit=60):
    """paths where two canonical values of equal structure hold floats that are not the same 8 bytes"""
    import struct
    out = [] if out is None else out
    if len(out) >= limit:
        return out
    if isinstance(a, float) and isinstance(b, float):
        if struct.pack(">d", a) != struct.pack(">d", b):
            out.append(f"{path}: {a!r} ({struct.pack('>d', a).hex()}) != {b!r} ({struct.pack('>d', b).hex()}) bitwise")
    elif isinstance(a, dict) and isinstance(b, dict):
        for k in sorted(set(a) & set(b), key=str):
            bit_diffs(a[k], b[k], f"{path}.{k}", out, limit)
    elif isinstance(a, list) and isinstance(b, list):
        for i, (x, y) in enumerate(zip(a, b)):
            bit_diffs(x, y, f"{path}[{i}]", out, limit)
    return out


def oracle_all(case):
    """every distinct kind of difference (so that a listed finding cannot mask another one)"""
    r = roundtrip(case)
    if r["stage"] != "ok":
        return [(f"pb:{r['stage']}:{r['error'].split(':')[0]}",
                 f"{r['stage']} failed for generated scenario seed={case['seed']} (variant {case.get('variant')}): {r['error']}")]
    out, seen = [], set()
    for d in r["diffs"]:
        sg = f"pb:{canon.signature(d)}"
        if sg not in seen:
            seen.add(sg)
            out.append((sg, f"read-back differs (seed={case['seed']}, variant={case.get('variant')}): {d}"))
    return out
