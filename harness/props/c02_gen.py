"""C02: scenarios whose objects are built through the public constructors with DEFAULT arguments (the part of the
input space the test suite never serialises: every fixture comes out of the XML reader, which fills everything).
A case is {"op": "pb", "fmt": "pb", "seed", "edge", "variant": "defaults"}: the scenario of props/codec_gen.py for the
seed, with each object replaced - with probability 1/2, decided by a second stream derived from the seed - by the
same object built with only its mandatory arguments (absent optional data: no signal states, no prediction, no
stop-line references, default light direction / offset, no first occurrences, default shape centre / orientation,
default location ...).  Only defaults that the XML format of C01 can carry as well are produced (an intersection
incoming without lanelets, a traffic light without cycle, a GeoTransformation without reference and an Environment
with unset members are rejected by BOTH writers: outside 'scenarios as in C01')."""
import os
import random
import tempfile

import numpy as np

from commonroad.common.util import Interval
from commonroad.geometry.shape import Circle, Rectangle
from commonroad.planning.goal import GoalRegion
from commonroad.planning.planning_problem import PlanningProblem, PlanningProblemSet
from commonroad.scenario.intersection import Intersection, IntersectionIncomingElement
from commonroad.scenario.lanelet import LaneletNetwork, StopLine
from commonroad.scenario.obstacle import DynamicObstacle, EnvironmentObstacle, PhantomObstacle, StaticObstacle
from commonroad.scenario.scenario import GeoTransformation, Location, Scenario
from commonroad.scenario.state import CustomState, InitialState, SignalState
from commonroad.scenario.traffic_light import TrafficLight, TrafficLightCycle
from commonroad.scenario.traffic_sign import TrafficSign, TrafficSignElement

from props import codec_run
from props.codec_gen import Gen
from vlib import canon


def gen_cases(rng, n):
    return [{"op": "pb", "seed": rng.randrange(1 << 40), "fmt": "pb", "edge": rng.random() < 0.3, "variant": "defaults"}
            for _ in range(n)]


def plain_shape(r, s):
    if isinstance(s, Rectangle):
        return Rectangle(s.length, s.width)
    if isinstance(s, Circle):
        return Circle(s.radius)
    return s


def plain_initial(st):
    p = st.position if isinstance(st.position, np.ndarray) else np.array([1.0, 2.0])
    o = st.orientation if isinstance(st.orientation, float) else 0.25
    return InitialState(time_step=st.time_step, position=p, orientation=o)


def build(case):
    sc, pps, meta = Gen(case["seed"], "pb", case.get("edge", False)).build()
    r = random.Random(case["seed"] ^ 0x5DEECE66D)

    def flip():
        return r.random() < 0.5
    old = sc.lanelet_network
    net = LaneletNetwork()
    for s in old.traffic_signs:
        if flip():
            s = TrafficSign(s.traffic_sign_id, [TrafficSignElement(e.traffic_sign_element_id) if flip() else e
                                                for e in s.traffic_sign_elements], None, s.position)
        net.add_traffic_sign(s, set())
    for t in old.traffic_lights:
        if flip():
            t = TrafficLight(t.traffic_light_id, t.position, TrafficLightCycle(list(t.traffic_light_cycle.cycle_elements)))
        net.add_traffic_light(t, set())
    for la in old.lanelets:
        if la.stop_line is not None and flip():
            sl = la.stop_line
            la.stop_line = StopLine(sl.start, sl.end, sl.line_marking) if flip() else \
                StopLine(sl.start, sl.end, sl.line_marking, set(), set())
        net.add_lanelet(la)
    for i in old.intersections:
        if flip():
            i = Intersection(i.intersection_id, [IntersectionIncomingElement(e.incoming_id, set(e.incoming_lanelets))
                                                 if flip() else e for e in i.incomings])
        net.add_intersection(i)
    sc2 = Scenario(sc.dt, sc.scenario_id)
    sc2.add_objects(net)
    for o in sc.obstacles:
        if flip():
            if isinstance(o, StaticObstacle):
                o = StaticObstacle(o.obstacle_id, o.obstacle_type, plain_shape(r, o.obstacle_shape),
                                   plain_initial(o.initial_state))
            elif isinstance(o, DynamicObstacle):
                kw = {}
                if flip():
                    kw["initial_signal_state"] = r.choice([SignalState(time_step=o.initial_state.time_step, horn=True),
                                                           SignalState(time_step=o.initial_state.time_step,
                                                                       braking_lights=False, indicator_left=True)])
                o = DynamicObstacle(o.obstacle_id, o.obstacle_type, plain_shape(r, o.obstacle_shape),
                                    plain_initial(o.initial_state), **kw)
            elif isinstance(o, PhantomObstacle):
                o = PhantomObstacle(o.obstacle_id)
            elif isinstance(o, EnvironmentObstacle):
                o = EnvironmentObstacle(o.obstacle_id, o.obstacle_type, plain_shape(r, o.obstacle_shape))
        sc2.add_objects(o)
    probs = []
    for p in pps.planning_problem_dict.values():
        if flip():
            a = r.randint(0, 20)
            p = PlanningProblem(p.planning_problem_id, p.initial_state,
                                GoalRegion([CustomState(time_step=Interval(a, a + r.randint(1, 9)))]))
        probs.append(p)
    if flip():
        meta = dict(meta)
        meta["location"] = r.choice([None, Location(), Location(geo_transformation=GeoTransformation("+proj=utm +zone=32")),
                                     Location(r.randint(1, 99999))])
    if flip():
        meta = dict(meta)
        meta["tags"] = set()
    return sc2, PlanningProblemSet(probs), meta


_CACHE = {}


def roundtrip(case):
    k = (case["seed"], case.get("edge"))
    if k in _CACHE:
        return _CACHE[k]
    sc, pps, meta = build(case)
    exp = codec_run.expected_canon(case, sc, pps, meta)
    d = tempfile.mkdtemp(prefix="verif-c02-", dir="/var/tmp")
    path = os.path.join(d, "f.pb")
    out = {"stage": "ok", "diffs": []}
    try:
        try:
            codec_run.write(case, sc, pps, meta, path)
        except Exception as e:  # noqa  (the property: writing a scenario of the domain must succeed)
            out.update(stage="write", error=f"{type(e).__name__}: {str(e)[:200]}")
            return out
        try:
            sc2, pps2 = codec_run.read(case, path)
        except Exception as e:  # noqa
            out.update(stage="read", error=f"{type(e).__name__}: {str(e)[:200]}")
            return out
        out["diffs"] = canon.compare(exp, canon.canon(sc2, pps2, "pb"), 0.0, limit=60)
        return out
    finally:
        for f in os.listdir(d):
            os.remove(os.path.join(d, f))
        os.rmdir(d)
        if len(_CACHE) > 4000:
            _CACHE.clear()
        _CACHE[k] = out


def oracle_all(case):
    """every distinct kind of difference (so that a listed finding cannot mask another one)"""
    r = roundtrip(case)
    if r["stage"] != "ok":
        return [(f"pb:{r['stage']}:{r['error'].split(':')[0]}",
                 f"{r['stage']} failed for generated scenario seed={case['seed']} (constructor defaults): {r['error']}")]
    out, seen = [], set()
    for d in r["diffs"]:
        sg = f"pb:{canon.signature(d)}"
        if sg not in seen:
            seen.add(sg)
            out.append((sg, f"read-back differs (seed={case['seed']}, constructor defaults): {d}"))
    return out
