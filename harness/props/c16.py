"""C16 — Interval and AngleInterval behave as the closed sets they denote.
oracle: exact rational set semantics (fractions.Fraction) vs commonroad.common.util
corr:   Model/Interval.v evaluated by vm_compute on the same cases (Corr/C16.v)"""
import math
from fractions import Fraction as _Fraction


def F(x, den=None):
    """exact rational of a Python / numpy number (numpy integers are converted first: Fraction arithmetic on
    numpy.int64 overflows silently or raises)"""
    if den is not None:
        return _Fraction(x, den)
    if isinstance(x, _Fraction):
        return x
    if hasattr(x, "item") and not isinstance(x, (int, float)):
        x = x.item()
    return _Fraction(x)


import numpy as np

from vlib.core import qq, qb
from vlib.flow import standard_run

import commonroad
from commonroad.common.util import AngleInterval, Interval, make_valid_orientation

TWO_PI = commonroad.TWO_PI
TAU = F(TWO_PI)
PI = math.pi
GUARD = F(1, 10**9)

RULE = ("cases (op, interval ends, argument, argument type) from one seeded PRNG: plain intervals over ints, "
        "floats of magnitude 1e-7..1e6; angle intervals with lengths 0, tiny, pi/2, pi-+1e-3, 4, 6, tau-1e-3 at "
        "positions in [-tau,tau]; query angles uniform, at interval ends, shifted by k*tau, ints and numpy scalars. "
        "distinct = distinct case dicts; non-trivial = not excluded by the near-boundary guard (1e-9)")
ASSUME = ["float + - * / are rounded (model exact): end points compared with tolerance 1e-9*max(1,|x|)",
          "decisions closer than 1e-9 to a boundary are excluded unless the argument equals an end point exactly",
          "Python round(x, n) is the correctly rounded round-half-even of the exact binary value"]


# ------------------------------------------------------------------------------------ generators
def scalar(rng):
    k = rng.random()
    if k < 0.25:
        return rng.randint(-6, 6)
    if k < 0.7:
        return round(rng.uniform(-10, 10), rng.choice([0, 1, 3, 6]))
    if k < 0.8:
        return rng.uniform(-1, 1) * 10.0 ** rng.randint(-7, 6)
    if k < 0.9:
        return rng.choice([0.0, -0.0, 1e-7, -1e-7, 1e6, -1e6, 0.5, -0.5, 2.5, 1.5])
    return float(rng.randint(-3, 3))


def plain_itv(rng):
    a, b = scalar(rng), scalar(rng)
    if rng.random() < 0.1:
        b = a
    return (a, b) if a <= b else (b, a)


def angle_len(rng):
    return rng.choice([0.0, 1e-6, 0.1, 0.5, PI / 2, PI - 1e-3, PI, PI + 1e-3, 4.0, 5.0, 6.0, TWO_PI - 1e-3,
                       rng.uniform(0, TWO_PI - 1e-3), rng.uniform(0, TWO_PI - 1e-3)])


def angle_itv(rng):
    ln = angle_len(rng)
    a = rng.choice([rng.uniform(-TWO_PI, TWO_PI - ln), -TWO_PI, TWO_PI - ln, -PI, 0.0, -ln / 2,
                    rng.choice([-2, -1, 0, 1]) * PI / 2])
    a = max(-TWO_PI, min(a, TWO_PI - ln))
    b = a + ln
    if b > TWO_PI:
        b = TWO_PI
    if rng.random() < 0.15 and float(int(a)) <= float(int(b)) and int(b) - int(a) < 6:
        return int(a), int(b)
    return a, b


def angle_query(rng, a, b):
    k = rng.random()
    base = None
    if k < 0.35:
        base = rng.uniform(-TWO_PI, TWO_PI)
    elif k < 0.5:
        base = rng.uniform(a, b) if a < b else a
    elif k < 0.6:
        base = rng.choice([a, b])
    elif k < 0.7:
        base = rng.choice([a, b]) + rng.choice([-1, 1]) * rng.choice([1e-3, 1e-6, 0.2])
    elif k < 0.8:
        base = rng.randint(-7, 7)
    elif k < 0.9:
        base = rng.choice([0.0, 0.05, -0.05, PI / 2, -PI / 2, PI, -PI, TWO_PI, -TWO_PI, 3 * PI, -3 * PI])
    else:
        base = rng.uniform(-30, 30)
    if rng.random() < 0.3 and not isinstance(base, int):
        base = base + rng.choice([-3, -2, -1, 1, 2, 3]) * TWO_PI
    return base


def typed(rng, x):
    """the Python type the argument is passed as"""
    if isinstance(x, int):
        return rng.choice(["int", "int", "np.int64"])
    return rng.choice(["float", "float", "float", "np.float64"])


def cast(x, t):
    return {"int": int, "float": float, "np.float64": np.float64, "np.int64": np.int64, "np.uint8": np.uint8,
            "np.uint16": np.uint16}[t](x)


PLAIN_OPS = ["ctor", "contains_pt", "contains_itv", "overlaps", "intersection", "add", "sub", "mul", "div", "round",
             "gt_num", "lt_num"]
ANGLE_OPS = ["actor", "acontains", "acontains", "acontains", "acontains_in", "acontains_itv", "acontains_itv", "aadd",
             "asub", "mvo"]


def gen(rng, n):
    cases = []
    for i in range(n):
        if rng.random() < 0.45:
            op = rng.choice(PLAIN_OPS)
            a, b = plain_itv(rng)
            c = {"op": op, "a": a, "b": b}
            if op == "ctor":
                if rng.random() < 0.5:
                    c["a"], c["b"] = scalar(rng), scalar(rng)
            elif op in ("contains_pt", "gt_num", "lt_num"):
                x = rng.choice([scalar(rng), a, b, scalar(rng)])
                c["x"], c["xt"] = x, typed(rng, x)
            elif op in ("contains_itv", "overlaps", "intersection"):
                c["c"], c["d"] = plain_itv(rng)
                if rng.random() < 0.3:
                    c["c"] = rng.choice([a, b])
                    c["d"] = max(c["c"], c["d"])
            elif op in ("add", "sub", "mul", "div"):
                x = scalar(rng)
                if op == "div" and x == 0:
                    x = -2
                c["x"], c["xt"] = x, typed(rng, x)
                if op in ("add", "sub") and isinstance(c["a"], float) and isinstance(c["b"], float) and rng.random() < 0.15:
                    # an offset counted in an unsigned numpy integer (a frame counter, an image coordinate)
                    c["x"], c["xt"] = rng.randint(0, 200), rng.choice(["np.uint8", "np.uint16"])
                c["aug"] = rng.random() < 0.35      # written as an augmented assignment: I += x (same meaning)
            elif op == "round":
                c["n"] = rng.randint(0, 12)
                if rng.random() < 0.2:
                    # rounding to tens / hundreds (a negative digit count), of integer bounds as well
                    c["n"] = rng.choice([-1, -2])
                    if rng.random() < 0.6:
                        lo_ = rng.randint(-300, 300)
                        c["a"], c["b"] = lo_, lo_ + rng.randint(0, 400)
        else:
            op = rng.choice(ANGLE_OPS)
            a, b = angle_itv(rng)
            c = {"op": op, "a": a, "b": b}
            if op == "actor":
                if rng.random() < 0.5:  # positions outside [-tau,tau], too long, reversed
                    a = rng.uniform(-20, 20)
                    c["a"], c["b"] = a, a + rng.choice([angle_len(rng), 7.0, -0.5, TWO_PI])
            elif op in ("acontains", "acontains_in"):
                x = angle_query(rng, a, b)
                c["x"], c["xt"] = x, typed(rng, x)
            elif op == "acontains_itv":
                c["c"], c["d"] = angle_itv(rng)
                k = rng.random()
                if k < 0.3 and b - a > 0.2:  # inside, possibly shifted by a period
                    lo = rng.uniform(a, b - 0.1)
                    hi = rng.uniform(lo, b)
                    s = rng.choice([0, 0, -TWO_PI, TWO_PI])
                    if -TWO_PI <= lo + s and hi + s <= TWO_PI:
                        lo, hi = lo + s, hi + s
                    c["c"], c["d"] = lo, hi
                elif k < 0.45:  # the long way round: both ends inside, middle outside
                    lo, hi = rng.uniform(a, b) - TWO_PI, rng.uniform(a, b)
                    if -TWO_PI <= lo <= hi and hi - lo < TWO_PI - 1e-3:
                        c["c"], c["d"] = lo, hi
                elif k < 0.5:
                    c["c"], c["d"] = a, b
            elif op in ("aadd", "asub"):
                x = rng.choice([scalar(rng), rng.uniform(-TWO_PI, TWO_PI), PI, -PI, TWO_PI, 0.05])
                if abs(x) > 500:
                    x = 3.0
                c["x"], c["xt"] = x, typed(rng, x)
                if isinstance(c["a"], float) and isinstance(c["b"], float) and rng.random() < 0.15:
                    c["x"], c["xt"] = rng.randint(0, 6), rng.choice(["np.uint8", "np.uint16"])
                c["aug"] = rng.random() < 0.35
            elif op == "mvo":
                c["a"] = rng.choice([rng.uniform(-30, 30), TWO_PI, -TWO_PI, 0.0, 7.0])
        cases.append(c)
    return cases


# ------------------------------------------------------------------------------------ implementation
def observe(c):
    """run the implementation; ('b', bool) | ('i', start, end) | ('none',) | ('q', x) | ('exc', name)"""
    op = c["op"]
    try:
        if op == "ctor":
            r = Interval(c["a"], c["b"])
            return ("i", r.start, r.end)
        if op == "actor":
            r = AngleInterval(c["a"], c["b"])
            return ("i", r.start, r.end)
        if op == "mvo":
            return ("q", make_valid_orientation(c["a"]))
    except AssertionError:
        return ("exc", "AssertionError")
    except Exception as e:  # noqa
        return ("exc", type(e).__name__)
    try:
        I = AngleInterval(c["a"], c["b"]) if op.startswith("a") and op not in ("add",) else Interval(c["a"], c["b"])
    except Exception as e:  # noqa
        return ("exc", "ctor:" + type(e).__name__)
    try:
        x = cast(c["x"], c["xt"]) if "x" in c else None
        if op in ("contains_pt", "acontains"):
            return ("b", bool(I.contains(x)))
        if op == "acontains_in":
            return ("b", bool(x in I))
        if op == "contains_itv":
            return ("b", bool(I.contains(Interval(c["c"], c["d"]))))
        if op == "acontains_itv":
            return ("b", bool(I.contains(AngleInterval(c["c"], c["d"]))))
        if op == "overlaps":
            return ("b", bool(I.overlaps(Interval(c["c"], c["d"]))))
        if op == "intersection":
            r = I.intersection(Interval(c["c"], c["d"]))
            return ("none",) if r is None else ("i", r.start, r.end)
        if op == "gt_num":
            return ("b", bool(I > x))
        if op == "lt_num":
            return ("b", bool(I < x))
        if c.get("aug") and op in ("add", "aadd", "sub", "asub", "mul", "div"):
            r = I
            if op in ("add", "aadd"):
                r += x
            elif op in ("sub", "asub"):
                r -= x
            elif op == "mul":
                r *= x
            else:
                r /= x
        elif op in ("add", "aadd"):
            r = I + x
        elif op in ("sub", "asub"):
            r = I - x
        elif op == "mul":
            r = I * x
        elif op == "div":
            r = I / x
        elif op == "round":
            r = round(I, c["n"])
        else:
            raise RuntimeError(op)
        if type(r) is not type(I):
            return ("exc", "WrongType:" + type(r).__name__)
        return ("i", r.start, r.end)
    except Exception as e:  # noqa
        return ("exc", type(e).__name__)


# ------------------------------------------------------------------------------------ oracle
def closeq(x, y, scale=0):
    return abs(F(x) - F(y)) <= F(1, 10**9) * (max(1, abs(F(y))) + abs(F(scale)))


def angle_member(a, b, th):
    """exact: exists k, a <= th + k tau <= b ; returns (bool, margin)"""
    a, b, th = F(a), F(b), F(th)
    m = (th - a) % TAU  # in [0, tau)
    ln = b - a
    return m <= ln, min(abs(m - ln), m, TAU - m)


def angle_subset(a, b, c, d):
    a, b, c, d = F(a), F(b), F(c), F(d)
    k = math.ceil((a - c) / TAU)
    lo = c + k * TAU  # smallest translate of c that is >= a
    inside = d + k * TAU <= b
    margin = min(abs(d + k * TAU - b), lo - a, a - (lo - TAU))
    return inside, margin


def near_boundary(c):
    """True if a discrete answer depends on a quantity closer than the guard to its threshold"""
    op = c["op"]
    if op in ("acontains", "acontains_in"):
        if F(c["x"]) in (F(c["a"]), F(c["b"])):
            return False
        return angle_member(c["a"], c["b"], c["x"])[1] < GUARD
    if op == "acontains_itv":
        if (F(c["c"]), F(c["d"])) == (F(c["a"]), F(c["b"])):
            return False
        return angle_subset(c["a"], c["b"], c["c"], c["d"])[1] < GUARD
    if op == "actor":
        ln = F(c["b"]) - F(c["a"])
        return abs(ln - TAU) < GUARD or abs(ln) < GUARD and ln != 0 or abs(F(c["a"])) > 2 * TAU and ln > TAU - F(1, 10**6)
    return False


def nontrivial(c):
    return not near_boundary(c)


def sig(c, what):
    return f"{c['op']}:{what}"


def oracle(c):
    """the property statement evaluated exactly, against the implementation"""
    if near_boundary(c):
        return None
    op = c["op"]
    o = observe(c)
    a, b = F(c["a"]), F(c["b"])
    x = F(c["x"]) if "x" in c else None

    def bad(what):
        return (sig(c, what), f"{op} {c} -> {o}: {what}")

    if op == "ctor":
        if a > b:
            return None if o[0] == "exc" else bad("start>end accepted")
        return None if o[0] == "i" and (F(o[1]), F(o[2])) == (a, b) else bad("valid interval rejected")
    if op == "actor":
        if a > b or b - a >= TAU:
            return None if o[0] == "exc" else bad("invalid angle interval accepted")
        if -TAU <= a and b <= TAU:
            return None if o[0] == "i" and (F(o[1]), F(o[2])) == (a, b) else bad("valid angle interval rejected/changed")
        if o[0] != "i":
            return bad("angle interval not normalised but rejected")
        k1, k2 = (F(o[1]) - a) / TAU, (F(o[2]) - b) / TAU
        ok = abs(k1 - round(k1)) < F(1, 10**6) and round(k1) == round(k2) and -TAU <= F(o[1]) <= F(o[2]) <= TAU
        return None if ok else bad("normalised interval not congruent / not valid")
    if op == "mvo":
        if o[0] != "q":
            return bad("raised")
        k = (F(o[1]) - a) / TAU
        ok = abs(k - round(k)) < F(1, 10**6) and -TAU - GUARD <= F(o[1]) <= TAU + GUARD
        return None if ok else bad("not congruent / out of range")
    if o[0] == "exc":
        return bad("raises " + o[1] + (" for " + c["xt"] if "xt" in c else ""))
    if op == "contains_pt":
        return None if o[1] == (a <= x <= b) else bad("membership wrong")
    if op == "gt_num":
        return None if o[1] == (a > x) else bad("wrong")
    if op == "lt_num":
        return None if o[1] == (b < x) else bad("wrong")
    if op in ("contains_itv", "overlaps", "intersection"):
        c_, d_ = F(c["c"]), F(c["d"])
        if op == "contains_itv":
            return None if o[1] == (a <= c_ and d_ <= b) else bad("containment wrong")
        lo, hi = max(a, c_), min(b, d_)
        if op == "overlaps":
            return None if o[1] == (lo <= hi) else bad("overlap wrong")
        if lo > hi:
            return None if o[0] == "none" else bad("empty intersection not None")
        return None if o[0] == "i" and (F(o[1]), F(o[2])) == (lo, hi) else bad("intersection wrong")
    if op in ("add", "sub", "mul", "div", "round"):
        if op == "round":
            q = F(10) ** c["n"]

            def rnd(v):
                y = v * q
                f = math.floor(y)
                r = y - f
                z = f if r < F(1, 2) else f + 1 if r > F(1, 2) else (f if f % 2 == 0 else f + 1)
                return F(z) / q
            lo, hi = rnd(a), rnd(b)
        else:
            f = {"add": lambda v: v + x, "sub": lambda v: v - x, "mul": lambda v: v * x, "div": lambda v: v / x}[op]
            lo, hi = sorted((f(a), f(b)))
        if o[0] != "i" or not F(o[1]) <= F(o[2]):
            return bad("result not a well-formed interval")
        return None if closeq(o[1], lo) and closeq(o[2], hi) else bad("image set wrong")
    if op in ("acontains", "acontains_in"):
        exp, _ = angle_member(a, b, x)
        return None if o[1] == exp else bad(f"angle membership wrong (len{'>' if b - a > TAU / 2 else '<='}pi)")
    if op == "acontains_itv":
        exp, _ = angle_subset(a, b, c["c"], c["d"])
        return None if o[1] == exp else bad("angle-interval containment wrong")
    if op in ("aadd", "asub"):
        s = x if op == "aadd" else -x
        if o[0] != "i":
            return bad("shift failed")
        lo, hi = F(o[1]), F(o[2])
        k1, k2 = (lo - a - s) / TAU, (hi - b - s) / TAU
        ok = abs(k1 - round(k1)) < F(1, 10**6) and round(k1) == round(k2) and abs(k2 - round(k2)) < F(1, 10**6) \
            and -TAU <= lo <= hi <= TAU
        return None if ok else bad("shifted angle interval is not the shifted set")
    return None


# ------------------------------------------------------------------------------------ correspondence
def coq_case(c, o):
    op = c["op"]

    def ob():
        return f"(OB {qb(o[1])})" if o[0] == "b" else "OBExc"

    def oi():
        if o[0] == "i":
            return f"(OI {qq(o[1])} {qq(o[2])})"
        return "OINone" if o[0] == "none" else "OIExc"

    a, b = qq(c["a"]), qq(c["b"])
    x = qq(c["x"]) if "x" in c else None
    if op == "ctor":
        return f"CCtor {a} {b} {oi()}"
    if op == "actor":
        return f"CACtor {a} {b} {oi()}"
    if op == "mvo":
        return f"CMvo {a} {'(OQ ' + qq(o[1]) + ')' if o[0] == 'q' else 'OQExc'}"
    if op == "contains_pt":
        return f"CContainsPt {a} {b} {x} {ob()}"
    if op == "gt_num":
        return f"CGtNum {a} {b} {x} {ob()}"
    if op == "lt_num":
        return f"CLtNum {a} {b} {x} {ob()}"
    if op in ("acontains", "acontains_in"):
        return f"CAContains {a} {b} {x} {ob()}"
    if op in ("contains_itv", "overlaps", "acontains_itv"):
        nm = {"contains_itv": "CContainsItv", "overlaps": "COverlaps", "acontains_itv": "CAContainsItv"}[op]
        return f"{nm} {a} {b} {qq(c['c'])} {qq(c['d'])} {ob()}"
    if op == "intersection":
        return f"CIntersection {a} {b} {qq(c['c'])} {qq(c['d'])} {oi()}"
    if op == "round":
        return f"CRound {c['n']}%nat {a} {b} {oi()}"
    nm = {"add": "CAdd", "sub": "CSub", "mul": "CMul", "div": "CDiv", "aadd": "CAAdd", "asub": "CASub"}[op]
    return f"{nm} {a} {b} {x} {oi()}"


def corr(ctx, cases):
    use, terms = [], []
    for c in cases:
        if near_boundary(c):
            continue
        if c["op"] == "round" and c["n"] < 0:
            continue                                  # the model's digit count is a natural number: oracle only
        o = observe(c)
        if o[0] == "exc" and o[1].startswith("ctor:"):
            continue
        use.append((c, o))
        terms.append(coq_case(c, o))
    imports = ("From Coq Require Import QArith ZArith List Bool NArith.\nImport ListNotations.\n"
               "From CR Require Import Base.QMod Model.Interval Corr.Obs Corr.C16.\nOpen Scope Q_scope.\n")
    defs = f"Definition tau : Q := {qq(TWO_PI)}.\nDefinition chk := check tau.\n"
    bad, errors = ctx.coq_bad_indices("corr", imports, defs, terms, "chk")
    ctx.coverage["correspondence_cases"] = len(terms)
    ctx.coverage["near_boundary_excluded"] = len(cases) - len(terms)
    for e in errors:
        ctx.corr_break("Corr.C16.check (coqc failed)", e)
    for i in bad:
        c, o = use[i]
        ctx.corr_break("Corr.C16.check: Model/Interval.v vs commonroad.common.util", dict(c, observed=list(map(str, o))))
    ctx.log(f"corr cases={len(terms)} disagree={len(bad)} coq_errors={len(errors)}")


def run(ctx):
    ctx.trusted = ["Coq 8.16.1 kernel + vm_compute (no native_compute)",
                   "axioms: none (Print Assumptions: Closed under the global context for every theorem)",
                   "hand-written model coq/Model/Interval.v of commonroad/common/util.py:28-43,60-230, tied to the "
                   "code by the correspondence relation coq/Corr/C16.v evaluated on every run",
                   "harness/props/c16.py (generators, exact-rational oracle, Coq term printer)",
                   "IEEE-754 arithmetic of CPython/numpy (rounded; model exact over Q)"]
    ctx.trusted.insert(3, "harness/vlib/py2coq.py + harness/props/c16_src.py: translator (symbolic execution, fail-closed) of "
                          "commonroad/common/util.py:28-43,84-250 and validity.py:157-220 into coq/Gen/Src_util.v on every "
                          "run; C16_model_is_source_interval / _angle prove the hand-written model equal to that text")
    from props import c16_src
    from vlib.py2coq import TranslationError
    try:
        changed = c16_src.generate()
        ctx.notes.append(f"Gen/Src_util.v regenerated from the source ({'changed' if changed else 'unchanged'})")
    except (TranslationError, SyntaxError, OSError) as e:
        # fail closed: the source left the translatable subset, the model is no longer shown to be the source
        ctx.proof_breaks.append({"theorem": "translator:Gen/Src_util.v (C16_model_is_source_*)", "where": "harness/props/c16_src.py",
                                 "log": str(e)})
        ctx.log(f"translator failed: {e}")
    return standard_run(ctx, __import__("props.c16", fromlist=["x"]), 1500, 40000, RULE, ASSUME)
