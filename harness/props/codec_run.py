"""shared by C01 / C02 / C03: write a generated scenario with the real writer, read it back with the real
reader, compare canonical content; validate XML against the shipped XSD with lxml."""
import io
import os

import numpy as np
import tempfile
import warnings
import contextlib

from lxml import etree

from commonroad.common.file_reader import CommonRoadFileReader
from commonroad.common.file_writer import CommonRoadFileWriter, OverwriteExistingFile
from commonroad.common.util import FileFormat

from props.codec_gen import Gen, XSD_PATH
from vlib import canon

_SCHEMA = None


def schema():
    global _SCHEMA
    if _SCHEMA is None:
        _SCHEMA = etree.XMLSchema(etree.parse(XSD_PATH))
    return _SCHEMA


def build(case):
    g = Gen(case["seed"], case.get("fmt", "xml"), case.get("edge", False))
    return g.build()


def write(case, sc, pps, meta, path):
    fmt = FileFormat.XML if case.get("fmt", "xml") == "xml" else FileFormat.PROTOBUF
    kw = {}
    if "prec" in case:
        kw["decimal_precision"] = case["prec"]
    with contextlib.redirect_stdout(io.StringIO()), warnings.catch_warnings():
        warnings.simplefilter("ignore")
        w = CommonRoadFileWriter(sc, pps, meta["author"], meta["affiliation"], meta["source"], meta["tags"],
                                 meta["location"], file_format=fmt, **kw)
        if case.get("twice"):
            # the file judged is the SECOND one this writer object produces (the first goes to another name)
            first = path + ".first"
            if case["twice"] == "scenario":
                w.write_scenario_to_file(first, OverwriteExistingFile.ALWAYS)
            else:
                w.write_to_file(first, OverwriteExistingFile.ALWAYS)
        w.write_to_file(path, OverwriteExistingFile.ALWAYS)


def read(case, path):
    fmt = FileFormat.XML if case.get("fmt", "xml") == "xml" else FileFormat.PROTOBUF
    with contextlib.redirect_stdout(io.StringIO()), warnings.catch_warnings():
        warnings.simplefilter("ignore")
        reader = CommonRoadFileReader(path, file_format=fmt)
        if case.get("seed", 0) % 4 == 1:
            # one reader object asked twice: what it handed out the first time is the caller's (here: moved away);
            # the second answer is the file's content again
            first = reader.open_lanelet_network() if case.get("seed", 0) % 8 == 1 else reader.open()[0].lanelet_network
            try:
                first.translate_rotate(np.array([123.0, -77.0]), 0.5)
            except Exception:  # noqa - the first answer is not what is judged
                pass
        return reader.open()


def expected_canon(case, sc, pps, meta):
    fmt = case.get("fmt", "xml")
    from commonroad.scenario.scenario import Location
    loc = meta["location"] if meta["location"] is not None else Location()
    return canon.canon(sc, pps, fmt, {"author": meta["author"], "affiliation": meta["affiliation"],
                                      "source": meta["source"], "tags": sorted(t.name for t in meta["tags"]),
                                      "location": canon.location(loc)})


def roundtrip(case, keep_bytes=False):
    """returns dict(stage, error | diffs, xml bytes)"""
    fmt = case.get("fmt", "xml")
    sc, pps, meta = build(case)
    exp = expected_canon(case, sc, pps, meta)
    d = tempfile.mkdtemp(prefix="verif-codec-", dir="/var/tmp")
    path = os.path.join(d, "f.xml" if fmt == "xml" else "f.pb")
    out = {"stage": "ok", "diffs": [], "valid": None, "valid_errors": []}
    try:
        try:
            write(case, sc, pps, meta, path)
        except Exception as e:  # noqa
            out.update(stage="write", error=f"{type(e).__name__}: {str(e)[:200]}")
            return out
        # writing must not change the original (C18 owns this; here it guards the comparison)
        data = open(path, "rb").read()
        if keep_bytes:
            out["bytes"] = data
        if fmt == "xml":
            doc = etree.fromstring(data)
            ok = schema().validate(doc)
            out["valid"] = bool(ok)
            if not ok:
                out["valid_errors"] = [f"{e.path}: {e.message}"[:300] for e in list(schema().error_log)[:5]]
        try:
            sc2, pps2 = read(case, path)
        except Exception as e:  # noqa
            out.update(stage="read", error=f"{type(e).__name__}: {str(e)[:200]}")
            return out
        got = canon.canon(sc2, pps2, fmt)
        tol = 10.0 ** (-case.get("prec", 4)) if fmt == "xml" else 0.0
        out["diffs"] = canon.compare(exp, got, tol, limit=60)
        return out
    finally:
        for f in os.listdir(d):
            os.remove(os.path.join(d, f))
        os.rmdir(d)


# ------------------------------------------------------------------------------------------ drivers' shared parts
def gen_cases(rng, n, fmt, edge_share=0.4, precs=(1, 2, 3, 4, 4, 5, 6, 8, 10, 12)):
    out = []
    for _ in range(n):
        c = {"op": fmt, "seed": rng.randrange(1 << 40), "fmt": fmt, "edge": rng.random() < edge_share}
        if fmt == "xml":
            c["prec"] = rng.choice(precs)
        out.append(c)
    return out


def describe(case):
    """size / kind summary of a generated case (input distribution in the evidence)"""
    sc, pps, meta = build(case)
    return {"lanelets": len(sc.lanelet_network.lanelets), "signs": len(sc.lanelet_network.traffic_signs),
            "lights": len(sc.lanelet_network.traffic_lights), "intersections": len(sc.lanelet_network.intersections),
            "static": len(sc.static_obstacles), "dynamic": len(sc.dynamic_obstacles),
            "phantom": len(sc.phantom_obstacle), "environment": len(sc.environment_obstacle),
            "problems": len(pps.planning_problem_dict), "location": meta["location"] is not None}


_CACHE = {}


def cached_roundtrip(case):
    k = (case["seed"], case["fmt"], case.get("prec"), case.get("edge"))
    if k not in _CACHE:
        if len(_CACHE) > 4000:
            _CACHE.clear()
        _CACHE[k] = roundtrip(case)
    return _CACHE[k]


def oracle_roundtrip(case):
    """C01 / C02: write -> read reproduces the content"""
    r = cached_roundtrip(case)
    if r["stage"] != "ok":
        return (f"{case['fmt']}:{r['stage']}:{r['error'].split(':')[0]}",
                f"{r['stage']} failed for generated scenario seed={case['seed']}: {r['error']}")
    if r["diffs"]:
        d = r["diffs"][0]
        return (f"{case['fmt']}:{canon.signature(d)}", f"read-back differs (seed={case['seed']}): " + "; ".join(r["diffs"][:4]))
    return None


def oracle_roundtrip_all(case):
    """every distinct kind of difference of the case (so that a listed finding cannot mask another one)"""
    r = cached_roundtrip(case)
    if r["stage"] != "ok" or not r["diffs"]:
        one = oracle_roundtrip(case)
        return [one] if one else []
    out, seen = [], set()
    for d in r["diffs"]:
        sg = f"{case['fmt']}:{canon.signature(d)}"
        if sg not in seen:
            seen.add(sg)
            out.append((sg, f"read-back differs (seed={case['seed']}): {d}"))
    return out


def oracle_valid(case):
    """C03: the written file validates against the shipped XSD and is accepted by the library's reader"""
    import re
    r = cached_roundtrip(case)
    if r["stage"] == "write":
        return (f"write:{r['error'].split(':')[0]}", f"writer failed (seed={case['seed']}): {r['error']}")
    if r["valid"] is False:
        e = r["valid_errors"][0] if r["valid_errors"] else "?"
        path = re.sub(r"\[\d+\]", "", e.split(":")[0])
        what = "not a valid value" if "not a valid value" in e else "not expected" if "not expected" in e else \
            "missing" if "Missing" in e else "other"
        return (f"invalid:{path}:{what}", f"XSD validation failed (seed={case['seed']}, prec={case.get('prec')}): {e}")
    if r["stage"] == "read":
        return (f"read:{r['error'].split(':')[0]}", f"own reader rejects the file (seed={case['seed']}): {r['error']}")
    return None


# ------------------------------------------------------------------------------------------ XML correspondence
def xml_corr_terms(case, doc_order=False):
    """Coq terms CaseA / CaseB for one generated scenario (None if the implementation failed to write/read).
    doc_order: keep the document order of children inside xs:sequence elements (relation A of C03)"""
    from props import xmlfmt
    sc, pps, meta = build(case)
    d = tempfile.mkdtemp(prefix="verif-codec-", dir="/var/tmp")
    path = os.path.join(d, "f.xml")
    try:
        v_in = xmlfmt.extract(xmlfmt.ROOT, xmlfmt.Doc(sc, pps, meta))
        try:
            write(case, sc, pps, meta, path)
        except Exception:  # noqa
            return None, None
        root = etree.parse(path).getroot()
        t_w = xmlfmt.parse(xmlfmt.ROOT, root, side="W", doc_order=doc_order)
        a = f"CaseA {case.get('prec', 4)} {xmlfmt.coq_val(v_in)} {xmlfmt.coq_tree(t_w)}"
        try:
            sc2, pps2 = read(case, path)
        except Exception:  # noqa
            return a, None
        meta2 = {"author": sc2.author, "affiliation": sc2.affiliation, "source": sc2.source, "tags": sc2.tags,
                 "location": sc2.location}
        v_out = xmlfmt.extract(xmlfmt.ROOT, xmlfmt.Doc(sc2, pps2, meta2), set_sorted=True, el=root)
        t_r = xmlfmt.parse(xmlfmt.ROOT, root, set_sorted=True, side="R")
        b = f"CaseB {xmlfmt.coq_tree(t_r)} {xmlfmt.coq_val(v_out)}"
        return a, b
    finally:
        for f in os.listdir(d):
            os.remove(os.path.join(d, f))
        os.rmdir(d)


XML_IMPORTS = ("From Coq Require Import QArith ZArith String List Bool NArith.\nImport ListNotations.\n"
               "From CR Require Import Model.Codec Gen.XmlFmt Corr.C01.\nOpen Scope string_scope.\n"
               "Open Scope list_scope.\n")


def xml_corr(ctx, cases, n_max, doc_order=False):
    """model (generic codec on the generated tables) vs implementation on up to n_max of the cases"""
    use, terms = [], []
    from props.codec_gen import may_open_ring
    for c in cases[:n_max]:
        a, b = xml_corr_terms(c, doc_order)
        if doc_order or may_open_ring(c.get("seed", 1)):
            b = None        # (open rings: the reader side of the tables does not describe the closing of a ring)
        for rel, t in (("A: written tree = write W.xml_root (original)" + (", document order kept" if doc_order else ""),
                        a), ("B: read-back value = read R.xml_root (written tree)", b)):
            if t is not None:
                use.append((rel, c))
                terms.append(t)
    bad, errors = ctx.coq_bad_indices("corr", XML_IMPORTS, "", terms, "check", shard=6)
    ctx.coverage["correspondence_cases"] = len(terms)
    for e in errors:
        ctx.corr_break("Corr.C01.check (coqc failed)", e)
    for i in bad:
        rel, c = use[i]
        ctx.corr_break("Corr.C01 " + rel, c)
    ctx.log(f"corr cases={len(terms)} disagree={len(bad)} coq_errors={len(errors)}")
