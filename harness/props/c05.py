"""C05 — translate_rotate is the exact rigid motion on every object.
oracle: independent rotation (math.cos / math.sin) of a structural snapshot of the raw stored data: every stored
        point p -> R(a)(p + t), every orientation th -> th + a modulo 2pi inside [-2pi, 2pi] (orientation intervals:
        again an AngleInterval, both ends shifted by the same amount, both inside [-2pi, 2pi]), everything else
        bit-identical; no exception for |a| <= 2pi; undoing the motion restores the original; a second motion on the
        result does not raise and the result is the combined motion of the original; a state moved together with a
        goal region reaches it iff it did before.
corr:   Model/Transform.v, Model/Shapes.v, Model/Scene.v evaluated by vm_compute on the same cases (Corr/C05.v),
        for one motion ([check1]) and for two motions in a row ([check2], the model bound twice)."""
import copy
import math
import random

import numpy as np

from vlib import scen
from vlib.core import qlist, qq
from vlib.flow import load_corpus

from props import c05_lib as L

import commonroad
from commonroad.common.util import AngleInterval, Interval
from commonroad.geometry import transform as cr_transform
from commonroad.geometry.shape import Circle, Polygon, Rectangle, Shape, ShapeGroup
from commonroad.scenario.state import (CustomState, ExtendedPMState, InitialState, KSState, KSTState, MBState, PMState,
                                       STDState, STState)

TWO_PI = commonroad.TWO_PI
PI = math.pi
TOL = 1e-9

RULE = ("cases = (component kind, sub-seed of the object generator, translation, angle[, second translation, second "
        "angle]) from one seeded PRNG; kinds: raw vertex arrays (translate_rotate / rotate_translate), shapes (rectangle, "
        "circle, polygon, nested groups), states (KS, KST, ST, STD, MB, PM, ExtendedPM, Initial, Custom; exact / region "
        "positions; exact / interval orientations incl. ends at +-2pi and lengths 0 .. 6.28; every other attribute exact, "
        "Interval or AngleInterval; time step exact or Interval; goal states), lanelets with stop lines, traffic signs / "
        "lights, obstacles of all roles (static, dynamic with trajectory / set-based / no prediction, phantom, "
        "environment), whole scenarios (lanelet network + every obstacle role), planning-problem sets (exact / uncertain "
        "initial states, goal states with regions incl. groups, orientation / velocity / time intervals) together with "
        "probe states inside / just outside / away from each goal; angles dense near 0, at +-0.05 (+-1 ulp), multiples of "
        "pi/2, +-2pi (+-1 ulp), ints, numpy scalars, a few outside [-2pi,2pi]; translations 0, grid, 1e-7..1e4; 40% of "
        "the cases carry a second motion from the same streams (a third of them the exact inverse rotation, the "
        "same motion again or +-2pi). distinct = distinct case dicts; non-trivial = angle != 0 or translation != 0")
ASSUME = ["cos / sin are oracle inputs: the model takes the doubles math.cos(a), math.sin(a); every case checks "
          "|c*c + s*s - 1| <= 4 ulp (count in coverage.trig_hypothesis_checked)",
          "float + - * are rounded (model exact): coordinates compared with tolerance 1e-9*(max(1,|x|)+scale), "
          "orientations modulo 2pi with the same tolerance; ends of orientation intervals additionally inside "
          "[-2pi, 2pi] (+ tolerance)",
          "Polygon re-orients its vertex ring through shapely; a rotation keeps the ring order of a simple polygon "
          "(compared in order); objects holding a self-intersecting ring are compared as vertex cycles by the oracle and "
          "left out of the correspondence (coverage.excluded_nonsimple_polygon)",
          "point-mass states: the orientation is the property atan2(velocity_y, velocity); 'th -> th + a' is judged as "
          "'(velocity, velocity_y) -> R(a)(velocity, velocity_y)'; DynamicObstacle.history is outside the statement",
          "GoalRegion.is_reached of a probe moved together with the goal is demanded only for robust decisions: the "
          "probe is farther than 1e-5 from every region outline / orientation-interval end (as an angle) / velocity-"
          "interval end of the goal, and the verdict before the motion is the same for the probe displaced by +-1e-6 "
          "in x, y, orientation and velocity (others counted in coverage.is_reached_near_boundary_excluded)",
          "two motions (t1,a1), (t2,a2) with |a1|, |a2| <= 2pi are judged against the single map p -> R(a1+a2)(p + t1 + "
          "R(-a1) t2), th -> th + a1 + a2 (a1 + a2 may leave [-2pi, 2pi]: the map is defined for every angle)"]

KINDS = [("pts", 12), ("rottr", 5), ("shape", 18), ("state", 22), ("lanelet", 7), ("post", 4), ("obstacle", 14),
         ("scenario", 10), ("ppset", 8)]


# ------------------------------------------------------------------------------------ generators
def _edge_orientation_interval(rng):
    """AngleIntervals of every length (0 .. almost 2pi) anywhere in [-2pi, 2pi], ends at +-2pi included"""
    ln = rng.choice([0.0, 1e-6, 0.1, 0.5, 1.0, 3.0, 5.0, 6.0, 6.28])
    k = rng.random()
    if k < 0.15:
        lo = -TWO_PI
    elif k < 0.3:
        lo = TWO_PI - ln
    else:
        lo = rng.uniform(-TWO_PI, TWO_PI - ln)
    return AngleInterval(lo, min(lo + ln, TWO_PI))


def _attr_value(rng, name):
    """exact, Interval or AngleInterval value of a state attribute that a rigid motion must leave alone"""
    x = scen.rnd(rng, -3, 3)
    k = rng.random()
    if k < 0.3:
        return Interval(x, x + rng.choice([0.0, 0.5, 2.0]))
    if k < 0.45 and "angle" in name:
        return AngleInterval(x, x + rng.choice([0.0, 0.2, 3.0]))
    return x if k < 0.9 else int(round(x))


def _edge_state(rng):
    """states whose orientation sits at the ends of the valid range / long intervals / ints; every state class with a
    stored orientation; the remaining attributes exact or interval-valued"""
    import dataclasses
    t = rng.randint(0, 5)
    pos = np.array([scen.rnd(rng, -30, 30), scen.rnd(rng, -30, 30)])
    k = rng.random()
    if k < 0.35:
        o = rng.choice([TWO_PI, -TWO_PI, 6.0, -6.0, 0.0, 1, -3, math.nextafter(TWO_PI, 0), 3.0, -3.0])
    elif k < 0.8:
        o = _edge_orientation_interval(rng)
    else:
        o = None
    cls = rng.choice([KSState, CustomState, InitialState, KSTState, STState, STDState, MBState, ExtendedPMState])
    kw = dict(time_step=t if rng.random() < 0.8 else Interval(t, t + rng.randint(0, 9)),
              position=pos if rng.random() < 0.75 else scen.rand_shape(rng, ("rect", "circ", "poly", "group"), False))
    if o is not None:
        kw["orientation"] = o
    if cls is CustomState and rng.random() < 0.3:
        kw.pop("position")
    if cls is CustomState:
        for name in rng.sample(["velocity", "acceleration", "yaw_rate", "slip_angle", "steering_angle", "hitch_angle",
                                "jerk", "velocity_y", "curvature"], rng.randint(1, 4)):
            kw[name] = _attr_value(rng, name)
    else:
        names = [f.name for f in dataclasses.fields(cls) if f.name not in ("time_step", "position", "orientation")]
        for name in names:
            if rng.random() < (0.8 if len(names) < 8 else 0.3):
                kw[name] = _attr_value(rng, name)
    return cls(**kw)


def _edge_goal_state(rng):
    """goal states: region (group included), orientation interval of any length / anywhere, velocity / time intervals"""
    t0 = rng.randint(0, 5)
    kw = {"time_step": Interval(t0, t0 + rng.randint(0, 30))}
    if rng.random() < 0.8:
        kw["position"] = scen.rand_shape(rng, ("rect", "circ", "poly", "group"), False)
    if rng.random() < 0.75:
        kw["orientation"] = _edge_orientation_interval(rng)
    if rng.random() < 0.5:
        v = scen.rnd(rng, 0, 10)
        kw["velocity"] = Interval(v, v + rng.choice([0.0, 0.5, 5.0]))
    return CustomState(**kw)


def _ppset(rng):
    from commonroad.planning.goal import GoalRegion
    from commonroad.planning.planning_problem import PlanningProblem, PlanningProblemSet
    if rng.random() < 0.4:
        return scen.rand_planning_problem_set(rng, n=rng.randint(1, 3))
    pps = []
    for i in range(rng.randint(1, 3)):
        goals = [_edge_goal_state(rng) if rng.random() < 0.7 else scen.rand_goal_state(rng)
                 for _ in range(rng.randint(1, 3))]
        init = scen.rand_state(rng, InitialState, 0, uncertain=rng.random() < 0.3)
        pps.append(PlanningProblem(900 + i, init, GoalRegion(goals)))
    if len(pps) >= 2 and rng.random() < 0.4:
        # two vehicles with the same destination: two goal regions (lists of their own) holding the SAME goal state
        pps[1].goal = GoalRegion(list(pps[0].goal.state_list))
    return PlanningProblemSet(pps)


# ---- probe states for GoalRegion.is_reached (moved together with the goal)
def _inside_point(rng, sh):
    if isinstance(sh, Rectangle):
        u, v = rng.uniform(-0.4, 0.4) * sh.length, rng.uniform(-0.4, 0.4) * sh.width
        c, s_ = math.cos(sh.orientation), math.sin(sh.orientation)
        return np.array([sh.center[0] + c * u - s_ * v, sh.center[1] + s_ * u + c * v])
    if isinstance(sh, Circle):
        r, th = rng.uniform(0, 0.8) * sh.radius, rng.uniform(-PI, PI)
        return np.array([sh.center[0] + r * math.cos(th), sh.center[1] + r * math.sin(th)])
    if isinstance(sh, Polygon):
        q = sh.shapely_object.representative_point()
        return np.array([q.x, q.y])
    if isinstance(sh, ShapeGroup) and sh.shapes:
        return _inside_point(rng, rng.choice(sh.shapes))
    return np.array([scen.rnd(rng, -30, 30), scen.rnd(rng, -30, 30)])


def _probe(rng, g):
    """a state with exact values aimed at goal state g: inside in every attribute / outside in one / anywhere"""
    mode = rng.choice(["hit", "hit", "hit", "miss", "miss", "random"])
    miss = rng.choice(["time", "position", "orientation", "velocity"]) if mode == "miss" else None
    ts = g.time_step
    t = rng.randint(int(ts.start), int(ts.end)) if isinstance(ts, Interval) else 0
    if miss == "time" or mode == "random":
        t = int(ts.end) + rng.randint(1, 3) if isinstance(ts, Interval) and rng.random() < 0.7 else rng.randint(0, 40)
    sh = getattr(g, "position", None)
    pos = _inside_point(rng, sh) if isinstance(sh, Shape) else np.array([scen.rnd(rng, -30, 30), scen.rnd(rng, -30, 30)])
    if miss == "position" or mode == "random":
        pos = pos + np.array([rng.choice([-1, 1]) * rng.uniform(0.5, 40), rng.uniform(-40, 40)])
    oi = getattr(g, "orientation", None)
    o = oi.start + rng.random() * (oi.end - oi.start) if isinstance(oi, Interval) else rng.uniform(-PI, PI)
    if miss == "orientation" or mode == "random":
        o = (oi.end + rng.uniform(0.05, 1.0)) if isinstance(oi, Interval) and rng.random() < 0.7 else rng.uniform(-6, 6)
    o = math.remainder(o, TWO_PI) if (abs(o) > TWO_PI or rng.random() < 0.3) else o
    vi = getattr(g, "velocity", None)
    v = vi.start + rng.random() * (vi.end - vi.start) if isinstance(vi, Interval) else scen.rnd(rng, 0, 15)
    if miss == "velocity" or mode == "random":
        v = (vi.end + rng.uniform(0.1, 5)) if isinstance(vi, Interval) else scen.rnd(rng, 0, 15)
    cls = rng.choice([KSState, CustomState, InitialState, PMState, STState])
    if cls is PMState:
        v = max(v, 0.5)  # a point mass at rest has no heading
        return PMState(time_step=t, position=pos, velocity=v * math.cos(o), velocity_y=v * math.sin(o))
    kw = dict(time_step=t, position=pos, orientation=o, velocity=v)
    if cls is InitialState:
        kw.update(acceleration=0.0, yaw_rate=0.0, slip_angle=0.0)
    elif cls is not CustomState:
        kw.update(steering_angle=0.0)
    return cls(**kw)


def make_probes(rng, pps):
    """[(planning problem id, probe state)] for a planning-problem set"""
    out = []
    for pid, pp in pps.planning_problem_dict.items():
        for g in pp.goal.state_list:
            for _ in range(rng.randint(1, 2)):
                out.append((pid, _probe(rng, g)))
    return out


EPS_PROBE = 1e-6


def _displaced(p):
    """the probe displaced by +-EPS_PROBE in x, y, heading and speed"""
    out = []
    for d in ((EPS_PROBE, 0.0), (-EPS_PROBE, 0.0), (0.0, EPS_PROBE), (0.0, -EPS_PROBE)):
        q = copy.copy(p)
        q.position = p.position + np.array(d)
        out.append(q)
    for e in (EPS_PROBE, -EPS_PROBE):
        q, r = copy.copy(p), copy.copy(p)
        if L.derived_orientation(p):
            c, s_ = math.cos(e), math.sin(e)
            q.velocity, q.velocity_y = c * p.velocity - s_ * p.velocity_y, s_ * p.velocity + c * p.velocity_y
            r.velocity, r.velocity_y = p.velocity * (1 + e) + e, p.velocity_y * (1 + e)
        else:
            q.orientation = p.orientation + e
            r.velocity = p.velocity + e
        out += [q, r]
    return out


def _reached(goal, st):
    try:
        return bool(goal.is_reached(st))
    except Exception as e:  # noqa  (judged: must not start to raise after a motion)
        return "raises " + type(e).__name__


def _boundary_distance(sh, pt):
    """distance of a point to the boundary of a shape (independent of contains_point: analytic / shapely)"""
    if isinstance(sh, Circle):
        return abs(math.hypot(pt[0] - sh.center[0], pt[1] - sh.center[1]) - sh.radius)
    if isinstance(sh, ShapeGroup):
        return min([_boundary_distance(x, pt) for x in sh.shapes] + [float("inf")])
    import shapely.geometry
    return sh.shapely_object.exterior.distance(shapely.geometry.Point(pt[0], pt[1]))


def _clear_of_boundaries(goal, st):
    """the probe is farther than EPS_PROBE from every boundary of every goal state: region outline, ends of the
    orientation interval (as angles), ends of the velocity interval (thin or empty-interior intervals included)"""
    if L.derived_orientation(st):
        o, v = math.atan2(st.velocity_y, st.velocity), math.hypot(st.velocity, st.velocity_y)
    else:
        o, v = st.orientation, st.velocity
    for g in goal.state_list:
        sh, oi, vi = getattr(g, "position", None), getattr(g, "orientation", None), getattr(g, "velocity", None)
        if isinstance(sh, Shape) and _boundary_distance(sh, st.position) <= 10 * EPS_PROBE:
            return False
        if isinstance(oi, Interval) and any(abs(math.remainder(o - e, TWO_PI)) <= 10 * EPS_PROBE for e in (oi.start, oi.end)):
            return False
        if isinstance(vi, Interval) and any(abs(v - e) <= 10 * EPS_PROBE * (1 + abs(v)) for e in (vi.start, vi.end)):
            return False
    return True


def probe_verdicts(pps, probes, with_margin):
    """[(verdict, robust)] of GoalRegion.is_reached for every probe"""
    out = []
    for pid, st in probes:
        goal = pps.planning_problem_dict[pid].goal
        v = _reached(goal, st)
        robust = True
        if with_margin:
            robust = (isinstance(v, bool) and _clear_of_boundaries(goal, st)
                      and all(_reached(goal, q) == v for q in _displaced(st)))
        out.append((v, robust))
    return out


def _nested_group(rng):
    inner = ShapeGroup([scen.rand_shape(rng, ("rect", "circ", "poly"), False) for _ in range(rng.randint(1, 2))])
    return ShapeGroup([scen.rand_shape(rng, ("rect", "circ", "poly"), False), inner] +
                      ([ShapeGroup([])] if rng.random() < 0.3 else []))


def build(case):
    """the object of a case, rebuilt from its sub-seed through the public constructors"""
    rng = random.Random(case["sub"])
    k = case["kind"]
    if k in ("pts", "rottr"):
        return np.array(case["vs"], dtype=float).reshape(-1, 2)
    if k == "shape":
        v = rng.random()
        if v < 0.1:
            return _nested_group(rng)
        if v < 0.2:
            return Rectangle(scen.rnd(rng, 0.5, 6), scen.rnd(rng, 0.5, 3), np.array([scen.rnd(rng, -99, 99), 0.0]),
                             rng.choice([TWO_PI, -TWO_PI, 6.0, -6.0, 0.0, 0, 3.0, -3.0]))
        if v < 0.26 or (case.get("tint") and v < 0.85):
            # a shape placed at whole-number coordinates handed over as an integer array (the constructors do not cast);
            # most often when the translation is an integer array too
            c = np.array([rng.randint(-20, 20), rng.randint(-20, 20)])
            return Circle(scen.rnd(rng, 0.3, 3), c) if rng.random() < 0.6 else \
                Rectangle(scen.rnd(rng, 0.5, 6), scen.rnd(rng, 0.5, 3), c, scen.rnd(rng, -3, 3))
        return scen.rand_shape(rng, ("rect", "circ", "poly", "group"), centred=rng.random() < 0.15,
                               scale=rng.choice([1.0, 1.0, 0.01, 30.0]))
    if k == "state":
        v = rng.random()
        if v < 0.35:
            return _edge_state(rng)
        if v < 0.5:
            return scen.rand_goal_state(rng)
        return scen.rand_state(rng, uncertain=rng.random() < 0.5)
    if k == "lanelet":
        lls = scen.strip_lanelets(rng, rng.randint(1, 2), rng.randint(1, 2), first_id=1,
                                  origin=(scen.rnd(rng, -100, 100), scen.rnd(rng, -100, 100)))
        la = rng.choice(lls)
        if rng.random() < 0.2:
            # a hand-written lanelet with whole-number coordinates given as integer arrays (Lanelet never casts them)
            from commonroad.scenario.lanelet import Lanelet as _L
            x0, y0 = rng.randint(-50, 50), rng.randint(-50, 50)
            n = rng.randint(2, 4)
            right = np.array([[x0 + 10 * j, y0] for j in range(n)])
            left = np.array([[x0 + 10 * j, y0 + 4] for j in range(n)])
            center = np.array([[x0 + 10 * j, y0 + 2] for j in range(n)])
            la = _L(left, center, right, la.lanelet_id)
        if rng.random() < 0.6:
            from commonroad.scenario.lanelet import LineMarking, StopLine
            la.stop_line = StopLine(la.left_vertices[-1].copy(), la.right_vertices[-1].copy(), LineMarking.SOLID)
        if rng.random() < 0.5:
            _ = la.polygon  # make the cached polygon exist
        return la
    if k == "post":
        # a third of the posts stand at whole-number coordinates handed over as an integer array (never cast)
        pos = np.array([rng.randint(-20, 40), rng.randint(-10, 10)]) if rng.random() < 0.33 else None
        return scen.rand_sign(rng, 5, pos=pos) if rng.random() < 0.5 else scen.rand_light(rng, 6, pos=pos)
    if k == "obstacle":
        # trajectories that mix exact and uncertain states (growing uncertainty) need the uncertain stream
        unc = rng.random() < (0.6 if case.get("role") == "dynamic" else 0.3)
        return scen.rand_obstacle(rng, 77, role=case.get("role"),
                                  shape_kinds=("rect", "circ", "poly") if unc else ("rect", "circ", "poly", "group"),
                                  uncertain=unc)
    if k == "scenario":
        unc = rng.random() < 0.5
        sc = scen.rand_scenario(rng, n_obstacles=0, uncertain=unc)
        roles = case["roles"]
        for i, r in enumerate(roles):
            sc.add_objects(scen.rand_obstacle(rng, 500 + i, role=r, uncertain=unc))
        if rng.random() < 0.35:
            # the memory layout the XML reader produces: laterally adjacent lanelets hold ONE array object for their
            # common boundary, and a stop line given without points takes the last boundary vertices (views, no copy)
            from commonroad.scenario.lanelet import LineMarking, StopLine
            net = sc.lanelet_network
            for la in net.lanelets:
                lb = net.find_lanelet_by_id(la.adj_left) if la.adj_left is not None else None
                if lb is not None and la.adj_left_same_direction and lb.right_vertices.shape == la.left_vertices.shape \
                        and np.array_equal(lb.right_vertices, la.left_vertices):
                    lb.right_vertices = la.left_vertices
            for la in net.lanelets:
                la.stop_line = StopLine(la.left_vertices[-1], la.right_vertices[-1], LineMarking.SOLID)
        return sc
    if k == "ppset":
        return _ppset(rng)
    raise ValueError(k)


ROLES = ["static", "dynamic", "dynamic_set", "dynamic_none", "env", "phantom"]


def gen(rng, n):
    kinds = [k for k, w in KINDS for _ in range(w)]
    cases = []
    for i in range(n):
        k = rng.choice(kinds)
        c = {"kind": k, "sub": rng.randrange(1 << 30), "t": L.translation_stream(rng),
             "a": L.angle_stream(rng, allow_invalid=True)}
        if isinstance(c["a"], np.floating):
            c["a"], c["at"] = float(c["a"]), "np.float64"
        else:
            c["at"] = "int" if isinstance(c["a"], int) else "float"
        if rng.random() < 0.4:
            c["m2"] = second_motion(rng, c)
        if rng.random() < 0.15 and not c.get("m2", {}).get("reuse"):
            c["t"] = [float(rng.randint(-9, 9)), float(rng.randint(-9, 9))]
            c["tint"] = True
        if k in ("pts", "rottr"):
            m = rng.randint(1, 6)
            sc = rng.choice([1.0, 1.0, 100.0, 1e4, 1e-3])
            c["vs"] = [[round(rng.uniform(-10, 10), 3) * sc, round(rng.uniform(-10, 10), 3) * sc] for _ in range(m)]
            if rng.random() < 0.3:
                c["vs"][0] = [100.0, 0.0]
        elif k == "obstacle":
            c["role"] = rng.choice(ROLES)
        elif k == "scenario":
            c["roles"] = [rng.choice(ROLES) for _ in range(rng.randint(0, 4))]
            if rng.random() < 0.35 and "env" not in c["roles"]:
                c["roles"].append("env")
        cases.append(c)
    return cases


def _typed_angle(a):
    if isinstance(a, np.floating):
        return float(a), "np.float64"
    return a, ("int" if isinstance(a, int) else "float")


def second_motion(rng, c):
    """a motion applied to the result of the first: independent, or the inverse rotation / the same again / a full turn"""
    k = rng.random()
    a1 = c["a"]
    if k < 0.15:
        t2, a2 = [0.0, 0.0], -a1
    elif k < 0.25:
        t2, a2 = list(c["t"]), a1
    elif k < 0.33:
        t2, a2 = [0.0, 0.0], rng.choice([TWO_PI, -TWO_PI])
    elif k < 0.45:
        # the same angle again, and the caller's translation array re-used: overwritten in place between the calls
        a2, at2 = _typed_angle(a1)
        return {"t": L.translation_stream(rng), "a": a2, "at": at2, "reuse": True}
    else:
        t2, a2 = L.translation_stream(rng), L.angle_stream(rng, allow_invalid=True)
    a2, at2 = _typed_angle(a2)
    return {"t": t2, "a": a2, "at": at2}


def nontrivial(c):
    return float(c["a"]) != 0.0 or any(float(x) != 0.0 for x in c["t"])


def kind(c):
    return c["kind"]


def angle_of(c):
    a = c["a"]
    t = c.get("at", "float")
    return int(a) if t == "int" else np.float64(a) if t == "np.float64" else float(a)


def combined_motion(case):
    """(t, a) of the single map equal to motion 1 followed by motion 2 (for rotate_translate: R(a)p + t)"""
    m2 = case["m2"]
    a1, a2 = float(case["a"]), float(m2["a"])
    t1, t2 = case["t"], m2["t"]
    if case["kind"] == "rottr":  # R2(R1 p + t1) + t2
        c, s_ = math.cos(a2), math.sin(a2)
        return [c * t1[0] - s_ * t1[1] + t2[0], s_ * t1[0] + c * t1[1] + t2[1]], a1 + a2
    c, s_ = math.cos(-a1), math.sin(-a1)  # R2(R1(p + t1) + t2) = R12(p + t1 + R1^-1 t2)
    return [t1[0] + c * t2[0] - s_ * t2[1], t1[1] + s_ * t2[0] + c * t2[1]], a1 + a2


# ------------------------------------------------------------------------------------ implementation
C_OF = {"shape": L.c_shape, "state": L.c_state, "lanelet": L.c_lanelet, "obstacle": L.c_obstacle,
        "scenario": L.c_scenario, "ppset": L.c_ppset, "post": lambda o: L.cpt(o.position)}
F_OF = {"shape": L.f_shape, "state": L.f_state, "lanelet": L.f_lanelet, "obstacle": L.f_obstacle,
        "scenario": L.f_scenario, "ppset": L.f_ppset, "post": lambda o: [o.position[0], o.position[1]]}

SKIP = set(scen.CACHE_FIELDS) | {"_Rectangle__shapely_polygon", "_shapely_polygon"}


def apply(case, obj, t, a):
    """run the implementation; returns the transformed object (new for shapes / states / arrays, same otherwise)"""
    k = case["kind"]
    if k == "pts":
        return cr_transform.translate_rotate(obj, t, a)
    if k == "rottr":
        return cr_transform.rotate_translate(obj, t, a)
    if k in ("shape", "state"):
        return obj.translate_rotate(t, a)
    obj.translate_rotate(t, a)
    return obj


def _apply_probes(probes, t, a):
    """the probes moved by the same motion; a probe whose translate_rotate raises is kept as the exception name"""
    out = []
    for pid, st in probes:
        if isinstance(st, str):
            out.append((pid, st))
            continue
        try:
            out.append((pid, st.translate_rotate(t, a)))
        except Exception as e:  # noqa  (judged)
            out.append((pid, "raises " + type(e).__name__))
    return out


def _verdicts_after(pps, probes):
    return [(st, False) if isinstance(st, str) else (_reached(pps.planning_problem_dict[pid].goal, st), False)
            for pid, st in probes]


def _observe(k, res):
    if k in ("pts", "rottr"):
        return [v for p in res for v in p], ["nd"] + np.asarray(res).tolist()
    return F_OF[k](res), scen.snapshot(res, SKIP)


def evaluate(case):
    """build, snapshot, transform, snapshot (, transform the result by the second motion, snapshot).  Returns a dict
    with the Coq term of the input, the flat observations (or exception classes), and the snapshots"""
    obj = build(case)
    k = case["kind"]
    t = np.array(case["t"], dtype=float)
    if case.get("tint"):
        t = np.array([int(x) for x in case["t"]])    # a whole-number translation given as an integer array
    a = angle_of(case)
    ev = {"kind": k, "t": t, "a": a}
    if k in ("pts", "rottr"):
        ev["term"] = L.cpts(obj)
        ev["before_flat"] = [v for p in obj for v in p]
        ev["snap_before"] = ["nd"] + obj.tolist()
    else:
        ev["term"] = C_OF[k](obj)
        ev["before_flat"] = F_OF[k](obj)
        ev["snap_before"] = scen.snapshot(obj, SKIP)
        ev["nonsimple"] = has_nonsimple_polygon(ev["snap_before"])
    probes = None
    if k == "ppset":
        probes = make_probes(random.Random(case["sub"] ^ 0x2545F491), obj)
        ev["reach_before"] = probe_verdicts(obj, probes, with_margin=True)
    buf = t.copy() if case.get("m2", {}).get("reuse") else t
    try:
        res = apply(case, obj, buf, a)
    except Exception as e:  # noqa  (expected for |a| > 2pi; judged by the oracle otherwise)
        ev["exc"] = type(e).__name__
        ev["exc_msg"] = str(e)[:160]
        return ev
    ev["after_flat"], ev["snap_after"] = _observe(k, res)
    ev["result"] = res
    if probes is not None and abs(float(a)) <= TWO_PI:
        probes = _apply_probes(probes, t, a)
        ev["reach_after"] = _verdicts_after(res, probes)
    if "m2" in case:
        t2, a2 = np.array(case["m2"]["t"], dtype=float), angle_of(case["m2"])
        t2call = t2
        if buf is not t and buf.shape == t2.shape:
            buf[:] = t2                     # the caller's one translation array, overwritten in place
            t2call = buf
        try:
            res2 = apply(case, res, t2call, a2)
        except Exception as e:  # noqa  (expected for |a2| > 2pi; judged otherwise)
            ev["exc2"] = type(e).__name__
            ev["exc2_msg"] = str(e).strip()[:160]
            return ev
        ev["after2_flat"], ev["snap_after2"] = _observe(k, res2)
        if probes is not None and "reach_after" in ev and abs(float(a2)) <= TWO_PI:
            ev["reach_after2"] = _verdicts_after(res2, _apply_probes(probes, t2, a2))
    return ev


# ------------------------------------------------------------------------------------ oracle
POINT_FIELDS = {("Rectangle", "center"), ("Circle", "center"), ("StopLine", "start"), ("StopLine", "end"),
                ("TrafficSign", "position"), ("TrafficLight", "position")}
POINTS_FIELDS = {("Polygon", "vertices"), ("Lanelet", "left_vertices"), ("Lanelet", "center_vertices"),
                 ("Lanelet", "right_vertices")}
ANGLE_FIELDS = {("Rectangle", "orientation")}
IGNORE_FIELDS = {("Rectangle", "vertices")}
# shapes kept in the obstacle's own frame: must not move
LOCAL_FIELDS = {("StaticObstacle", "obstacle_shape"), ("DynamicObstacle", "obstacle_shape"),
                ("TrajectoryPrediction", "shape")}


def is_state(cls):
    return cls.endswith("State") and cls not in ("SignalState", "MetaInformationState", "TrafficLightState")


class Mismatch(Exception):
    pass


def _rot(p, t, a, rt=False):
    c, s = math.cos(a), math.sin(a)
    if rt:
        return (c * p[0] - s * p[1] + t[0], s * p[0] + c * p[1] + t[1])
    x, y = p[0] + t[0], p[1] + t[1]
    return (c * x - s * y, s * x + c * y)


def _chk_pt(b, a_, t, ang, where, out, rt=False):
    if not (isinstance(a_, list) and len(a_) == 3 and a_[0] == "nd"):
        out.append((where, "point replaced by " + str(a_)[:40]))
        return
    e = _rot(b[1:], t, ang, rt)
    scale = max(1.0, abs(b[1]), abs(b[2]), abs(t[0]), abs(t[1]))
    if max(abs(e[0] - a_[1]), abs(e[1] - a_[2])) > TOL * scale:
        out.append((where, f"point {b[1:]} -> {a_[1:]}, expected R(p+t) = [{float(e[0])!r}, {float(e[1])!r}]"))


def _chk_angle(b, a_, ang, where, out):
    if isinstance(a_, bool) or not isinstance(a_, (int, float)):
        out.append((where, f"orientation replaced by {str(a_)[:40]}"))
        return
    d = math.remainder(a_ - b - ang, TWO_PI)
    if abs(d) > TOL * 10 or abs(a_) > TWO_PI + TOL:
        out.append((where, f"orientation {b!r} -> {a_!r}, expected {b!r} + {ang!r} modulo 2pi within [-2pi, 2pi]"))


def _simple(nd):
    import shapely.geometry
    try:
        return bool(shapely.geometry.Polygon(nd[1:]).is_valid)
    except Exception:  # noqa
        return False


def _cycle_match(b, a_, t, ang):
    e = [_rot(p, t, ang) for p in b[:-1]]
    r = [tuple(q) for q in a_[:-1]]
    n = len(e)
    if n != len(r) or n == 0:
        return n == len(r)
    tol = TOL * max([1.0] + [abs(x) for p in b for x in p] + [abs(x) for x in t])
    for d in (1, -1):
        for k in range(n):
            if all(max(abs(e[(k + d * i) % n][0] - r[i][0]), abs(e[(k + d * i) % n][1] - r[i][1])) <= tol
                   for i in range(n)):
                return True
    return False


def has_nonsimple_polygon(snap):
    if isinstance(snap, dict):
        if snap.get("__class__") == "Polygon" and not _simple(snap["vertices"]):
            return True
        return any(has_nonsimple_polygon(v) for v in snap.values())
    if isinstance(snap, list):
        return any(has_nonsimple_polygon(v) for v in snap)
    return False


def _pm_vec(d):
    v, w = d.get("velocity"), d.get("velocity_y")
    ok = all(isinstance(x, (int, float)) and not isinstance(x, bool) for x in (v, w))
    return (v, w) if ok else None


def walk(b, a_, t, ang, out, path="", cls=None):
    """compare snapshot before / after: points moved by R(p+t), orientations shifted, the rest identical"""
    if len(out) >= 6:
        return
    if isinstance(b, dict) and "__class__" in b:
        c = b["__class__"]
        if not isinstance(a_, dict) or a_.get("__class__") != c:
            out.append((f"{c}", f"object of class {c} became {str(a_)[:40]}"))
            return
        for k in b:
            if k == "__class__" or (c, k) in IGNORE_FIELDS:
                continue
            if k not in a_:
                out.append((f"{c}.{k}", "attribute vanished"))
                continue
            bv, av = b[k], a_[k]
            if c == "PMState" and k in ("velocity", "velocity_y") and _pm_vec(b) is not None:
                if k == "velocity":
                    v, w = _pm_vec(b), _pm_vec(a_)
                    e = (math.cos(ang) * v[0] - math.sin(ang) * v[1], math.sin(ang) * v[0] + math.cos(ang) * v[1])
                    if w is None or max(abs(e[0] - w[0]), abs(e[1] - w[1])) > TOL * max(1.0, abs(v[0]), abs(v[1])):
                        out.append(("PMState.velocity", f"velocity vector {v} -> {w}, expected R(a)v = {e} (the orientation "
                                                        f"atan2(velocity_y, velocity) must shift by a)"))
            elif (c, k) in LOCAL_FIELDS:
                if bv != av:
                    out.append((f"{c}.{k}", "shape in the obstacle's own frame changed"))
            elif is_state(c) and k == "orientation" and isinstance(bv, dict) and bv.get("__class__") == "AngleInterval":
                if not (isinstance(av, dict) and av.get("__class__") == "AngleInterval"):
                    got = av.get("__class__") if isinstance(av, dict) else type(av).__name__
                    out.append((f"{c}.orientation(interval)",
                                f"orientation AngleInterval [{bv['start']},{bv['end']}] became a {got}: {str(av)[:80]}"))
                    continue
                if not all(isinstance(av.get(e), (int, float)) and not isinstance(av.get(e), bool) for e in ("start", "end")):
                    out.append((f"{c}.orientation(interval)", f"orientation interval ends replaced: {str(av)[:60]}"))
                    continue
                _chk_angle(bv["start"], av["start"], ang, f"{c}.orientation(interval)", out)
                if abs((av["end"] - av["start"]) - (bv["end"] - bv["start"])) > TOL * 10:
                    out.append((f"{c}.orientation(interval)", f"orientation interval [{bv['start']},{bv['end']}] -> "
                                                              f"[{av['start']},{av['end']}]: length changed"))
                elif abs(av["end"]) > TWO_PI + TOL:
                    out.append((f"{c}.orientation(interval)", f"orientation interval [{bv['start']},{bv['end']}] -> "
                                                              f"[{av['start']},{av['end']}]: leaves [-2pi, 2pi]"))
            elif (c, k) in POINT_FIELDS or (is_state(c) and k == "position" and isinstance(bv, list)):
                if bv is not None:
                    _chk_pt(bv, av, t, ang, f"{c}.{k}", out)
            elif (c, k) in POINTS_FIELDS:
                if not (isinstance(av, list) and len(av) == len(bv)):
                    out.append((f"{c}.{k}", "vertex count changed"))
                elif c == "Polygon" and not _simple(bv):
                    # a self-intersecting ring has no well-defined orientation for the constructor to restore:
                    # compared as a vertex cycle in either direction (DESIGN 2.7)
                    if not _cycle_match(bv[1:], av[1:], t, ang):
                        out.append((f"{c}.{k}", f"vertex cycle {bv[1:]} -> {av[1:]} is not the moved cycle"))
                else:
                    for p, q in zip(bv[1:], av[1:]):
                        _chk_pt(["nd"] + p, ["nd"] + q, t, ang, f"{c}.{k}", out)
            elif (c, k) in ANGLE_FIELDS or (is_state(c) and k == "orientation" and isinstance(bv, (int, float))
                                            and not isinstance(bv, bool)):
                _chk_angle(bv, av, ang, f"{c}.{k}", out)
            else:
                walk(bv, av, t, ang, out, f"{path}.{k}", c)
        for k in a_:
            if k not in b and (c, k) not in IGNORE_FIELDS:
                out.append((f"{c}.{k}", "attribute appeared"))
        return
    if isinstance(b, dict):
        if not isinstance(a_, dict) or sorted(b) != sorted(a_):
            out.append((f"{cls}{path.rsplit('.', 1)[-1] and '.' + path.rsplit('.', 1)[-1]}", "mapping changed"))
            return
        for k in b:
            walk(b[k], a_[k], t, ang, out, path, cls)
        return
    if isinstance(b, list):
        if not isinstance(a_, list) or len(a_) != len(b):
            out.append((f"{cls}.{path.rsplit('.', 1)[-1]}", "length changed"))
            return
        for x, y in zip(b, a_):
            walk(x, y, t, ang, out, path, cls)
        return
    if b != a_ and not (isinstance(b, float) and isinstance(a_, float) and math.isnan(b) and math.isnan(a_)):
        out.append((f"{cls}.{path.rsplit('.', 1)[-1]}", f"value that is neither a point nor an orientation changed: "
                                                        f"{str(b)[:40]} -> {str(a_)[:40]}"))


def _judge_points(case, ev, before, after, t, a, out):
    k = case["kind"]
    if k in ("pts", "rottr"):
        if len(before) != len(after):
            out.append(("array", "vertex count changed"))
        else:
            for p, q in zip(before[1:], after[1:]):
                _chk_pt(["nd"] + p, ["nd"] + q, t, a, "transform." + ("translate_rotate" if k == "pts" else
                                                                      "rotate_translate"), out, rt=(k == "rottr"))
    else:
        walk(before, after, t, a, out)


def _judge_reach(case, ev, key, what_motion):
    """a probe state moved together with the goal region reaches it iff it did before (robust decisions only)"""
    for i, ((v0, robust), (v1, _)) in enumerate(zip(ev["reach_before"], ev[key])):
        if not robust:
            continue
        if v1 != v0:
            kind_ = "raises" if isinstance(v1, str) else "flips"
            return (f"ppset:GoalRegion.is_reached of a state moved with the goal {kind_}",
                    f"ppset sub-seed {case['sub']} {what_motion}: probe state #{i} (make_probes) had is_reached = {v0} "
                    f"before; after moving the planning-problem set and the state together: {v1}")
    return None


def judge(case, ev):
    """the property statement on one evaluated case -> None | (signature, what)"""
    a = float(case["a"])
    if abs(a) > TWO_PI:
        return None  # outside the quantifier's domain: unspecified (the correspondence still compares)
    k = case["kind"]
    ac = L.angle_class(a)
    if "exc" in ev:
        return (f"{k}:raises {ev['exc']}:{_shape_of(case)}",
                f"translate_rotate of a {k} ({_shape_of(case)}) with a valid angle {a!r} raises {ev['exc']}: {ev['exc_msg']}")
    out = []
    _judge_points(case, ev, ev["snap_before"], ev["snap_after"], ev["t"], a, out)
    if out:
        where, what = out[0]
        return (f"{k}:{where}:not the rigid motion:{ac}", f"{k} sub-seed {case['sub']} t={case['t']} a={a!r}: {where}: {what}")
    if "reach_after" in ev:
        r = _judge_reach(case, ev, "reach_after", f"t={case['t']} a={a!r}")
        if r:
            return r
    if "m2" in case:
        # a second motion on the result: never raises, and the two together are the combined motion of the original
        a2 = float(case["m2"]["a"])
        if abs(a2) > TWO_PI:
            return None
        if "exc2" in ev:
            return (f"{k}:second translate_rotate raises {ev['exc2']}:{_shape_of(case)}",
                    f"{k} sub-seed {case['sub']}: translate_rotate({case['t']}, {a!r}) succeeds, translate_rotate("
                    f"{case['m2']['t']}, {a2!r}) on the result raises {ev['exc2']}: {ev['exc2_msg']}")
        tc, ac2 = combined_motion(case)
        _judge_points(case, ev, ev["snap_before"], ev["snap_after2"], tc, ac2, out)
        if out:
            where, what = out[0]
            return (f"{k}:{where}:two motions are not the combined motion:{ac}",
                    f"{k} sub-seed {case['sub']} (t,a)={case['t']},{a!r} then (t2,a2)={case['m2']['t']},{a2!r}; against "
                    f"the single motion t={tc} a={ac2!r}: {where}: {what}")
        if "reach_after2" in ev:
            return _judge_reach(case, ev, "reach_after2", f"(t,a)={case['t']},{a!r} then (t2,a2)={case['m2']['t']},{a2!r}")
        return None
    # undoing the motion restores the original (mutable components and values alike)
    if k not in ("pts", "rottr") and not ev.get("nonsimple"):
        try:
            res = ev["result"]
            r1 = apply(case, res, np.array([0.0, 0.0]), -a)
            r2 = apply(case, r1, -ev["t"], 0.0)
        except Exception as e:  # noqa
            return (f"{k}:undo raises {type(e).__name__}", f"undoing translate_rotate on a {k} raises {type(e).__name__}: {e}")
        back = F_OF[k](r2)
        orig = ev["before_flat"]
        scale = max([1.0] + [abs(float(x)) for x in orig] + [abs(x) for x in case["t"]])
        if len(back) != len(orig):
            return (f"{k}:undo changes structure", f"{k}: undo changed the structure")
        for i, (x, y) in enumerate(zip(orig, back)):
            d = abs(float(x) - float(y))
            if d > 1e-8 * scale and abs(math.remainder(d, TWO_PI)) > 1e-8 * scale:
                return (f"{k}:undo does not restore:{ac}",
                        f"{k} sub-seed {case['sub']}: translate_rotate(t,a) then (0,-a) then (-t,0) gives {y!r} for "
                        f"stored number #{i} = {x!r}")
    return None


def _shape_of(case):
    if case["kind"] == "scenario":
        return "roles=" + ",".join(sorted(set(case["roles"]))) if case["roles"] else "no obstacles"
    if case["kind"] == "obstacle":
        return "role=" + str(case.get("role"))
    return case["kind"]


def oracle(case):
    return judge(case, evaluate(case))


# ------------------------------------------------------------------------------------ correspondence
CTOR = {"pts": "CPts", "rottr": "CRotTr", "shape": "CShape", "state": "CState", "lanelet": "CLanelet", "post": "CPost",
        "obstacle": "CObstacle", "scenario": "CScenario", "ppset": "CPPSet"}


def coq_case(case, ev, twice=False):
    """the Coq term of a case: one motion (observation after it), or [CTwice] (observation after the second motion;
    an exception of either step is OExc)"""
    a = float(case["a"])
    c, s = math.cos(angle_of(case)), math.sin(angle_of(case))
    scale = max([1.0] + [abs(float(x)) for x in ev["before_flat"]] + [abs(x) for x in case["t"]])
    if not twice:
        o = "OExc" if "exc" in ev else f"(OFlat {L.c_flat(ev['after_flat'])})"
    else:
        m2 = case["m2"]
        scale = max([scale] + [abs(x) for x in m2["t"]])
        o = "OExc" if ("exc" in ev or "exc2" in ev) else f"(OFlat {L.c_flat(ev['after2_flat'])})"
    term = (f"{CTOR[case['kind']]} {qq(scale)} ({qq(case['t'][0])}, {qq(case['t'][1])}) {qq(a)} {qq(c)} {qq(s)} "
            f"{ev['term']} {o}")
    if not twice:
        return term
    a2 = angle_of(m2)
    return (f"CTwice ({term}) ({qq(m2['t'][0])}, {qq(m2['t'][1])}) {qq(float(m2['a']))} {qq(math.cos(a2))} "
            f"{qq(math.sin(a2))}")


IMPORTS = ("From Coq Require Import QArith ZArith List Bool NArith.\nImport ListNotations.\n"
           "From CR Require Import Base.QMod Model.Interval Model.Transform Model.Shapes Model.Scene Corr.Obs Corr.C05.\n"
           "Open Scope Q_scope.\n")


def run(ctx):
    ctx.trusted = ["Coq 8.16.1 kernel + vm_compute (no native_compute)",
                   "axioms: none (Print Assumptions: Closed under the global context for every theorem)",
                   "hand-written models coq/Model/Transform.v, Shapes.v, Scene.v of the translate_rotate methods "
                   "(line ranges in the file headers), tied to the code by the correspondence relation coq/Corr/C05.v "
                   "evaluated on every run",
                   "harness/props/c05.py, c05_lib.py, vlib/scen.py (generators, snapshot oracle, Coq term printers)",
                   "libm cos / sin (oracle inputs; c*c+s*s = 1 checked to 4 ulp per case); IEEE-754 arithmetic of "
                   "CPython / numpy (rounded; model exact over Q); shapely's ring orientation in Polygon.__init__"]
    ctx.trusted.insert(3, "harness/vlib/py2coq.py + harness/props/c05_src.py: translator (symbolic execution, fail-closed) of "
                          "commonroad/geometry/transform.py into coq/Gen/Src_transform.v on every run (static-shape numpy "
                          "array algebra evaluated at translation time; math.cos / math.sin uninterpreted); "
                          "C05_model_is_source proves Model/Transform.v equal to that text")
    from props import c05_src
    from vlib.py2coq import TranslationError
    try:
        changed = c05_src.generate()
        ctx.notes.append(f"Gen/Src_transform.v regenerated from the source ({'changed' if changed else 'unchanged'})")
    except (TranslationError, SyntaxError, OSError) as e:
        ctx.proof_breaks.append({"theorem": "translator:Gen/Src_transform.v (C05_model_is_source)",
                                 "where": "harness/props/c05_src.py", "log": str(e)})
        ctx.log(f"translator failed: {e}")
    ctx.build_props(extra_targets=("Corr/C05.vo",))
    if ctx.tier == "thorough":
        ctx.coqchk()
    n = ctx.n(600, 9000)
    cases = load_corpus(ctx.prop) + gen(ctx.rng, n)
    terms, used = [], []
    trig_bad = 0
    excluded = [0]
    reach = [0, 0]

    def process(cs, with_corr=True):
        nonlocal trig_bad
        for c in cs:
            ctx.count(c, nontrivial(c), f"{c['kind']}|{L.angle_class(c['a'])}" + ("|+2nd motion" if "m2" in c else ""))
            ev = evaluate(c)
            r = judge(c, ev)
            if r:
                ctx.fail(r[0], r[1], c)
            cc, ss = math.cos(angle_of(c)), math.sin(angle_of(c))
            if abs(cc * cc + ss * ss - 1.0) > 4 * 2.3e-16:
                trig_bad += 1
            for key in ("reach_after", "reach_after2"):
                if key in ev:
                    reach[0] += sum(1 for _, robust in ev["reach_before"] if robust)
                    reach[1] += sum(1 for _, robust in ev["reach_before"] if not robust)
            if "m2" in c:
                a2 = angle_of(c["m2"])
                c2, s2 = math.cos(a2), math.sin(a2)
                if abs(c2 * c2 + s2 * s2 - 1.0) > 4 * 2.3e-16:
                    trig_bad += 1
            if ev.get("nonsimple"):
                excluded[0] += 1
            elif with_corr:
                terms.append(coq_case(c, ev))
                used.append((c, ev, "one motion"))
                if "m2" in c:
                    terms.append(coq_case(c, ev, twice=True))
                    used.append((c, ev, "two motions"))

    process(cases)
    defs = f"Definition tau : Q := {qq(TWO_PI)}.\nDefinition chk := check tau.\n"
    bad, errors = ctx.coq_bad_indices("corr", IMPORTS, defs, terms, "chk", shard=60)
    ctx.coverage["correspondence_cases"] = len(terms)
    ctx.coverage["excluded_nonsimple_polygon"] = excluded[0]
    ctx.coverage["second_motion_cases"] = sum(1 for c in cases if "m2" in c)
    ctx.coverage["is_reached_probes_judged"] = reach[0]
    ctx.coverage["is_reached_near_boundary_excluded"] = reach[1]
    ctx.coverage["trig_hypothesis_checked"] = len(cases) + sum(1 for c in cases if "m2" in c)
    ctx.coverage["trig_hypothesis_violated"] = trig_bad
    ctx.coverage["tolerance"] = "1e-9 * (max(1,|x|) + largest input magnitude); orientations modulo 2pi"
    for e in errors:
        ctx.corr_break("Corr.C05.check (coqc failed)", e)
    for i in bad:
        c, ev, which = used[i]
        ctx.corr_break(f"Corr.C05.check ({which}): Model/Transform.v + Shapes.v + Scene.v vs translate_rotate",
                       dict(c, observed=ev.get("exc", ev.get("exc2") if which == "two motions" else None)
                            or "flat list of %d numbers" % len(ev.get("after_flat", []))))
    ctx.log(f"corr cases={len(terms)} disagree={len(bad)} coq_errors={len(errors)} trig_bad={trig_bad}")
    if trig_bad:
        ctx.corr_break("libm cos/sin: c*c+s*s = 1 within 4 ulp", {"count": trig_bad})
    if (ctx.proof_breaks or ctx.corr_breaks) and not ctx.failures:
        ctx.log(f"proof/correspondence broke ({len(ctx.proof_breaks)}/{len(ctx.corr_breaks)}); widening the search")
        process(gen(ctx.rng, n * 6), with_corr=False)
    return ctx.finish(RULE, assumptions=ASSUME)
