"""C05 — translate_rotate is the exact rigid motion on every object.
oracle: independent rotation (math.cos / math.sin) of a structural snapshot of the raw stored data: every stored
        point p -> R(a)(p + t), every orientation th -> th + a modulo 2pi (intervals: both ends, same shift),
        everything else bit-identical; no exception for |a| <= 2pi; undoing the motion restores the original.
corr:   Model/Transform.v, Model/Shapes.v, Model/Scene.v evaluated by vm_compute on the same cases (Corr/C05.v)."""
import copy
import math
import random

import numpy as np

from vlib import scen
from vlib.core import qlist, qq
from vlib.flow import load_corpus

from props import c05_lib as L

import commonroad
from commonroad.common.util import AngleInterval, Interval
from commonroad.geometry import transform as cr_transform
from commonroad.geometry.shape import Circle, Polygon, Rectangle, ShapeGroup
from commonroad.scenario.state import CustomState, InitialState, KSState, PMState, STState

TWO_PI = commonroad.TWO_PI
TOL = 1e-9

RULE = ("cases = (component kind, sub-seed of the object generator, translation, angle) from one seeded PRNG; kinds: raw "
        "vertex arrays (translate_rotate / rotate_translate), shapes (rectangle, circle, polygon, nested groups), states "
        "(all state classes, exact / region positions, exact / interval orientations incl. values at +-2pi, goal states), "
        "lanelets with stop lines, traffic signs / lights, obstacles of all roles (static, dynamic with trajectory / "
        "set-based / no prediction, phantom, environment), whole scenarios (lanelet network + every obstacle role), "
        "planning-problem sets; angles dense near 0, at +-0.05 (+-1 ulp), multiples of pi/2, +-2pi (+-1 ulp), ints, numpy "
        "scalars, a few outside [-2pi,2pi]; translations 0, grid, 1e-7..1e4. distinct = distinct case dicts; "
        "non-trivial = angle != 0 or translation != 0")
ASSUME = ["cos / sin are oracle inputs: the model takes the doubles math.cos(a), math.sin(a); every case checks "
          "|c*c + s*s - 1| <= 4 ulp (count in coverage.trig_hypothesis_checked)",
          "float + - * are rounded (model exact): coordinates compared with tolerance 1e-9*(max(1,|x|)+scale), "
          "orientations modulo 2pi with the same tolerance",
          "Polygon re-orients its vertex ring through shapely; a rotation keeps the ring order of a simple polygon "
          "(compared in order); objects holding a self-intersecting ring are compared as vertex cycles by the oracle and "
          "left out of the correspondence (coverage.excluded_nonsimple_polygon)",
          "point-mass states: the orientation is the property atan2(velocity_y, velocity); 'th -> th + a' is judged as "
          "'(velocity, velocity_y) -> R(a)(velocity, velocity_y)'; DynamicObstacle.history is outside the statement"]

KINDS = [("pts", 14), ("rottr", 5), ("shape", 20), ("state", 20), ("lanelet", 8), ("post", 4), ("obstacle", 14),
         ("scenario", 10), ("ppset", 5)]


# ------------------------------------------------------------------------------------ generators
def _edge_state(rng):
    """states whose orientation sits at the ends of the valid range / long intervals / ints"""
    t = rng.randint(0, 5)
    pos = np.array([scen.rnd(rng, -30, 30), scen.rnd(rng, -30, 30)])
    k = rng.random()
    if k < 0.35:
        o = rng.choice([TWO_PI, -TWO_PI, 6.0, -6.0, 0.0, 1, -3, math.nextafter(TWO_PI, 0), 3.0, -3.0])
    elif k < 0.75:
        ln = rng.choice([0.0, 1e-6, 0.5, 3.0, 5.0, 6.0, 6.28])
        lo = rng.uniform(-TWO_PI, TWO_PI - ln)
        o = AngleInterval(lo, lo + ln)
    else:
        o = None
    cls = rng.choice([KSState, CustomState, InitialState])
    kw = dict(time_step=t, position=pos if rng.random() < 0.8 else scen.rand_shape(rng, ("rect", "circ", "poly", "group"),
                                                                                  False))
    if o is not None:
        kw["orientation"] = o
    if cls is CustomState and rng.random() < 0.3:
        kw.pop("position")
    if cls is CustomState:
        kw["velocity"] = scen.rnd(rng, 0, 20)
    return cls(**kw)


def _nested_group(rng):
    inner = ShapeGroup([scen.rand_shape(rng, ("rect", "circ", "poly"), False) for _ in range(rng.randint(1, 2))])
    return ShapeGroup([scen.rand_shape(rng, ("rect", "circ", "poly"), False), inner] +
                      ([ShapeGroup([])] if rng.random() < 0.3 else []))


def build(case):
    """the object of a case, rebuilt from its sub-seed through the public constructors"""
    rng = random.Random(case["sub"])
    k = case["kind"]
    if k in ("pts", "rottr"):
        return np.array(case["vs"], dtype=float).reshape(-1, 2)
    if k == "shape":
        v = rng.random()
        if v < 0.1:
            return _nested_group(rng)
        if v < 0.2:
            return Rectangle(scen.rnd(rng, 0.5, 6), scen.rnd(rng, 0.5, 3), np.array([scen.rnd(rng, -99, 99), 0.0]),
                             rng.choice([TWO_PI, -TWO_PI, 6.0, -6.0, 0.0, 0, 3.0, -3.0]))
        return scen.rand_shape(rng, ("rect", "circ", "poly", "group"), centred=rng.random() < 0.15,
                               scale=rng.choice([1.0, 1.0, 0.01, 30.0]))
    if k == "state":
        v = rng.random()
        if v < 0.35:
            return _edge_state(rng)
        if v < 0.5:
            return scen.rand_goal_state(rng)
        return scen.rand_state(rng, uncertain=rng.random() < 0.5)
    if k == "lanelet":
        lls = scen.strip_lanelets(rng, rng.randint(1, 2), rng.randint(1, 2), first_id=1,
                                  origin=(scen.rnd(rng, -100, 100), scen.rnd(rng, -100, 100)))
        la = rng.choice(lls)
        if rng.random() < 0.6:
            from commonroad.scenario.lanelet import LineMarking, StopLine
            la.stop_line = StopLine(la.left_vertices[-1].copy(), la.right_vertices[-1].copy(), LineMarking.SOLID)
        if rng.random() < 0.5:
            _ = la.polygon  # make the cached polygon exist
        return la
    if k == "post":
        return scen.rand_sign(rng, 5) if rng.random() < 0.5 else scen.rand_light(rng, 6)
    if k == "obstacle":
        unc = rng.random() < 0.3
        return scen.rand_obstacle(rng, 77, role=case.get("role"),
                                  shape_kinds=("rect", "circ", "poly") if unc else ("rect", "circ", "poly", "group"),
                                  uncertain=unc)
    if k == "scenario":
        unc = rng.random() < 0.3
        sc = scen.rand_scenario(rng, n_obstacles=0, uncertain=unc)
        roles = case["roles"]
        for i, r in enumerate(roles):
            sc.add_objects(scen.rand_obstacle(rng, 500 + i, role=r, uncertain=unc))
        return sc
    if k == "ppset":
        return scen.rand_planning_problem_set(rng, n=rng.randint(1, 3))
    raise ValueError(k)


ROLES = ["static", "dynamic", "dynamic_set", "dynamic_none", "env", "phantom"]


def gen(rng, n):
    kinds = [k for k, w in KINDS for _ in range(w)]
    cases = []
    for i in range(n):
        k = rng.choice(kinds)
        c = {"kind": k, "sub": rng.randrange(1 << 30), "t": L.translation_stream(rng),
             "a": L.angle_stream(rng, allow_invalid=True)}
        if isinstance(c["a"], np.floating):
            c["a"], c["at"] = float(c["a"]), "np.float64"
        else:
            c["at"] = "int" if isinstance(c["a"], int) else "float"
        if k in ("pts", "rottr"):
            m = rng.randint(1, 6)
            sc = rng.choice([1.0, 1.0, 100.0, 1e4, 1e-3])
            c["vs"] = [[round(rng.uniform(-10, 10), 3) * sc, round(rng.uniform(-10, 10), 3) * sc] for _ in range(m)]
            if rng.random() < 0.3:
                c["vs"][0] = [100.0, 0.0]
        elif k == "obstacle":
            c["role"] = rng.choice(ROLES)
        elif k == "scenario":
            c["roles"] = [rng.choice(ROLES) for _ in range(rng.randint(0, 4))]
            if rng.random() < 0.35 and "env" not in c["roles"]:
                c["roles"].append("env")
        cases.append(c)
    return cases


def nontrivial(c):
    return float(c["a"]) != 0.0 or any(float(x) != 0.0 for x in c["t"])


def kind(c):
    return c["kind"]


def angle_of(c):
    a = c["a"]
    t = c.get("at", "float")
    return int(a) if t == "int" else np.float64(a) if t == "np.float64" else float(a)


# ------------------------------------------------------------------------------------ implementation
C_OF = {"shape": L.c_shape, "state": L.c_state, "lanelet": L.c_lanelet, "obstacle": L.c_obstacle,
        "scenario": L.c_scenario, "ppset": L.c_ppset, "post": lambda o: L.cpt(o.position)}
F_OF = {"shape": L.f_shape, "state": L.f_state, "lanelet": L.f_lanelet, "obstacle": L.f_obstacle,
        "scenario": L.f_scenario, "ppset": L.f_ppset, "post": lambda o: [o.position[0], o.position[1]]}

SKIP = set(scen.CACHE_FIELDS) | {"_Rectangle__shapely_polygon", "_shapely_polygon"}


def apply(case, obj, t, a):
    """run the implementation; returns the transformed object (new for shapes / states / arrays, same otherwise)"""
    k = case["kind"]
    if k == "pts":
        return cr_transform.translate_rotate(obj, t, a)
    if k == "rottr":
        return cr_transform.rotate_translate(obj, t, a)
    if k in ("shape", "state"):
        return obj.translate_rotate(t, a)
    obj.translate_rotate(t, a)
    return obj


def evaluate(case):
    """build, snapshot, transform, snapshot.  Returns a dict with the Coq term of the input, the flat
    observation (or exception class), and both snapshots"""
    obj = build(case)
    k = case["kind"]
    t = np.array(case["t"], dtype=float)
    a = angle_of(case)
    ev = {"kind": k, "t": t, "a": a}
    if k in ("pts", "rottr"):
        ev["term"] = L.cpts(obj)
        ev["before_flat"] = [v for p in obj for v in p]
        ev["snap_before"] = ["nd"] + obj.tolist()
    else:
        ev["term"] = C_OF[k](obj)
        ev["before_flat"] = F_OF[k](obj)
        ev["snap_before"] = scen.snapshot(obj, SKIP)
        ev["nonsimple"] = has_nonsimple_polygon(ev["snap_before"])
    try:
        res = apply(case, obj, t, a)
    except Exception as e:  # noqa  (expected for |a| > 2pi; judged by the oracle otherwise)
        ev["exc"] = type(e).__name__
        ev["exc_msg"] = str(e)[:160]
        return ev
    if k in ("pts", "rottr"):
        ev["after_flat"] = [v for p in res for v in p]
        ev["snap_after"] = ["nd"] + np.asarray(res).tolist()
    else:
        ev["after_flat"] = F_OF[k](res)
        ev["snap_after"] = scen.snapshot(res, SKIP)
    ev["result"] = res
    return ev


# ------------------------------------------------------------------------------------ oracle
POINT_FIELDS = {("Rectangle", "center"), ("Circle", "center"), ("StopLine", "start"), ("StopLine", "end"),
                ("TrafficSign", "position"), ("TrafficLight", "position")}
POINTS_FIELDS = {("Polygon", "vertices"), ("Lanelet", "left_vertices"), ("Lanelet", "center_vertices"),
                 ("Lanelet", "right_vertices")}
ANGLE_FIELDS = {("Rectangle", "orientation")}
IGNORE_FIELDS = {("Rectangle", "vertices")}
# shapes kept in the obstacle's own frame: must not move
LOCAL_FIELDS = {("StaticObstacle", "obstacle_shape"), ("DynamicObstacle", "obstacle_shape"),
                ("TrajectoryPrediction", "shape")}


def is_state(cls):
    return cls.endswith("State") and cls not in ("SignalState", "MetaInformationState", "TrafficLightState")


class Mismatch(Exception):
    pass


def _rot(p, t, a, rt=False):
    c, s = math.cos(a), math.sin(a)
    if rt:
        return (c * p[0] - s * p[1] + t[0], s * p[0] + c * p[1] + t[1])
    x, y = p[0] + t[0], p[1] + t[1]
    return (c * x - s * y, s * x + c * y)


def _chk_pt(b, a_, t, ang, where, out, rt=False):
    if not (isinstance(a_, list) and len(a_) == 3 and a_[0] == "nd"):
        out.append((where, "point replaced by " + str(a_)[:40]))
        return
    e = _rot(b[1:], t, ang, rt)
    scale = max(1.0, abs(b[1]), abs(b[2]), abs(t[0]), abs(t[1]))
    if max(abs(e[0] - a_[1]), abs(e[1] - a_[2])) > TOL * scale:
        out.append((where, f"point {b[1:]} -> {a_[1:]}, expected R(p+t) = [{e[0]!r}, {e[1]!r}]"))


def _chk_angle(b, a_, ang, where, out):
    if isinstance(a_, bool) or not isinstance(a_, (int, float)):
        out.append((where, f"orientation replaced by {str(a_)[:40]}"))
        return
    d = math.remainder(a_ - b - ang, TWO_PI)
    if abs(d) > TOL * 10 or abs(a_) > TWO_PI + TOL:
        out.append((where, f"orientation {b!r} -> {a_!r}, expected {b!r} + {ang!r} modulo 2pi within [-2pi, 2pi]"))


def _simple(nd):
    import shapely.geometry
    try:
        return bool(shapely.geometry.Polygon(nd[1:]).is_valid)
    except Exception:  # noqa
        return False


def _cycle_match(b, a_, t, ang):
    e = [_rot(p, t, ang) for p in b[:-1]]
    r = [tuple(q) for q in a_[:-1]]
    n = len(e)
    if n != len(r) or n == 0:
        return n == len(r)
    tol = TOL * max([1.0] + [abs(x) for p in b for x in p] + [abs(x) for x in t])
    for d in (1, -1):
        for k in range(n):
            if all(max(abs(e[(k + d * i) % n][0] - r[i][0]), abs(e[(k + d * i) % n][1] - r[i][1])) <= tol
                   for i in range(n)):
                return True
    return False


def has_nonsimple_polygon(snap):
    if isinstance(snap, dict):
        if snap.get("__class__") == "Polygon" and not _simple(snap["vertices"]):
            return True
        return any(has_nonsimple_polygon(v) for v in snap.values())
    if isinstance(snap, list):
        return any(has_nonsimple_polygon(v) for v in snap)
    return False


def _pm_vec(d):
    v, w = d.get("velocity"), d.get("velocity_y")
    ok = all(isinstance(x, (int, float)) and not isinstance(x, bool) for x in (v, w))
    return (v, w) if ok else None


def walk(b, a_, t, ang, out, path="", cls=None):
    """compare snapshot before / after: points moved by R(p+t), orientations shifted, the rest identical"""
    if len(out) >= 6:
        return
    if isinstance(b, dict) and "__class__" in b:
        c = b["__class__"]
        if not isinstance(a_, dict) or a_.get("__class__") != c:
            out.append((f"{c}", f"object of class {c} became {str(a_)[:40]}"))
            return
        for k in b:
            if k == "__class__" or (c, k) in IGNORE_FIELDS:
                continue
            if k not in a_:
                out.append((f"{c}.{k}", "attribute vanished"))
                continue
            bv, av = b[k], a_[k]
            if c == "PMState" and k in ("velocity", "velocity_y") and _pm_vec(b) is not None:
                if k == "velocity":
                    v, w = _pm_vec(b), _pm_vec(a_)
                    e = (math.cos(ang) * v[0] - math.sin(ang) * v[1], math.sin(ang) * v[0] + math.cos(ang) * v[1])
                    if w is None or max(abs(e[0] - w[0]), abs(e[1] - w[1])) > TOL * max(1.0, abs(v[0]), abs(v[1])):
                        out.append(("PMState.velocity", f"velocity vector {v} -> {w}, expected R(a)v = {e} (the orientation "
                                                        f"atan2(velocity_y, velocity) must shift by a)"))
            elif (c, k) in LOCAL_FIELDS:
                if bv != av:
                    out.append((f"{c}.{k}", "shape in the obstacle's own frame changed"))
            elif is_state(c) and k == "orientation" and isinstance(bv, dict) and bv.get("__class__") == "AngleInterval":
                if not (isinstance(av, dict) and av.get("__class__") == "AngleInterval"):
                    out.append((f"{c}.orientation", "orientation interval replaced"))
                    continue
                _chk_angle(bv["start"], av["start"], ang, f"{c}.orientation(interval)", out)
                if abs((av["end"] - av["start"]) - (bv["end"] - bv["start"])) > TOL * 10:
                    out.append((f"{c}.orientation(interval)", f"orientation interval [{bv['start']},{bv['end']}] -> "
                                                              f"[{av['start']},{av['end']}]: length changed"))
            elif (c, k) in POINT_FIELDS or (is_state(c) and k == "position" and isinstance(bv, list)):
                if bv is not None:
                    _chk_pt(bv, av, t, ang, f"{c}.{k}", out)
            elif (c, k) in POINTS_FIELDS:
                if not (isinstance(av, list) and len(av) == len(bv)):
                    out.append((f"{c}.{k}", "vertex count changed"))
                elif c == "Polygon" and not _simple(bv):
                    # a self-intersecting ring has no well-defined orientation for the constructor to restore:
                    # compared as a vertex cycle in either direction (DESIGN 2.7)
                    if not _cycle_match(bv[1:], av[1:], t, ang):
                        out.append((f"{c}.{k}", f"vertex cycle {bv[1:]} -> {av[1:]} is not the moved cycle"))
                else:
                    for p, q in zip(bv[1:], av[1:]):
                        _chk_pt(["nd"] + p, ["nd"] + q, t, ang, f"{c}.{k}", out)
            elif (c, k) in ANGLE_FIELDS or (is_state(c) and k == "orientation" and isinstance(bv, (int, float))
                                            and not isinstance(bv, bool)):
                _chk_angle(bv, av, ang, f"{c}.{k}", out)
            else:
                walk(bv, av, t, ang, out, f"{path}.{k}", c)
        for k in a_:
            if k not in b and (c, k) not in IGNORE_FIELDS:
                out.append((f"{c}.{k}", "attribute appeared"))
        return
    if isinstance(b, dict):
        if not isinstance(a_, dict) or sorted(b) != sorted(a_):
            out.append((f"{cls}{path.rsplit('.', 1)[-1] and '.' + path.rsplit('.', 1)[-1]}", "mapping changed"))
            return
        for k in b:
            walk(b[k], a_[k], t, ang, out, path, cls)
        return
    if isinstance(b, list):
        if not isinstance(a_, list) or len(a_) != len(b):
            out.append((f"{cls}.{path.rsplit('.', 1)[-1]}", "length changed"))
            return
        for x, y in zip(b, a_):
            walk(x, y, t, ang, out, path, cls)
        return
    if b != a_ and not (isinstance(b, float) and isinstance(a_, float) and math.isnan(b) and math.isnan(a_)):
        out.append((f"{cls}.{path.rsplit('.', 1)[-1]}", f"value that is neither a point nor an orientation changed: "
                                                        f"{str(b)[:40]} -> {str(a_)[:40]}"))


def judge(case, ev):
    """the property statement on one evaluated case -> None | (signature, what)"""
    a = float(case["a"])
    if abs(a) > TWO_PI:
        return None  # outside the quantifier's domain: unspecified (the correspondence still compares)
    k = case["kind"]
    ac = L.angle_class(a)
    if "exc" in ev:
        return (f"{k}:raises {ev['exc']}:{_shape_of(case)}",
                f"translate_rotate of a {k} ({_shape_of(case)}) with a valid angle {a!r} raises {ev['exc']}: {ev['exc_msg']}")
    out = []
    if k in ("pts", "rottr"):
        b, r = ev["snap_before"], ev["snap_after"]
        if len(b) != len(r):
            out.append(("array", "vertex count changed"))
        else:
            for p, q in zip(b[1:], r[1:]):
                _chk_pt(["nd"] + p, ["nd"] + q, ev["t"], a, "transform." + ("translate_rotate" if k == "pts" else
                                                                            "rotate_translate"), out, rt=(k == "rottr"))
    else:
        walk(ev["snap_before"], ev["snap_after"], ev["t"], a, out)
    if out:
        where, what = out[0]
        return (f"{k}:{where}:not the rigid motion:{ac}", f"{k} sub-seed {case['sub']} t={case['t']} a={a!r}: {where}: {what}")
    # undoing the motion restores the original (mutable components and values alike)
    if k not in ("pts", "rottr") and not ev.get("nonsimple"):
        try:
            res = ev["result"]
            r1 = apply(case, res, np.array([0.0, 0.0]), -a)
            r2 = apply(case, r1, -ev["t"], 0.0)
        except Exception as e:  # noqa
            return (f"{k}:undo raises {type(e).__name__}", f"undoing translate_rotate on a {k} raises {type(e).__name__}: {e}")
        back = F_OF[k](r2)
        orig = ev["before_flat"]
        scale = max([1.0] + [abs(float(x)) for x in orig] + [abs(x) for x in case["t"]])
        if len(back) != len(orig):
            return (f"{k}:undo changes structure", f"{k}: undo changed the structure")
        for i, (x, y) in enumerate(zip(orig, back)):
            d = abs(float(x) - float(y))
            if d > 1e-8 * scale and abs(math.remainder(d, TWO_PI)) > 1e-8 * scale:
                return (f"{k}:undo does not restore:{ac}",
                        f"{k} sub-seed {case['sub']}: translate_rotate(t,a) then (0,-a) then (-t,0) gives {y!r} for "
                        f"stored number #{i} = {x!r}")
    return None


def _shape_of(case):
    if case["kind"] == "scenario":
        return "roles=" + ",".join(sorted(set(case["roles"]))) if case["roles"] else "no obstacles"
    if case["kind"] == "obstacle":
        return "role=" + str(case.get("role"))
    return case["kind"]


def oracle(case):
    return judge(case, evaluate(case))


# ------------------------------------------------------------------------------------ correspondence
CTOR = {"pts": "CPts", "rottr": "CRotTr", "shape": "CShape", "state": "CState", "lanelet": "CLanelet", "post": "CPost",
        "obstacle": "CObstacle", "scenario": "CScenario", "ppset": "CPPSet"}


def coq_case(case, ev):
    a = float(case["a"])
    c, s = math.cos(angle_of(case)), math.sin(angle_of(case))
    scale = max([1.0] + [abs(float(x)) for x in ev["before_flat"]] + [abs(x) for x in case["t"]])
    o = "OExc" if "exc" in ev else f"(OFlat {L.c_flat(ev['after_flat'])})"
    return (f"{CTOR[case['kind']]} {qq(scale)} ({qq(case['t'][0])}, {qq(case['t'][1])}) {qq(a)} {qq(c)} {qq(s)} "
            f"{ev['term']} {o}")


IMPORTS = ("From Coq Require Import QArith ZArith List Bool NArith.\nImport ListNotations.\n"
           "From CR Require Import Base.QMod Model.Interval Model.Transform Model.Shapes Model.Scene Corr.Obs Corr.C05.\n"
           "Open Scope Q_scope.\n")


def run(ctx):
    ctx.trusted = ["Coq 8.16.1 kernel + vm_compute (no native_compute)",
                   "axioms: none (Print Assumptions: Closed under the global context for every theorem)",
                   "hand-written models coq/Model/Transform.v, Shapes.v, Scene.v of the translate_rotate methods "
                   "(line ranges in the file headers), tied to the code by the correspondence relation coq/Corr/C05.v "
                   "evaluated on every run",
                   "harness/props/c05.py, c05_lib.py, vlib/scen.py (generators, snapshot oracle, Coq term printers)",
                   "libm cos / sin (oracle inputs; c*c+s*s = 1 checked to 4 ulp per case); IEEE-754 arithmetic of "
                   "CPython / numpy (rounded; model exact over Q); shapely's ring orientation in Polygon.__init__"]
    ctx.build_props(extra_targets=("Corr/C05.vo",))
    if ctx.tier == "thorough":
        ctx.coqchk()
    n = ctx.n(600, 9000)
    cases = load_corpus(ctx.prop) + gen(ctx.rng, n)
    terms, used = [], []
    trig_bad = 0
    excluded = [0]

    def process(cs, with_corr=True):
        nonlocal trig_bad
        for c in cs:
            ctx.count(c, nontrivial(c), f"{c['kind']}|{L.angle_class(c['a'])}")
            ev = evaluate(c)
            r = judge(c, ev)
            if r:
                ctx.fail(r[0], r[1], c)
            cc, ss = math.cos(angle_of(c)), math.sin(angle_of(c))
            if abs(cc * cc + ss * ss - 1.0) > 4 * 2.3e-16:
                trig_bad += 1
            if ev.get("nonsimple"):
                excluded[0] += 1
            elif with_corr:
                terms.append(coq_case(c, ev))
                used.append((c, ev))

    process(cases)
    defs = f"Definition tau : Q := {qq(TWO_PI)}.\nDefinition chk := check tau.\n"
    bad, errors = ctx.coq_bad_indices("corr", IMPORTS, defs, terms, "chk", shard=60)
    ctx.coverage["correspondence_cases"] = len(terms)
    ctx.coverage["excluded_nonsimple_polygon"] = excluded[0]
    ctx.coverage["trig_hypothesis_checked"] = len(cases)
    ctx.coverage["trig_hypothesis_violated"] = trig_bad
    ctx.coverage["tolerance"] = "1e-9 * (max(1,|x|) + largest input magnitude); orientations modulo 2pi"
    for e in errors:
        ctx.corr_break("Corr.C05.check (coqc failed)", e)
    for i in bad:
        c, ev = used[i]
        ctx.corr_break("Corr.C05.check: Model/Transform.v + Shapes.v + Scene.v vs translate_rotate",
                       dict(c, observed=ev.get("exc", "flat list of %d numbers" % len(ev.get("after_flat", [])))))
    ctx.log(f"corr cases={len(terms)} disagree={len(bad)} coq_errors={len(errors)} trig_bad={trig_bad}")
    if trig_bad:
        ctx.corr_break("libm cos/sin: c*c+s*s = 1 within 4 ulp", {"count": trig_bad})
    if (ctx.proof_breaks or ctx.corr_breaks) and not ctx.failures:
        ctx.log(f"proof/correspondence broke ({len(ctx.proof_breaks)}/{len(ctx.corr_breaks)}); widening the search")
        process(gen(ctx.rng, n * 6), with_corr=False)
    return ctx.finish(RULE, assumptions=ASSUME)
