"""C19 — rendering is total and shows the model at the selected time.

cases   {"k": "param",  "kw": {...}, "ops": [[path, name, valspec], ...]}
            constructor call MPDrawParams(**kw) + assignments on (nested) parameter groups
        {"k": "render", "seed": s, "world": {...}, "kw": {...}, "ops": [...], "exact": bool, "route": ..., ...}
            a generated scenario + planning-problem set (rebuilt from the sub-seed through the public constructors),
            a parameter setting, drawn with MPRenderer on the Agg backend and rendered
oracle  the property statement (written here independently of the Coq model):
          * draw + render raise nothing (totality; see EXCLUDED below for what is not judged)
          * exact cases (shapes on; icons, signals, trajectories, extra occupancies, history, states off): the
            patches in MPRenderer.obstacle_patches after the scenario was drawn are the occupancies
            obstacle.occupancy_at_time(time_begin) of every obstacle that has one (+ for dynamic obstacles with a
            set-based prediction those at time_begin < t < time_end); lanelets drawn = all / the selected ids;
            planning problems drawn = all / the selected ids
          * param cases: after group.name = v every group below it that declares name holds v, every other field
            of every group of the whole tree is what it was, no attribute is created
corr    Corr/C19.v: check_param (Model/DrawParams.v: whole tree after the sequence, exact) and check_sel
        (Model/RenderSel.v via Model/RenderParams.v: patches as multiset of shape ids, lanelet ids, planning problem
        ids), evaluated with vm_compute on the same cases
tables  coq/Gen/Tables_C19.v regenerated from draw_params.py by props/c19_gen.py before the proofs are built"""
import dataclasses
import glob
import os
import random
import traceback
import warnings

import matplotlib

matplotlib.use("Agg")
import matplotlib.collections as mcoll  # noqa: E402
import matplotlib.patches as mpatches  # noqa: E402
import matplotlib.pyplot as plt  # noqa: E402
import matplotlib.text as mtext  # noqa: E402
import numpy as np  # noqa: E402

from vlib import scen  # noqa: E402
from vlib.core import CASES, qz, qb, qstr, qlist  # noqa: E402
from vlib.flow import load_corpus  # noqa: E402
from props import c19_gen  # noqa: E402

from commonroad.common.util import Interval  # noqa: E402
from commonroad.geometry.shape import Circle, Polygon, Rectangle, ShapeGroup  # noqa: E402
from commonroad.prediction.prediction import SetBasedPrediction, TrajectoryPrediction  # noqa: E402
from commonroad.scenario.obstacle import (DynamicObstacle, EnvironmentObstacle, PhantomObstacle,  # noqa: E402
                                          StaticObstacle)
from commonroad.scenario.scenario import Scenario, ScenarioID  # noqa: E402
from commonroad.visualization import draw_params as DP  # noqa: E402
from commonroad.visualization.icons import supported_icons  # noqa: E402
from commonroad.visualization.mp_renderer import MPRenderer  # noqa: E402

RULE = ("render cases: generated scenarios (0-4 lanes x 2-4 segments with signs, lights, stop lines, an intersection; or "
        "no lanelets at all; 0-5 obstacles of the roles static / dynamic with trajectory, set-based or no prediction / "
        "phantom / environment, initial time steps 0-6, horizons 1-5 steps, rectangle / circle / polygon / group shapes, "
        "a third with uncertain positions / orientations) + 1-3 planning problems x parameter settings (exact: shapes on "
        "and every decoration off; total: every boolean flag flipped with probability 0.3, id filters None / [] / "
        "subset / unknown id, history steps and step sizes, colours, units; set through the constructor, at the top "
        "level, on nested groups, or by assigning a whole group) x time windows placed before, at, inside, at the end "
        "of and after the obstacle horizons (time_end - time_begin in {0, 1, 2, 5, 200}, one in ten inverted) x draw "
        "route (renderer's own parameters / parameters passed to draw / draw_list).  param cases: 1-6 assignments of "
        "values of the declared types on random groups of a fresh MPDrawParams.  evaluations = cases; non-trivial = "
        "the window separates the obstacles (something is drawn and some obstacle is not) resp. an assignment reaches "
        "more than one group")
ASSUME = ["totality is judged for draw + MPRenderer.render() (+ rasterising the figure when no traffic sign / light box "
          "is in it) with parameter values of the declared types and in the range matplotlib accepts (opacity in [0,1], "
          "positive widths / radii / scale factors, valid colour strings)",
          "EXCLUDED from the totality judgement because they fail on the repository's own fixture scenarios in this "
          "sandbox for reasons unrelated to the property: render(show=True) (Figure.show of matplotlib 3.11 refuses "
          "figures not managed by pyplot), create_video (matplotlib's movie writer no longer accepts extra_args), "
          "rasterising figures that contain traffic sign / light boxes (TextAreaAutoscale.get_bbox uses the private "
          "Text._get_layout whose result changed)",
          "the drawn-set clause is judged for windows with time_begin <= time_end; for inverted windows it is reported "
          "under its own signature (see fixes/C19.findings.json)",
          "occupancy at t = time_end of a set-based dynamic obstacle and later-step occupancies of phantom obstacles "
          "may or may not be drawn (the statement does not fix them); regions of uncertain initial positions are "
          "allowed next to the occupancies",
          "the occupancy itself (shape placed at the state) is property C04: Obstacle.occupancy_at_time is used as the "
          "reference for the vertices"]

PRIVATE = c19_gen.PRIVATE
COLORS = ["red", "k", "#00ff00", "#1d7eea", "#12345680", "blue", "w"]
T_LO, T_HI = -16, 34      # time steps at which the predictions are tabulated for the model


# ------------------------------------------------------------------------------------ parameter trees
def groups(p, path=()):
    """(path, group) of every nested parameter group"""
    yield path, p
    for f in dataclasses.fields(p):
        if f.name == PRIVATE:
            continue
        v = getattr(p, f.name)
        if isinstance(v, DP.BaseParam):
            yield from groups(v, path + (f.name,))


def snap(p):
    """structural snapshot of a group: every instance attribute (so created attributes are seen)"""
    out = {"__class__": type(p).__name__}
    for k, v in vars(p).items():
        if k == PRIVATE:
            continue
        out[k] = snap(v) if isinstance(v, DP.BaseParam) else (type(v).__name__, repr(v))
    return out


_DECL = {}


def decl():
    """class name -> [(field, tag)] from the translator (live module)"""
    if not _DECL:
        t = c19_gen.tables()
        for c, fs in t["classes"].items():
            _DECL[c] = [(k, tag) for k, (_, tag) in fs]
    return _DECL


def mk_value(spec, ids=None):
    """valspec (JSON) -> Python value"""
    t = spec["t"]
    if t == "node":
        obj = getattr(DP, spec["cls"])()
        for k, s in spec.get("set", []):
            setattr(obj, k, mk_value(s))
        return obj
    if t == "none":
        return None
    if t == "float":
        return float(spec["v"])
    if t == "ids":
        return list(spec["v"])
    return spec["v"]


def rand_scalar(rng, name, tag, sane, id_pool=()):
    """a value of the declared type; [sane]: within what matplotlib accepts for that parameter"""
    if tag == "bool":
        return {"t": "bool", "v": rng.random() < 0.5}
    if tag == "int":
        if name in ("time_begin", "time_end"):
            return {"t": "int", "v": rng.choice([-2, 0, 1, 2, 3, 4, 5, 7, 9, 12, 200])}
        if name in ("steps", "step_size"):
            return {"t": "int", "v": rng.choice([0, 1, 2, 3, -1] if name == "steps" else [1, 2, 3, 0, -1])}
        if name == "opacity":
            return {"t": "int", "v": rng.choice([0, 1])}
        return {"t": "int", "v": rng.choice([1, 5, 9, 20, 31])}
    if tag in ("float", "optfloat"):
        if tag == "optfloat" and rng.random() < 0.3:
            return {"t": "none"}
        if name in ("opacity", "fade_color"):
            return {"t": "float", "v": rng.choice([0.0, 0.1, 0.25, 0.5, 1.0])}
        if name == "relative_angle":
            return {"t": "float", "v": rng.choice([0.0, 0.5, -1.25])}
        if sane:
            return {"t": "float", "v": rng.choice([0.25, 0.5, 1.0, 1.5, 2.0, 17.0, 24.5])}
        return {"t": "float", "v": rng.choice([0.0, -1.5, 0.1, 0.30000000000000004, 1e-3, 2.5, 1e6])}
    if tag in ("str", "optstr"):
        if tag == "optstr" and rng.random() < 0.3:
            return {"t": "none"}
        if name == "speed_limit_unit":
            return {"t": "str", "v": rng.choice(["auto", "mph", "kmh"])}
        if name == "label":
            return {"t": "str", "v": rng.choice(["", "ego", "start 1"])}
        return {"t": "str", "v": rng.choice(COLORS)}
    if tag == "optintlist":
        r = rng.random()
        pool = list(id_pool)
        if r < 0.25:
            return {"t": "none"}
        if r < 0.4:
            return {"t": "ids", "v": []}
        if r < 0.5 or not pool:
            return {"t": "ids", "v": [9999]}
        return {"t": "ids", "v": sorted(rng.sample(pool, rng.randint(1, len(pool))))}
    return None


def group_table():
    """path -> class name of the default tree"""
    return {path: type(g).__name__ for path, g in groups(DP.MPDrawParams())}


def rand_node_value(rng, cls):
    sets = []
    for k, tag in decl()[cls]:
        if tag.startswith("node:") or tag == "dict" or k in ("time_begin", "time_end", "antialiased"):
            continue
        if rng.random() < 0.25:
            s = rand_scalar(rng, k, tag, True)
            if s is not None:
                sets.append([k, s])
    return {"t": "node", "cls": cls, "set": sets}


def rand_op(rng, table, sane, allow_node, id_pools=None):
    """one assignment  root.path.name = value  with a value of a type declared for that name somewhere below"""
    path = rng.choice(sorted(table)) if rng.random() < 0.55 else ()
    below = [q for q in table if q[:len(path)] == path]
    names = {}
    for q in below:
        for k, tag in decl()[table[q]]:
            names.setdefault(k, []).append((q, tag))
    if rng.random() < 0.06:
        return [list(path), "no_such_parameter", {"t": "int", "v": 3}]
    cand = sorted(names)
    if not allow_node:
        cand = [k for k in cand if not any(t.startswith("node:") for _, t in names[k])]
    own = dict(decl()[table[path]]) if path in table else {}
    for _ in range(20):
        name = rng.choice(cand)
        q, tag = rng.choice(names[name])
        if name in own:
            # the declared type is the one of the group the assignment is made on (DESIGN 2.7) ...
            q, tag = path, own[name]
        elif tag.startswith("node:") and len({t for _, t in names[name]}) > 1:
            continue  # ... and a group-valued name that nested groups declare with different classes has none
        if tag == "dict":
            continue
        if tag.startswith("node:"):
            return [list(path), name, rand_node_value(rng, tag[5:])]
        pool = ()
        if id_pools and name in ("draw_ids", "show_traffic_signs"):
            pool = id_pools["lanelets" if "lanelet_network" in q else "pps"] if name == "draw_ids" else id_pools["signs"]
        s = rand_scalar(rng, name, tag, sane, pool)
        if s is not None:
            return [list(path), name, s]
    return [list(path), "time_begin", {"t": "int", "v": 1}]


def assign(g, name, value, how):
    """group.name = value, or group[name] = value (BaseParam.__setitem__)"""
    if how and how[0] == "item":
        g[name] = value
    else:
        setattr(g, name, value)


def build_params(case):
    kw = {k: mk_value(s) for k, s in case.get("kw", {}).items()}
    p = DP.MPDrawParams(**kw)
    for path, name, spec, *how in case["ops"]:
        g = p
        for c in path:
            g = getattr(g, c)
        assign(g, name, mk_value(spec), how)
    return p


# ------------------------------------------------------------------------------------ param oracle
def same(a, b):
    return snap(a) == snap(b) if isinstance(a, DP.BaseParam) and isinstance(b, DP.BaseParam) else \
        (type(a) is type(b) and repr(a) == repr(b))


def check_assignment(before, root, path, name, value):
    """the statement of the property for one assignment; [before] = snapshot of the whole tree before"""
    vs = snap(value) if isinstance(value, DP.BaseParam) else (type(value).__name__, repr(value))

    def walk(b, g, inside, where):
        # b: snapshot before, g: group now
        now = snap(g)
        if set(now) != set(b):
            return f"{where or 'root'}: attributes {sorted(set(now) ^ set(b))} appeared / vanished"
        for k, old in b.items():
            if k == "__class__":
                if now[k] != old:
                    return f"{where}: class changed"
                continue
            if inside and k == name:
                if now[k] != vs:
                    return f"{'.'.join(where + (k,))} declares {name} but holds {now[k]!r:.80} instead of the assigned value"
                continue
            if isinstance(old, dict):
                child = getattr(g, k)
                if not isinstance(child, DP.BaseParam):
                    return f"{'.'.join(where + (k,))}: nested group replaced by {child!r:.60}"
                r = walk(old, child, inside or where + (k,) == tuple(path), where + (k,))
                if r:
                    return r
            elif now[k] != old:
                return f"{'.'.join(where + (k,))} changed from {old[1]:.40} to {now[k]!r:.60} although {'.'.join(path) or 'root'}.{name} was assigned"
        return None

    return walk(before, root, tuple(path) == (), ())


def run_param_case(case):
    """returns (failure | None, coq term | None)"""
    warnings.simplefilter("ignore")
    kw = {k: mk_value(s) for k, s in case.get("kw", {}).items()}
    p = DP.MPDrawParams(**kw)
    # constructor clause: keyword arguments of the base fields reach every group
    for path, g in groups(p):
        for k in ("time_begin", "time_end", "antialiased"):
            if getattr(g, k) != getattr(p, k):
                return (f"param:construct:{k} not propagated", f"MPDrawParams({kw}) leaves {'.'.join(path)}.{k} = "
                        f"{getattr(g, k)!r} while the root holds {getattr(p, k)!r}"), None
    for k, v in kw.items():
        if not same(getattr(p, k), v):
            return (f"param:construct:{k} lost", f"MPDrawParams({k}={v!r}) holds {getattr(p, k)!r}"), None
    for path, name, spec, *how in case["ops"]:
        g = p
        for c in path:
            g = getattr(g, c)
        value = mk_value(spec)
        before = snap(p)
        assign(g, name, value, how)
        r = check_assignment(before, p, path, name, value)
        if r:
            cls = type(g).__name__
            kind = "declared" if any(k == name for k, _ in decl()[cls]) else "nested-only"
            return (f"param:set:{kind} name:{'group' if spec['t'] == 'node' else 'scalar'} value", f"{cls}: {'.'.join(path) or 'root'}.{name} = {value!r:.60}: {r}"), None
    return None, coq_pcase(case, p)


def coq_valspec(spec):
    return c19_gen.coq_val(mk_value(spec))


def coq_ops(ops):
    return qlist([f"(mkOp {qlist([qstr(c) for c in path])} {qstr(name)} {coq_valspec(spec)})" for path, name, spec, *_ in ops])


def coq_kw(kw):
    return qlist([f"({qstr(k)}, {coq_valspec(s)})" for k, s in kw.items()])


def coq_pcase(case, p):
    return f"(mkPC {coq_kw(case.get('kw', {}))} {coq_ops(case['ops'])} {c19_gen.coq_node(p)})"


# ------------------------------------------------------------------------------------ worlds
def build_world(case):
    w = case["world"]
    rng = random.Random(case["seed"])
    sc = Scenario(0.1, ScenarioID(False, "ZAM", "Test", rng.randint(1, 9), rng.randint(1, 9), "T", 1))
    if w["net"] != "empty":
        sc.add_objects(scen.rand_network(rng, with_extras=w["net"] == "full"))
    kinds = ("rect", "circ", "poly", "group") if w.get("groups") else ("rect", "circ", "poly")
    for i, role in enumerate(w["roles"]):
        unc = w["unc"] and rng.random() < 0.6
        sc.add_objects(scen.rand_obstacle(rng, 500 + i, role=role, shape_kinds=kinds, uncertain=unc,
                                          t0=rng.choice([0, 0, 1, 2, 4, 6]), interval_occ=bool(w.get("itv"))))
    if w.get("openring"):
        # occupancy polygons that were re-shaped in place through the public vertices setter, with the ring left open
        # (the setter stores the array as given; the constructor closes it)
        r2 = random.Random(case["seed"] ^ 0x77)
        for o in sc.obstacles:
            p = getattr(o, "prediction", None)
            if isinstance(p, SetBasedPrediction):
                for oc in p.occupancy_set:
                    shapes = oc.shape.shapes if isinstance(oc.shape, ShapeGroup) else [oc.shape]
                    for sh in shapes:
                        if isinstance(sh, Polygon) and r2.random() < 0.7:
                            sh.vertices = np.array(sh.vertices[:-1], dtype=float)
    # nothing requires a set-based prediction to store its occupancies chronologically (the lookup is by time step):
    # half of them are rotated, through the public setter (seed C19-14: the horizon read off the last element)
    r3 = random.Random(case["seed"] ^ 0x99)
    for o in sc.obstacles:
        p = getattr(o, "prediction", None)
        if isinstance(p, SetBasedPrediction) and len(p.occupancy_set) > 1 and r3.random() < 0.5:
            k = r3.randrange(1, len(p.occupancy_set))
            p.occupancy_set = p.occupancy_set[k:] + p.occupancy_set[:k]
    lids = [la.lanelet_id for la in sc.lanelet_network.lanelets]
    pps = scen.rand_planning_problem_set(rng, n=w["npp"], lanelet_ids=lids or None)
    # a third of the predicted vehicles are predicted with a footprint of their own (a safety margin around the
    # obstacle's shape); assigned through the public setter as the last thing, so nothing has been computed yet
    r3 = random.Random(case["seed"] ^ 0x3131)
    from commonroad.prediction.prediction import TrajectoryPrediction as _TP
    for o in sc.obstacles:
        p = getattr(o, "prediction", None)
        if isinstance(p, _TP) and isinstance(p.shape, Rectangle) and r3.random() < 0.35:
            p.shape = Rectangle(p.shape.length + 1.5, p.shape.width + 0.75, p.shape.center.copy(), p.shape.orientation)
    return sc, pps


def rand_world(rng):
    n = rng.choice([0, 1, 2, 3, 3, 4, 5])
    return {"net": rng.choice(["full", "full", "full", "plain", "empty"]),
            "roles": [rng.choice(["static", "dynamic", "dynamic", "dynamic_set", "dynamic_set", "dynamic_none", "env",
                                  "phantom"]) for _ in range(n)],
            "unc": rng.random() < 0.3, "groups": rng.random() < 0.3, "npp": rng.randint(1, 3),
            "itv": rng.random() < 0.35, "openring": rng.random() < 0.3}


def last_step(pred):
    """final_time_step as the integer the renderer's guards compare (an Interval compares by its end)"""
    f = pred.final_time_step
    return int(f.end) if isinstance(f, Interval) else int(f)


def horizon_times(sc):
    ts = {0}
    for o in sc.obstacles:
        if isinstance(o, DynamicObstacle):
            t0 = o.initial_state.time_step
            ts |= {t0 - 1, t0, t0 + 1}
            if o.prediction is not None:
                f = last_step(o.prediction)
                ts |= {f - 1, f, f + 1, f + 3}
        elif isinstance(o, PhantomObstacle) and o.prediction is not None:
            f = last_step(o.prediction)
            ts |= {o.prediction.initial_time_step - 1, o.prediction.initial_time_step, f, f + 1}
    return sorted(ts)


# the setting of the statement, assigned explicitly (no default is relied on)
EXACT_SET = [(["dynamic_obstacle"], "draw_shape", True), (["dynamic_obstacle"], "draw_icon", False),
             (["dynamic_obstacle"], "draw_signals", False), (["dynamic_obstacle", "trajectory"], "draw_trajectory", False),
             (["dynamic_obstacle", "occupancy"], "draw_occupancies", False),
             (["dynamic_obstacle", "history"], "draw_history", False), (["dynamic_obstacle"], "draw_direction", False),
             (["dynamic_obstacle"], "draw_initial_state", False), (["phantom_obstacle"], "draw_shape", True),
             (["phantom_obstacle", "occupancy"], "draw_occupancies", False)]


def gen_render_case(rng, exact=None):
    case = {"k": "render", "seed": rng.randrange(1 << 30), "world": rand_world(rng)}
    sc, pps = build_world(case)
    exact = rng.random() < 0.6 if exact is None else exact
    pools = {"lanelets": [la.lanelet_id for la in sc.lanelet_network.lanelets],
             "pps": list(pps.planning_problem_dict), "signs": [s.traffic_sign_id for s in sc.lanelet_network.traffic_signs]}
    tb = rng.choice(horizon_times(sc))
    r = rng.random()
    te = tb + rng.choice([0, 1, 2, 5, 200]) if r < 0.9 else tb - rng.choice([1, 2, 6])
    kw, ops = {}, []
    how = rng.random()
    if how < 0.12 and 0 in horizon_times(sc):
        # one kind of obstacle first gets its own window, then the window is reset at the top level to the values the
        # top level holds anyway (the defaults 0 / 200): the reset applies to every drawn object
        tb, te = 0, 200
        g = rng.choice(["dynamic_obstacle", "dynamic_obstacle", "static_obstacle", "phantom_obstacle"])
        ops += [[[g], "time_begin", {"t": "int", "v": rng.choice([1, 2, 3, 5])}],
                [[g], "time_end", {"t": "int", "v": rng.choice([4, 6, 50])}],
                [[], "time_begin", {"t": "int", "v": 0}], [[], "time_end", {"t": "int", "v": 200}]]
    elif how < 0.25:
        kw = {"time_begin": {"t": "int", "v": tb}, "time_end": {"t": "int", "v": te}}
    else:
        ops += [[[], "time_begin", {"t": "int", "v": tb}], [[], "time_end", {"t": "int", "v": te}]]
        if how > 0.85:  # another window for one kind of obstacle, set on its own group
            g = rng.choice(["dynamic_obstacle", "static_obstacle", "phantom_obstacle", "environment_obstacle"])
            ops.append([[g], rng.choice(["time_begin", "time_end"]), {"t": "int", "v": tb + rng.choice([-1, 1, 2])}])
    table = group_table()
    if exact:
        for path, name, v in EXACT_SET:
            ops.append([path, name, {"t": "bool", "v": v}])
        # things that do not touch the obstacle shapes
        for _ in range(rng.randint(0, 3)):
            o = rand_op(rng, {q: c for q, c in table.items() if q[:1] in (("lanelet_network",), ("planning_problem_set",),
                                                                        ("traffic_light",), ("traffic_sign",))},
                        True, False, pools)
            if o[0] and o[1] not in ("time_begin", "time_end", "fill_lanelet", "antialiased"):
                ops.append(o)
        if rng.random() < 0.4:
            ops.append([["lanelet_network"], "draw_ids", rand_scalar(rng, "draw_ids", "optintlist", True, pools["lanelets"])])
        if rng.random() < 0.4:
            ops.append([["planning_problem_set"], "draw_ids", rand_scalar(rng, "draw_ids", "optintlist", True, pools["pps"])])
    else:
        for path, cls in sorted(table.items()):
            for k, tag in decl()[cls]:
                if tag == "bool" and k != "antialiased" and rng.random() < 0.3:
                    ops.append([list(path), k, {"t": "bool", "v": rng.random() < 0.6}])
        for _ in range(rng.randint(0, 5)):
            o = rand_op(rng, table, True, False, pools)
            if o[1] not in ("time_begin", "time_end"):
                ops.append(o)
        if rng.random() < 0.5:  # the decorations that place something at a state
            for path, k in ((["dynamic_obstacle"], "draw_icon"), (["dynamic_obstacle"], "show_label"),
                            (["dynamic_obstacle"], "draw_initial_state"), (["dynamic_obstacle", "state"], "draw_arrow"),
                            (["dynamic_obstacle"], "draw_direction"), (["dynamic_obstacle", "history"], "draw_history"),
                            (["dynamic_obstacle", "occupancy"], "draw_occupancies"),
                            (["phantom_obstacle", "occupancy"], "draw_occupancies"),
                            (["lanelet_network", "traffic_light"], "show_label"),
                            (["lanelet_network", "traffic_sign"], "draw_traffic_signs"),
                            (["lanelet_network", "traffic_sign"], "show_label"),
                            (["lanelet_network", "intersection"], "draw_intersections"),
                            (["lanelet_network", "intersection"], "show_label"),
                            (["lanelet_network", "lanelet"], "draw_border_vertices")):
                if rng.random() < 0.6:
                    ops.append([path, k, {"t": "bool", "v": True}])
            if rng.random() < 0.4:
                ops.append([["dynamic_obstacle"], "draw_shape", {"t": "bool", "v": False}])
            if rng.random() < 0.7:
                ops.append([["dynamic_obstacle", "history"], "steps", {"t": "int", "v": rng.choice([1, 2, 3, 0])}])
                ops.append([["dynamic_obstacle", "history"], "step_size", {"t": "int", "v": rng.choice([1, 2, 3])}])
        if rng.random() < 0.25:  # a whole group assigned, last
            o = rand_op(rng, table, True, True, pools)
            if o[2]["t"] == "node":
                ops.append(o)
    # None is a parameter value only where the field is declared Optional; an assignment propagates to every field of
    # that name below, so a None for a name that is non-optional somewhere in the tree is not a valid parameter tree
    nonopt = {k for cls in decl().values() for k, tag in cls if not str(tag).startswith("opt")}
    ops = [o for o in ops if not (isinstance(o[2], dict) and o[2].get("t") == "none" and o[1] in nonopt)]
    case.update({"kw": kw, "ops": ops, "exact": exact,
                 "route": rng.choice(["own", "own", "arg"] if exact else ["own", "arg", "list", "frames"]),
                 "limits": None if rng.random() < 0.7 else [-10, 40, -10, 25],
                 "focus": (not exact) and rng.random() < 0.15, "yaml": rng.random() < 0.12})
    return case


# ------------------------------------------------------------------------------------ canonical shapes
def vkey(arr):
    a = np.asarray(arr, dtype=float)
    a = a.reshape(-1, a.shape[-1])[:, :2]
    while len(a) > 1 and np.array_equal(a[0], a[-1]):
        a = a[:-1]
    return ("poly",) + tuple(round(float(x), 7) + 0.0 for x in a.flatten())


def shape_keys(shape):
    if isinstance(shape, ShapeGroup):
        return [k for s in shape.shapes for k in shape_keys(s)]
    if isinstance(shape, Circle):
        return [("ell", round(float(shape.center[0]), 7) + 0.0, round(float(shape.center[1]), 7) + 0.0,
                 round(2.0 * shape.radius, 7), round(2.0 * shape.radius, 7))]
    if isinstance(shape, (Rectangle, Polygon)):
        return [vkey(shape.vertices)]
    raise TypeError(f"shape {type(shape).__name__}")


def patch_key(p):
    if isinstance(p, mpatches.Ellipse):
        c = p.get_center()
        return ("ell", round(float(c[0]), 7) + 0.0, round(float(c[1]), 7) + 0.0, round(float(p.get_width()), 7),
                round(float(p.get_height()), 7))
    if isinstance(p, mpatches.Polygon):
        return vkey(p.get_xy())
    return ("other", type(p).__name__, id(p))


class Ids:
    def __init__(self):
        self.d = {}

    def __call__(self, key):
        return self.d.setdefault(key, len(self.d) + 1)


# ------------------------------------------------------------------------------------ running the renderer
def site_of(e):
    fr = [f for f in traceback.extract_tb(e.__traceback__) if "/commonroad/" in f.filename]
    return fr[-1].name if fr else "outside"


def run_render_case(case):
    """returns (failure | None, coq term | None, info)"""
    warnings.simplefilter("ignore")
    sc, pps = build_world(case)
    p = build_params(case)
    via_yaml = False
    if case.get("yaml"):
        # the parameters are saved as a stylesheet and loaded again (BaseParam.save / MPDrawParams.load): what is judged
        # is the drawing against the LOADED parameters; a tree the stylesheet format refuses is used as built
        import shutil
        import tempfile
        d = tempfile.mkdtemp(prefix="verif-c19-", dir="/var/tmp")
        try:
            p.save(os.path.join(d, "p.yaml"))
            p = DP.MPDrawParams.load(os.path.join(d, "p.yaml"))
            via_yaml = True
        except Exception:  # noqa
            pass
        finally:
            shutil.rmtree(d, ignore_errors=True)
    fig, ax = plt.subplots()
    info = {"drawn": 0, "skipped": 0}
    try:
        phase = "draw"
        try:
            focus = None
            if case.get("focus"):
                dyn = [o for o in sc.obstacles if isinstance(o, DynamicObstacle)]
                focus = dyn[0] if dyn else None
            own = case["route"] in ("own", "frames")
            rnd = MPRenderer(draw_params=p if own else None, ax=ax, plot_limits=case.get("limits"), focus_obstacle=focus)
            other = None
            if case["seed"] % 3 == 0:
                # a second renderer is alive (one per subplot): it has drawn the same scenario with default parameters
                # (after the renderer of the case was constructed) and is not rendered before that one is done; what it
                # collected is its own business
                fig2, ax2 = plt.subplots()
                other = MPRenderer(ax=ax2)
                try:
                    sc.draw(other)
                except Exception:  # noqa - not what is judged
                    pass
            arg = None if own else p
            stale = None
            if case["route"] == "frames":
                # the per-frame sequence of create_video, by hand: an earlier frame (window moved by one step), then
                # the frame of the case; what is left on the axes must be the shapes collected for the last frame
                import copy as _copy
                p_a = _copy.deepcopy(p)
                p_a.time_begin = p_a.time_begin + 1
                rnd.draw_list([sc, pps], p_a)
                rnd.render_static()
                static_ids = {id(c) for c in ax.collections}
                for frame_params in (p_a, p):
                    rnd.remove_dynamic()
                    rnd.clear()
                    rnd.draw_list([sc, pps], frame_params)
                    if frame_params is p:
                        n_pat, n_col, n_art = len(rnd.obstacle_patches), len(rnd.static_collections), 0
                        patches = list(rnd.obstacle_patches)
                        colls = list(rnd.static_collections)
                        annots = [a for a in rnd.static_artists if isinstance(a, mtext.Annotation)]
                    phase = "render"
                    rnd.render_dynamic()
                on_axes = sum(len(c.get_paths()) for c in ax.collections
                              if type(c) is mcoll.PatchCollection and id(c) not in static_ids)
                if on_axes != len(patches):
                    stale = (on_axes, len(patches))
            elif case["route"] == "list":
                rnd.draw_list([sc, pps], arg)
                n_pat, n_col, n_art = len(rnd.obstacle_patches), len(rnd.static_collections), 0
            else:
                sc.draw(rnd, arg)
                n_pat, n_col, n_art = len(rnd.obstacle_patches), len(rnd.static_collections), len(rnd.static_artists)
                pps.draw(rnd, arg)
            if case["route"] != "frames":
                patches = list(rnd.obstacle_patches[:n_pat])
                colls = list(rnd.static_collections[:n_col])
                annots = [a for a in rnd.static_artists[n_art:] if isinstance(a, mtext.Annotation)]
            signs = len(rnd.traffic_signs)
            phase = "render"
            if case["route"] != "frames":
                rnd.render()
            if signs == 0:
                phase = "raster"
                fig.canvas.draw()
            if stale is not None:
                return (("frames:shapes of an earlier frame stay on the axes",
                         f"after the per-frame sequence remove_dynamic / clear / draw_list / render_dynamic the axes hold "
                         f"{stale[0]} obstacle shapes, the renderer collected {stale[1]} for this frame "
                         f"(world {case['world']})"), None, info)
        except Exception as e:  # totality clause
            site = site_of(e)
            return ((f"total:{phase}:{type(e).__name__}:{site}",
                     f"{phase} raised {type(e).__name__}: {str(e)[:120]} in {site} "
                     f"(world {case['world']}, route {case['route']})"), None, info)
    finally:
        plt.close("all")
    # ---------------- observation
    ids = Ids()
    obs_patches = [patch_key(x) for x in patches]
    lanelet_key = {}
    for la in sc.lanelet_network.lanelets:
        lanelet_key[vkey(np.concatenate((la.right_vertices[:, :2], np.flip(la.left_vertices[:, :2], 0))))] = la.lanelet_id
    obs_lanelets = []
    for col in colls:
        if isinstance(col, mcoll.PolyCollection):
            for path in col.get_paths():
                obs_lanelets.append(lanelet_key.get(vkey(path.vertices), -1))
    pp_xy = {}
    for pid, pp in pps.planning_problem_dict.items():
        pp_xy.setdefault((round(float(pp.initial_state.position[0]) + 1, 7), round(float(pp.initial_state.position[1]), 7)),
                         []).append(pid)
    obs_pps = []
    for a in annots:
        k = (round(float(a.xy[0]), 7), round(float(a.xy[1]), 7))
        obs_pps.append(pp_xy[k].pop(0) if pp_xy.get(k) else -1)
    # ---------------- oracle (statement)
    fail = judge_render(case, sc, pps, p, obs_patches, obs_lanelets, obs_pps, info)
    # ---------------- correspondence term
    fill = p.lanelet_network.lanelet.fill_lanelet is True
    term = ("(mkSC " + qlist([coq_obst(o, ids) for o in sc.obstacles]) + " " + coq_kw(case.get("kw", {})) + " "
            + coq_ops(case["ops"]) + " " + qb(case["exact"] and case["route"] != "list") + " "
            + zl(sorted(ids(k) for k in obs_patches)) + " "
            + zl([la.lanelet_id for la in sc.lanelet_network.lanelets]) + " " + qb(fill) + " " + zl(sorted(obs_lanelets)) + " "
            + zl(list(pps.planning_problem_dict)) + " " + zl(sorted(obs_pps)) + ")")
    return fail, (None if via_yaml else term), info     # the model rebuilds the parameters from the assignments


def zl(xs):
    return qlist([qz(x) for x in xs])


def coq_obst(o, ids):
    def sh(shape):
        return zl([ids(k) for k in shape_keys(shape)])

    def table(fn):
        rows = []
        for t in range(T_LO, T_HI):
            s = fn(t)
            if s is not None:
                rows.append(f"({qz(t)}, {sh(s)})")
        return qlist(rows)

    def unc_of(state):
        return state is not None and getattr(state, "is_uncertain_position", False)

    role, t0, pk, final, shape, pred, unc, punc, icon, lw = "RStatic", 0, "PNone", 0, "[]", "[]", "None", "[]", False, False
    if isinstance(o, PhantomObstacle):
        role = "RPhantom"
        if o.prediction is not None:
            pk, final = "PSet", last_step(o.prediction)
            pred = table(lambda t: getattr(o.prediction.occupancy_at_time_step(t), "shape", None))
    elif isinstance(o, EnvironmentObstacle):
        role, shape = "REnv", sh(o.occupancy_at_time(0).shape)
    else:
        t0 = o.initial_state.time_step
        shape = sh(o.occupancy_at_time(t0).shape)
        if unc_of(o.initial_state):
            unc = f"(Some {sh(o.initial_state.position)})"
        if isinstance(o, DynamicObstacle):
            role = "RDynamic"
            icon = o.obstacle_type in supported_icons()
            lw = hasattr(o.obstacle_shape, "length") and hasattr(o.obstacle_shape, "width")
            pr = o.prediction
            if pr is not None:
                pk = "PTraj" if isinstance(pr, TrajectoryPrediction) else "PSet"
                final = last_step(pr)
                pred = table(lambda t: getattr(pr.occupancy_at_time_step(t), "shape", None))
                if isinstance(pr, TrajectoryPrediction):
                    def pu(t):
                        s = pr.trajectory.state_at_time_step(t)
                        return s.position if unc_of(s) else None
                    punc = table(pu)
    return (f"(mkObst {qz(o.obstacle_id)} {role} {qz(t0)} {pk} {qz(final)} {shape} {pred} {unc} {punc} "
            f"{qb(icon)} {qb(lw)})")


# ------------------------------------------------------------------------------------ render oracle
def window_of(p, o):
    g = (p.dynamic_obstacle if isinstance(o, DynamicObstacle) else p.static_obstacle if isinstance(o, StaticObstacle)
         else p.environment_obstacle if isinstance(o, EnvironmentObstacle) else p.phantom_obstacle)
    return g.time_begin, g.time_end


def judge_render(case, sc, pps, p, obs_patches, obs_lanelets, obs_pps, info):
    from collections import Counter
    # id filters (all cases; lanelets only when the fill polygons are drawn)
    sel = p.planning_problem_set.draw_ids
    want = sorted(i for i in pps.planning_problem_dict if sel is None or i in sel)
    if sorted(obs_pps) != want:
        return (f"sel:planning-problems:{'all' if sel is None else 'filter'}",
                f"planning problems drawn {sorted(obs_pps)}, selected {want} (draw_ids={sel})")
    lsel = p.lanelet_network.draw_ids
    if p.lanelet_network.lanelet.fill_lanelet is True:
        want = sorted(la.lanelet_id for la in sc.lanelet_network.lanelets if lsel is None or la.lanelet_id in lsel)
        if sorted(obs_lanelets) != want:
            return (f"sel:lanelets:{'all' if lsel is None else 'filter'}",
                    f"lanelets drawn {sorted(obs_lanelets)}, expected {want} (draw_ids={lsel})")
    if not case["exact"] or case["route"] in ("list", "frames"):
        return None
    required, allowed, owner = Counter(), Counter(), {}
    for o in sc.obstacles:
        tb, te = window_of(p, o)
        occ = o.occupancy_at_time(tb)
        if occ is not None:
            info["drawn"] += 1
            for k in shape_keys(occ.shape):
                required[k] += 1
                owner.setdefault(k, (o, tb))
        else:
            info["skipped"] += 1
        st = getattr(o, "initial_state", None)
        # the region of an uncertain initial position may be drawn with the obstacle - not for an obstacle that has no
        # occupancy at the selected time (nothing is to be drawn for it: seed C19-15)
        if occ is not None and st is not None and getattr(st, "is_uncertain_position", False):
            for k in shape_keys(st.position):
                allowed[k] += 1
        later = isinstance(o, PhantomObstacle) or (isinstance(o, DynamicObstacle)
                                                   and isinstance(o.prediction, SetBasedPrediction))
        if later:
            for t in range(tb + 1, te + 1):
                oc = o.occupancy_at_time(t)
                if oc is None:
                    continue
                must = isinstance(o, DynamicObstacle) and t < te
                for k in shape_keys(oc.shape):
                    (required if must else allowed)[k] += 1
                    owner.setdefault(k, (o, t))
    got = Counter(obs_patches)
    missing = required - got
    if missing:
        k = next(iter(missing))
        o, t = owner[k]
        tb, te = window_of(p, o)
        kind = type(o).__name__
        if isinstance(o, DynamicObstacle) and te < tb and o.initial_state.time_step > te:
            return ("sel:inverted-window:DynamicObstacle with time_end < initial time step <= time_begin not drawn",
                    f"obstacle {o.obstacle_id} (initial time step {o.initial_state.time_step}) has an occupancy at "
                    f"time_begin={tb} but nothing is drawn for it because time_end={te} < its initial time step")
        when = "time_begin" if t == tb else "a later step of the window"
        return (f"sel:missing:{kind}:{when}",
                f"occupancy of {kind} {o.obstacle_id} at t={t} (window {tb}..{te}) is not among the drawn patches")
    extra = got - required - allowed
    if extra:
        k = next(iter(extra))
        return ("sel:extra-shape", f"a patch is drawn that is no occupancy at the selected time: {str(k)[:100]} "
                                   f"(dynamic window {p.dynamic_obstacle.time_begin}..{p.dynamic_obstacle.time_end})")
    return None


# ------------------------------------------------------------------------------------ driver
def gen_param_case(rng):
    table = group_table()
    kw = {}
    if rng.random() < 0.4:
        for k, tag in (("time_begin", "int"), ("time_end", "int"), ("antialiased", "bool"), ("axis_visible", "bool")):
            if rng.random() < 0.5:
                kw[k] = rand_scalar(rng, k, tag, False)
    if rng.random() < 0.25:
        # a group built earlier (for another frame) and carrying a window of its own is handed to the constructor, with
        # the window of the new frame given at the top level - explicitly, and often with the values that happen to be
        # the defaults (seed C19-16: "equal to the default" taken for "not given")
        tops = [q[0] for q, cls in table.items() if len(q) == 1]
        if tops:
            g = rng.choice(sorted(tops))
            kw[g] = {"t": "node", "cls": table[(g,)], "set": [["time_begin", {"t": "int", "v": rng.choice([5, 3, 40])}],
                                                            ["time_end", {"t": "int", "v": rng.choice([8, 60, 199])}]]}
            if rng.random() < 0.6:
                kw["time_begin"], kw["time_end"] = {"t": "int", "v": 0}, {"t": "int", "v": 200}
            if rng.random() < 0.3:
                kw["antialiased"] = {"t": "bool", "v": True}
    n = rng.randint(1, 6)
    ops = [rand_op(rng, table, False, False) for _ in range(n)]
    if rng.random() < 0.45:
        ops += reassign_ops(rng, table, kw, ops)
    if rng.random() < 0.35:     # a whole group is assigned last only (afterwards slots share one object: DESIGN 2.7)
        o = rand_op(rng, table, False, True)
        ops.append(o)
    ops = [o + ["item"] if rng.random() < 0.25 else o for o in ops]
    return {"k": "param", "kw": kw, "ops": ops}


def scalar_spec(v):
    if isinstance(v, bool):
        return {"t": "bool", "v": v}
    if isinstance(v, int):
        return {"t": "int", "v": v}
    return None


def reassign_ops(rng, table, kw, ops):
    """a nested group is given its own value of a parameter, then a group above it is assigned the value that group
    ALREADY holds (e.g. the window is reset to the default at the top level): the assignment must still reach the
    nested group.  Values are read off the parameters built so far."""
    try:
        p = build_params({"kw": kw, "ops": ops})
    except Exception:  # noqa - judged when the case itself runs
        return []
    cand = []
    for q, cls in table.items():
        if not q:
            continue
        for k, tag in decl()[cls]:
            if tag not in ("int", "bool"):
                continue
            for cut in range(len(q)):
                a = q[:cut]
                if a in table and any(k == k2 for k2, _ in decl()[table[a]]):
                    cand.append((q, a, k, tag))
    if not cand:
        return []
    base = [c for c in cand if c[2] in ("time_begin", "time_end")]
    q, a, k, tag = rng.choice(base if base and rng.random() < 0.6 else cand)
    g = p
    for c in a:
        g = getattr(g, c)
    cur = scalar_spec(getattr(g, k))
    if cur is None:
        return []
    other = {"t": "bool", "v": not cur["v"]} if tag == "bool" else {"t": "int", "v": cur["v"] + rng.choice([1, 3, 10, -2])}
    out = [[list(q), k, other], [list(a), k, cur]]
    if rng.random() < 0.3:
        out.append([list(q), k, other])
    return out


def oracle(case):
    """--replay: the property statement on one recorded case"""
    if case.get("k") == "param":
        return run_param_case(case)[0]
    return run_render_case(case)[0]


IMPORTS = ("From Coq Require Import ZArith QArith String List Bool NArith.\nImport ListNotations.\n"
           "From CR Require Import Model.DrawParams Model.RenderSel Model.RenderParams Gen.Tables_C19 Corr.C19.\n"
           "Open Scope string_scope.\nOpen Scope list_scope.\n")


def corr(ctx, pterms, pcases, sterms, scases):
    bad, errors = ctx.coq_bad_indices("cparam", IMPORTS, "", pterms, "check_param", shard=ctx.n(12, 25))
    for e in errors:
        ctx.corr_break("Corr.C19.check_param (coqc failed)", e)
    for i in bad:
        ctx.corr_break("Corr.C19.check_param: Model/DrawParams.v vs draw_params.BaseParam (whole tree after the assignments)",
                       pcases[i])
    bad2, errors2 = ctx.coq_bad_indices("csel", IMPORTS, "", sterms, "check_sel", shard=ctx.n(40, 100))
    for e in errors2:
        ctx.corr_break("Corr.C19.check_sel (coqc failed)", e)
    for i in bad2[:3]:
        ok, out = ctx.coq_eval(f"explain_{i}", IMPORTS, f"Eval vm_compute in (explain_sel {sterms[i]}).")
        scases[i] = dict(scases[i], model_predicts=out[-600:] if ok else "?", coq_case=sterms[i][:1500])
        try:
            os.remove(os.path.join(CASES, f"{ctx.prop}_explain_{i}.v"))
        except OSError:
            pass
    for i in bad2:
        ctx.corr_break("Corr.C19.check_sel: Model/RenderSel.v vs MPRenderer (obstacle_patches / lanelets / planning problems)",
                       scases[i])
    ctx.coverage["correspondence_param_cases"] = len(pterms)
    ctx.coverage["correspondence_render_cases"] = len(sterms)
    ctx.log(f"corr param={len(pterms)} disagree={len(bad)} render={len(sterms)} disagree={len(bad2)} "
            f"coq_errors={len(errors) + len(errors2)}")


def run(ctx):
    warnings.filterwarnings("ignore")
    ctx.trusted = ["Coq 8.16.1 kernel + vm_compute (no native_compute)",
                   "axioms: none (Print Assumptions: Closed under the global context for every theorem)",
                   "harness/props/c19_gen.py: translator of the dataclass trees of draw_params.py into "
                   "coq/Gen/Tables_C19.v (fail-closed, regenerated on every run)",
                   "hand-written models coq/Model/DrawParams.v (draw_params.py:26-52), coq/Model/RenderSel.v "
                   "(mp_renderer.py:454-720, 1047-1049, 1490-1492), coq/Model/RenderParams.v, tied to the code by "
                   "coq/Corr/C19.v on every run",
                   "matplotlib (Agg backend) and everything the renderer adds besides occupancies: outside every model; "
                   "totality of draw + render is exercised, not proved",
                   "Obstacle.occupancy_at_time / Prediction.occupancy_at_time_step as reference for the shapes (C04)",
                   "harness/props/c19.py (generators, oracle, canonicalisation of patches, Coq term printer)"]
    try:
        t = c19_gen.generate()
        ctx.notes.append(f"Gen/Tables_C19.v regenerated ({'changed' if t['changed'] else 'unchanged'}): "
                         f"{len(t['classes'])} parameter classes, {len(group_table())} groups in MPDrawParams()")
    except c19_gen.TableError as e:
        ctx.proof_breaks.append({"theorem": "table translator (fail-closed)", "where": "harness/props/c19_gen.py",
                                 "log": str(e)})
        ctx.log(f"proof_broken theorem=tables ({e})")
        ctx.obligations = ["table translator"]
        # the generators need the class tables too: nothing can be searched, the broken translation is the report
        return ctx.finish(RULE, assumptions=ASSUME)
    ctx.trusted.insert(3, "harness/props/c19_src.py: parser of the syntax trees of BaseParam.__setattr__ / __post_init__ "
                          "(draw_params.py) into the statement language of coq/Model/DrawParamsSrc.v, regenerated on every "
                          "run as coq/Gen/Src_drawparams.v (fail-closed); C19_setattr_is_source / C19_post_init_is_source "
                          "prove the parsed programs, run by that language's interpreter, equal to set_attr / post_init of "
                          "Model/DrawParams.v; the meaning the interpreter gives to the accepted Python shapes is trusted")
    from props import c19_src
    try:
        changed = c19_src.generate()
        ctx.notes.append(f"Gen/Src_drawparams.v regenerated from the source ({'changed' if changed else 'unchanged'})")
    except Exception as e:   # SourceShapeError, SyntaxError, OSError: the model is no longer shown to be the source
        ctx.proof_breaks.append({"theorem": "source parser:Gen/Src_drawparams.v (C19_setattr_is_source)",
                                 "where": "harness/props/c19_src.py", "log": str(e)})
        ctx.log(f"proof_broken theorem=C19_setattr_is_source (source parser: {e})")
    ctx.build_props()
    if ctx.tier == "thorough":
        ctx.coqchk()
    n_r, n_p = ctx.n(260, 3000), ctx.n(70, 400)
    pterms, pcases, sterms, scases = [], [], [], []
    stats = {"total_ok": 0}

    def do(case):
        if case.get("k") == "param":
            f, term = run_param_case(case)
            reach = sum(1 for _ in case["ops"])
            ctx.count(case, reach > 1, "param")
            if term is not None:
                pterms.append(term)
                pcases.append(case)
        else:
            f, term, info = run_render_case(case)
            ctx.count(case, info["drawn"] > 0 and info["skipped"] > 0, "render-exact" if case["exact"] else "render-total")
            if f is None or not f[0].startswith("total:"):
                stats["total_ok"] += 1
            if term is not None:
                sterms.append(term)
                scases.append(case)
        if f:
            ctx.fail(f[0], f[1], case)

    for c in load_corpus(ctx.prop):
        do(c)
    for _ in range(n_p):
        do(gen_param_case(ctx.rng))
    for _ in range(n_r):
        do(gen_render_case(ctx.rng))
    ctx.coverage["draw_render_completed"] = stats["total_ok"]
    corr(ctx, pterms, pcases, sterms, scases)
    if not ctx.corr_breaks:  # generated case files are kept only when there is something to look at
        for fn in glob.glob(os.path.join(CASES, f"{ctx.prop}_c*.v")):
            os.remove(fn)
    if (ctx.proof_breaks or ctx.corr_breaks) and not ctx.failures:
        ctx.log(f"proof/correspondence broke ({len(ctx.proof_breaks)}/{len(ctx.corr_breaks)}); widening the search")
        broken = [b["case"] for b in ctx.corr_breaks if isinstance(b.get("case"), dict) and "k" in b["case"]]
        for c in broken:
            f = oracle({k: v for k, v in c.items() if k not in ("model_predicts", "coq_case")})
            if f:
                ctx.fail(f[0], f[1], c)
        if not ctx.failures:
            for _ in range(n_p * 4):
                c = gen_param_case(ctx.rng)
                f = run_param_case(c)[0]
                if f:
                    ctx.fail(f[0], f[1], c)
            for _ in range(n_r * 3):
                c = gen_render_case(ctx.rng, exact=True if ctx.rng.random() < 0.8 else None)
                f = run_render_case(c)[0]
                if f:
                    ctx.fail(f[0], f[1], c)
    return ctx.finish(RULE, assumptions=ASSUME)
