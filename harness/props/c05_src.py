"""C05 translator tie: commonroad/geometry/transform.py (translate_rotate, rotate_translate, the two matrix
constructors, to / from homogeneous coordinates) is translated to Gallina on every run (coq/Gen/Src_transform.v);
Proofs/SrcTransform.v proves the translated functions equal to Model/Transform.v, which the C05 theorems are about.
numpy enters through a small static-shape array algebra evaluated at translation time: np.array of a literal is a
matrix of expressions, A.dot(B) is the row-by-column sum written out, an (n, k) array is `map` of a k-tuple of
expressions over the vertex list; math.cos / math.sin are uninterpreted functions cos_ / sin_ of their argument."""
import os

from vlib.core import COQ, REPO
from vlib.py2coq import Module, TranslationError, Translator, emit_file, write_if_changed, Qv

HEADER = ("From Coq Require Import QArith ZArith Bool List Qabs.\n"
          "From CR Require Import Base.QMod Model.Interval Model.Transform.\nOpen Scope Q_scope.")


def _q(tr, v):
    return tr.toQ(tr.num(v))[1]


def np_array(tr, a, node):
    for kw in node.keywords:
        if kw.arg != "dtype":
            raise TranslationError("np.array keyword " + str(kw.arg))
    if len(a) != 1 or a[0][0] != "pylist" or not all(r[0] == "pylist" for r in a[0][1]):
        raise TranslationError("np.array of something else than a literal matrix")
    rows = [[_q(tr, x) for x in r[1]] for r in a[0][1]]
    if len({len(r) for r in rows}) != 1:
        raise TranslationError("ragged matrix")
    return ("M", rows)


def _dot(tr, base, args, node):
    """static matrix . static matrix, or static matrix . transposed (n, k) array"""
    A = base[1]
    B = args[0]
    if B[0] == "M":
        Bm = B[1]
        if len(A[0]) != len(Bm):
            raise TranslationError("matrix shapes")
        return ("M", [["(" + " + ".join(f"{A[i][k]} * {Bm[k][j]}" for k in range(len(Bm))) + ")"
                       for j in range(len(Bm[0]))] for i in range(len(A))])
    if B[0] == "rows" and B[4]:   # transposed (n, k): columns are the points
        ents = B[3]
        if len(A[0]) != len(ents):
            raise TranslationError("matrix / array shapes")
        out = ["(" + " + ".join(f"{A[i][k]} * {ents[k]}" for k in range(len(ents))) + ")" for i in range(len(A))]
        return ("rows", B[1], B[2], out, True)
    raise TranslationError("dot operand")


def _transpose(tr, base, args, node):
    if args:
        raise TranslationError("transpose arguments")
    return ("rows", base[1], base[2], base[3], not base[4])


def _shape(tr, base, node):
    if base[4]:
        raise TranslationError("shape of a transposed array")
    return ("tup", [("lenof", base[1]), ("num", len(base[3]))])


def _len_tup(tr, a, node):
    return ("num", len(a[0][1]))


def _len_rows(tr, a, node):
    return ("lenof", a[0][1])


def np_ones(tr, a, node):
    if len(a) != 1 or a[0][0] != "tup" or len(a[0][1]) != 2 or a[0][1][0][0] != "lenof" or a[0][1][1][0] != "num":
        raise TranslationError("np.ones form")
    return ("rows", a[0][1][0][1], "p_", ["1"] * a[0][1][1][1], False)


def np_hstack(tr, a, node):
    if len(a) != 1 or a[0][0] != "tup" or not all(x[0] == "rows" and not x[4] for x in a[0][1]):
        raise TranslationError("np.hstack form")
    parts = a[0][1]
    if len({x[1] for x in parts}) != 1:
        raise TranslationError("np.hstack of arrays over different vertex lists")
    return ("rows", parts[0][1], "p_", [e for x in parts for e in x[3]], False)


def _sub_rows(tr, base, sl, env, heap, node):
    """points[:, 0:2]"""
    import ast
    if base[4] or not (isinstance(sl, ast.Tuple) and len(sl.elts) == 2 and isinstance(sl.elts[0], ast.Slice)
                       and sl.elts[0].lower is None and sl.elts[0].upper is None and isinstance(sl.elts[1], ast.Slice)):
        raise TranslationError("array subscript form")
    lo = tr.expr(sl.elts[1].lower, env, heap) if sl.elts[1].lower is not None else ("num", 0)
    hi = tr.expr(sl.elts[1].upper, env, heap) if sl.elts[1].upper is not None else ("num", len(base[3]))
    if lo[0] != "num" or hi[0] != "num" or sl.elts[1].step is not None:
        raise TranslationError("array slice bounds")
    return ("rows", base[1], base[2], base[3][lo[1]:hi[1]], False)


def _sub_tup(tr, base, sl, env, heap, node):
    i = tr.expr(sl, env, heap)
    if i[0] != "num" or not 0 <= i[1] < len(base[1]):
        raise TranslationError("tuple index")
    return base[1][i[1]]


def _sub_pt(tr, base, sl, env, heap, node):
    i = tr.expr(sl, env, heap)
    if i[0] != "num" or i[1] not in (0, 1):
        raise TranslationError("index of a 2-vector")
    return Qv(f"({'px' if i[1] == 0 else 'py'} {base[1]})")


def _render_rows(tr, v):
    if v[4] or len(v[3]) != 2:
        raise TranslationError("only (n, 2) arrays can be returned")
    return f"(map (fun {v[2]} => ({v[3][0]}, {v[3][1]})) {v[1]})"


def _render_M(tr, v):
    if len(v[1]) != 3 or any(len(r) != 3 for r in v[1]):
        raise TranslationError("only 3x3 matrices can be returned")
    return "(M3 " + " ".join(e if e.startswith("(") else f"({e})" for r in v[1] for e in r) + ")"


PT = ("t", "P")
JOBS = [
    ("src_translation_rotation_matrix", ("func", "translation_rotation_matrix"), [PT, ("a", "Q")], "mat3", ""),
    ("src_rotation_translation_matrix", ("func", "rotation_translation_matrix"), [PT, ("a", "Q")], "mat3", ""),
    ("src_translate_rotate", ("func", "translate_rotate"), [("vs", "V"), PT, ("a", "Q")], "list pt", ""),
    ("src_rotate_translate", ("func", "rotate_translate"), [("vs", "V"), PT, ("a", "Q")], "list pt", ""),
]


def text():
    tr = Translator([Module("transform", os.path.join(REPO, "commonroad", "geometry", "transform.py"))], consts={},
                    records={},
                    prims={"np.array": np_array, "np.ones": np_ones, "np.hstack": np_hstack,
                           "math.cos": lambda t, a, n: Qv(f"(cos_ {_q(t, a[0])})"),
                           "math.sin": lambda t, a, n: Qv(f"(sin_ {_q(t, a[0])})"),
                           ("len", "tup"): _len_tup, ("len", "rows"): _len_rows})
    tr.value_methods = {("M", "dot"): _dot, ("rows", "transpose"): _transpose}
    tr.value_attrs = {("rows", "shape"): _shape}
    tr.value_subscripts = {"rows": _sub_rows, "tup": _sub_tup, "P": _sub_pt}
    tr.param_kinds = {"P": lambda nm: (("P", nm), f"({nm} : pt)"),
                      "V": lambda nm: (("rows", nm, "p_", ["(px p_)", "(py p_)"], False), f"({nm} : list pt)")}
    tr.renderers = {"rows": _render_rows, "M": _render_M}
    return emit_file(tr, HEADER, JOBS, "Variables cos_ sin_ : Q -> Q.   (* math.cos / math.sin: uninterpreted *)")


def generate():
    return write_if_changed(os.path.join(COQ, "Gen", "Src_transform.v"), text())


if __name__ == "__main__":
    print(text())
