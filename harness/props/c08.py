"""C08 — goal-region membership is decided correctly.
oracle: independent three-valued evaluation of the property statement (exact rationals, own shape containment,
        libm hypot/atan2 on (vx, vy)) vs GoalRegion.is_reached / PlanningProblem.goal_reached
corr:   Model/Goal.v evaluated by vm_compute on the same cases (Corr/C08.v)"""
import math
import re
from fractions import Fraction as F

import numpy as np

from vlib.core import qq, qb, qz, qlist
from vlib.flow import load_corpus

import commonroad
from commonroad.common.util import AngleInterval, Interval
from commonroad.geometry.shape import Circle, Polygon, Rectangle, ShapeGroup
from commonroad.planning.goal import GoalRegion
from commonroad.planning.planning_problem import PlanningProblem
from commonroad.scenario.lanelet import Lanelet
from commonroad.scenario.state import (CustomState, ExtendedPMState, InitialState, KSState, KSTState, MBState,
                                       PMState, STDState, STState)
from commonroad.scenario.trajectory import Trajectory

TWO_PI = commonroad.TWO_PI
TAU = F(TWO_PI)
PI = math.pi
GUARD = 1e-9

RULE = ("cases from one seeded PRNG: goal regions of 1-4 goal states (CustomState / KSState / STState as carrier), "
        "every subset of {position, orientation, velocity} beside the mandatory time interval; positions rectangle "
        "(axis-aligned and rotated), circle, polygon, shape group, lanelet polygons; orientation intervals short, "
        "long (> pi), wrapping +-pi, int ends; states of KS, KST, ST, STD, MB, Initial, ExtendedPM, PM and Custom "
        "classes with float, int and numpy-scalar attributes, placed inside / outside / exactly on boundaries; "
        "point-mass velocities in all four quadrants and on the axes; goal_reached on trajectories of 1-6 states. "
        "distinct = distinct case dicts; non-trivial = decided by the three-valued oracle (not near a boundary)")
ASSUME = ["shape containment is an input of the model (observed Shape.contains_point); the oracle uses its own "
          "containment tests and skips points closer than 1e-9 to a boundary unless exactly representable",
          "hypot / atan2 are uninterpreted in the theorems; the case files tabulate libm's values for (vx, vy)",
          "float - and % in AngleInterval.__contains__ are rounded (model exact): decisions closer than 1e-9 to an "
          "interval end are excluded unless the value equals the end exactly",
          "admissible domain: the state has every attribute the goal constrains; angle-interval length < 2pi; "
          "MBState with velocity_y and PM-like CustomStates are compared with the model only (outside the quantifier)",
          "velocity components are never negative zeros: math.atan2 distinguishes -0.0 from 0.0 (atan2(-0.0, -0.0) = -pi), the "
          "rational model and the property statement do not"]

KIN = {"KSState": KSState, "KSTState": KSTState, "STState": STState, "STDState": STDState, "MBState": MBState,
       "InitialState": InitialState, "ExtendedPMState": ExtendedPMState, "CustomState": CustomState}
GOAL_CARRIER = {"CustomState": CustomState, "KSState": KSState, "STState": STState}


LIB_GONE = re.compile(r"Cannot find a physical path|Cannot find library|Compiled library .* makes inconsistent|"
                      r"No such file|Unable to locate library|bad version number|is corrupted|End_of_file")


# ------------------------------------------------------------------------------------ building objects
def build_shape(sp):
    k = sp["k"]
    if k == "rect":
        return Rectangle(sp["l"], sp["w"], np.array(sp["c"], dtype=float), sp["o"])
    if k == "circ":
        return Circle(sp["r"], np.array(sp["c"], dtype=float))
    if k == "poly":
        return Polygon(np.array(sp["v"], dtype=float))
    if k == "group":
        return ShapeGroup([build_shape(s) for s in sp["shapes"]])
    if k == "lanelet":  # as the file reader builds a lanelet goal position
        polys = []
        for la in sp["lanelets"]:
            left, right = np.array(la["left"], dtype=float), np.array(la["right"], dtype=float)
            obj = Lanelet(left, (left + right) / 2.0, right, la["id"])
            if _POOL is not None:
                # the goal is built from the lanelets of a road network that lives on (the readers do exactly this:
                # the goal's polygons ARE the lanelets' polygon objects)
                key = (la["id"], str(la["left"]), str(la["right"]))
                if key in _POOL:
                    obj = _POOL[key]
                elif all(k2[0] != la["id"] for k2 in _POOL):
                    _POOL[key] = obj
            polys.append(obj.polygon)
        return ShapeGroup(polys)
    raise RuntimeError(k)


_POOL = None      # id -> Lanelet while a case is built "inside a scenario"


def build_goal_state(g):
    kw = {"time_step": Interval(g["time"][0], g["time"][1])}
    if g.get("pos") is not None:
        kw["position"] = build_shape(g["pos"])
    if g.get("orient") is not None:
        kw["orientation"] = AngleInterval(g["orient"][0], g["orient"][1])
    if g.get("vel") is not None:
        kw["velocity"] = Interval(g["vel"][0], g["vel"][1])
    return GOAL_CARRIER[g.get("cls", "CustomState")](**kw)


def build_region(case):
    gs = [build_goal_state(g) for g in case["goals"]]
    lan = {i: [la["id"] for la in g["pos"]["lanelets"]] for i, g in enumerate(case["goals"])
           if g.get("pos") is not None and g["pos"]["k"] == "lanelet"}
    return GoalRegion(gs, lan or None)


def num(x, nt):
    if x is None or nt != "np":
        return x
    return np.int64(x) if isinstance(x, int) else np.float64(x)


def build_state(s):
    nt = s.get("nt", "py")
    kw = {"time_step": s["time"]}
    if s.get("pos") is not None:
        kw["position"] = np.array(s["pos"])  # int dtype when both coordinates are ints
    cls = s["cls"]
    if cls == "PMState":
        return PMState(velocity=num(s.get("vel"), nt), velocity_y=num(s.get("vely"), nt), **kw)
    for a, key in (("orientation", "orient"), ("velocity", "vel"), ("velocity_y", "vely")):
        if s.get(key) is not None:
            kw[a] = num(s[key], nt)
    return KIN[cls](**kw)


# ------------------------------------------------------------------------------------ independent containment
def and3(xs):
    xs = list(xs)
    if any(x is False for x in xs):
        return False
    return None if any(x is None for x in xs) else True


def or3(xs):
    xs = list(xs)
    if any(x is True for x in xs):
        return True
    return None if any(x is None for x in xs) else False


def small_dyadic(*vals):
    for v in vals:
        f = F(v)
        if abs(f) > 4096 or (f * 64).denominator != 1:
            return False
    return True


def poly_contains(verts, p):
    """exact: point in closed polygon (rational arithmetic); None if within the guard of the boundary without
    being exactly on it, or exactly on it with coordinates that are not small dyadics"""
    x, y = F(p[0]), F(p[1])
    V = [(F(a), F(b)) for a, b in verts]
    if V[0] == V[-1]:
        V = V[:-1]
    n = len(V)
    inside = False
    mind2 = None
    for i in range(n):
        (x1, y1), (x2, y2) = V[i], V[(i + 1) % n]
        dx, dy = x2 - x1, y2 - y1
        L2 = dx * dx + dy * dy
        t = 0 if L2 == 0 else max(F(0), min(F(1), ((x - x1) * dx + (y - y1) * dy) / L2))
        qx, qy = x1 + t * dx, y1 + t * dy
        d2 = (x - qx) ** 2 + (y - qy) ** 2
        mind2 = d2 if mind2 is None or d2 < mind2 else mind2
        if (y1 > y) != (y2 > y):
            xi = x1 + (y - y1) * dx / dy
            if xi > x:
                inside = not inside
    if mind2 == 0:
        flat = [c for v in verts for c in v] + list(p)
        return True if small_dyadic(*flat) else None
    scale = max(1.0, max(abs(float(c)) for v in verts for c in v))
    if float(mind2) < (GUARD * scale) ** 2:
        return None
    return inside


def contains3(sp, p):
    k = sp["k"]
    if k == "rect":
        cx, cy = sp["c"]
        l, w, o = sp["l"], sp["w"], sp["o"]
        if o == 0:
            mx = F(l) / 2 - abs(F(p[0]) - F(cx))
            my = F(w) / 2 - abs(F(p[1]) - F(cy))
            m = min(mx, my)
            if m == 0:
                return True if small_dyadic(l, w, cx, cy, p[0], p[1]) else None
            if abs(m) < F(GUARD) * max(1, abs(F(cx)), abs(F(cy)), F(l)):
                return None
            return m > 0
        dx, dy = p[0] - cx, p[1] - cy
        xl = dx * math.cos(o) + dy * math.sin(o)
        yl = -dx * math.sin(o) + dy * math.cos(o)
        m = min(l / 2 - abs(xl), w / 2 - abs(yl))
        if abs(m) < GUARD * max(1.0, abs(cx), abs(cy), l, abs(p[0]), abs(p[1])):
            return None
        return m > 0
    if k == "circ":
        cx, cy = sp["c"]
        d2 = (F(p[0]) - F(cx)) ** 2 + (F(p[1]) - F(cy)) ** 2
        r2 = F(sp["r"]) ** 2
        if d2 == r2:
            return True if small_dyadic(cx, cy, sp["r"], p[0], p[1]) else None
        if abs(math.sqrt(float(d2)) - sp["r"]) < GUARD * max(1.0, abs(cx), abs(cy), sp["r"]):
            return None
        return d2 < r2
    if k == "poly":
        return poly_contains(sp["v"], p)
    if k == "group":
        return or3(contains3(s, p) for s in sp["shapes"])
    if k == "lanelet":  # in one of the referenced lanelets: region bounded by right and reversed left boundary
        return or3(poly_contains(la["right"] + la["left"][::-1], p) for la in sp["lanelets"])
    raise RuntimeError(k)


# ------------------------------------------------------------------------------------ the specification
def angle_member3(a, b, th, exact_ends=True):
    a_, b_, t_ = F(a), F(b), F(th)
    if exact_ends and t_ in (a_, b_):
        return True
    m = (t_ - a_) % TAU
    ln = b_ - a_
    margin = min(abs(m - ln), m, TAU - m)
    if margin < F(GUARD):
        return None
    return m <= ln


def state_attrs(s):
    """the attributes the specification speaks about: time, position, heading, speed (None = absent);
    third component: True if heading / speed come from libm (rounded)"""
    vel, vely, orient = s.get("vel"), s.get("vely"), s.get("orient")
    pm = s["cls"] == "PMState" or (vel is not None and vely is not None)
    if s["cls"] == "ExtendedPMState":
        pm = False
    if pm and vel is not None and vely is not None:
        speed = math.hypot(vel, vely)
        heading = orient if orient is not None else math.atan2(vely, vel)
        return s.get("time"), s.get("pos"), heading, speed, (orient is None, True)
    if s["cls"] == "PMState":
        return s.get("time"), s.get("pos"), None, vel, (False, False)
    return s.get("time"), s.get("pos"), orient, vel, (False, False)


def admissible(g, s):
    t, p, h, v, _ = state_attrs(s)
    return (t is not None and (g.get("pos") is None or p is not None)
            and (g.get("orient") is None or h is not None) and (g.get("vel") is None or v is not None))


def norm_orient(a, b):
    """the interval AngleInterval(a, b) stores (make_valid_orientation_interval), exact for |a|,|b| <= tau"""
    return a, b


def sat3(g, s, parts=("time", "pos", "orient", "vel")):
    t, p, h, v, (h_libm, v_libm) = state_attrs(s)
    res = []
    if "time" in parts:
        res.append(F(g["time"][0]) <= F(t) <= F(g["time"][1]))
    if "pos" in parts and g.get("pos") is not None:
        res.append(contains3(g["pos"], p))
    if "orient" in parts and g.get("orient") is not None:
        res.append(angle_member3(g["orient"][0], g["orient"][1], h, exact_ends=not h_libm))
    if "vel" in parts and g.get("vel") is not None:
        a, b = F(g["vel"][0]), F(g["vel"][1])
        if v_libm and min(abs(F(v) - a), abs(F(v) - b)) < F(GUARD) * max(1, abs(a), abs(b)):
            res.append(None)
        else:
            res.append(a <= F(v) <= b)
    return and3(res)


def expected_state(case, s, parts=("time", "pos", "orient", "vel")):
    """True / False / None (near a boundary) / 'inadmissible'"""
    if not all(admissible(g, s) for g in case["goals"]):
        return "inadmissible"
    return or3(sat3(g, s, parts) for g in case["goals"])


def judged(case):
    """inside the quantifier of the property (DESIGN 2.7)?  MBState with velocity_y and PM-like CustomStates are
    modelled and compared with the model, but not judged."""
    for s in case["states"]:
        if s["cls"] in ("MBState", "CustomState") and s.get("vely") is not None:
            return False
    return True


# ------------------------------------------------------------------------------------ implementation
def build_region_late(case):
    """the same goal region reached by editing after construction: the last goal state appended to state_list later,
    and a goal state's velocity / orientation constraint assigned after the region was built"""
    gs = [build_goal_state(g) for g in case["goals"]]
    lan = {i: [la["id"] for la in g["pos"]["lanelets"]] for i, g in enumerate(case["goals"])
           if g.get("pos") is not None and g["pos"]["k"] == "lanelet"}
    held = {}
    for i, g in enumerate(gs):
        for a in ("velocity", "orientation"):
            if getattr(g, a, None) is not None and isinstance(g, GOAL_CARRIER["CustomState"]) is False:
                held[(i, a)] = getattr(g, a)
                setattr(g, a, None)
    first = gs[:-1] if len(gs) > 1 else gs
    region = GoalRegion(list(first), lan or None)
    if len(gs) > 1:
        region.state_list.append(gs[-1])
    for (i, a), v in held.items():
        setattr(region.state_list[i], a, v)
    return region


def observe(case):
    """('b', bool) | ('g', bool, idx) | ('exc', name)"""
    region = build_region_late(case) if case.get("late") else build_region(case)
    states = [build_state(s) for s in case["states"]]
    try:
        if case["op"] == "is_reached":
            r = region.is_reached(states[0])
            if not isinstance(r, (bool, np.bool_)):
                return ("exc", "NotBool:" + type(r).__name__)
            r2 = region.is_reached(states[0])    # membership is a function of region and state: the same objects again
            if bool(r2) != bool(r):
                return ("again", bool(r), bool(r2))
            return ("b", bool(r))
        init = InitialState(time_step=0, position=np.array([0.0, 0.0]), orientation=0.0, velocity=0.0,
                            acceleration=0.0, yaw_rate=0.0, slip_angle=0.0)
        pp = PlanningProblem(1, init, region)
        r = pp.goal_reached(Trajectory(case["states"][0]["time"], states))
        return ("g", bool(r[0]), int(r[1]))
    except ValueError:
        return ("exc", "ValueError")
    except AssertionError:
        return ("exc", "AssertionError")
    except (TypeError, AttributeError, ZeroDivisionError, KeyError, IndexError) as e:
        return ("exc", type(e).__name__)


def observe_moved(case, prime, shared=False):
    """the case after the rigid motions case['hist'] applied to the goal region (GoalRegion.translate_rotate) and to
    the states (State.translate_rotate); prime: the region has answered queries before it was moved; shared: lanelet
    goals are built from the lanelets of a LaneletNetwork, which is moved as well (before the region, as
    Scenario.translate_rotate followed by PlanningProblemSet.translate_rotate does)"""
    global _POOL
    net = None
    if shared:
        from commonroad.scenario.lanelet import LaneletNetwork
        _POOL = {}
    try:
        region = build_region(case)
        if shared:
            net = LaneletNetwork()
            for la in _POOL.values():
                net.add_lanelet(la)
    finally:
        _POOL = None
    states = [build_state(s) for s in case["states"]]
    try:
        if prime:
            for s in states:
                region.is_reached(s)
        for t, a in case["hist"]:
            if net is not None:
                net.translate_rotate(np.array(t, dtype=float), float(a))
            region.translate_rotate(np.array(t, dtype=float), float(a))
            states = [s.translate_rotate(np.array(t, dtype=float), float(a)) for s in states]
            if prime and len(case["hist"]) > 1:
                region.is_reached(states[0])
        if case["op"] == "is_reached":
            return ("b", bool(region.is_reached(states[0])))
        init = InitialState(time_step=0, position=np.array([0.0, 0.0]), orientation=0.0, velocity=0.0,
                            acceleration=0.0, yaw_rate=0.0, slip_angle=0.0)
        r = PlanningProblem(1, init, region).goal_reached(Trajectory(case["states"][0]["time"], states))
        return ("g", bool(r[0]), int(r[1]))
    except Exception as e:  # noqa - compared between the two runs
        return ("exc", type(e).__name__)


def _stable(case, exp):
    """the expected answer does not hinge on the state lying exactly on a boundary (which a rotation rounds away)"""
    s0 = case["states"][0]
    for key, eps in (("pos", 1e-6), ("orient", 1e-6), ("vel", 1e-6), ("vely", 1e-6)):
        v = s0.get(key)
        if v is None:
            continue
        for sgn in (-1, 1):
            if key == "pos":
                for ax in (0, 1):
                    q = list(v)
                    q[ax] = q[ax] + sgn * eps
                    if expected_state(case, dict(s0, pos=q)) != exp:
                        return False
            elif expected_state(case, dict(s0, **{key: v + sgn * eps})) != exp:
                return False
    return True


def oracle_hist(case):
    """membership must not depend on whether the goal region answered queries before it was moved"""
    a, b = observe_moved(case, True), observe_moved(case, False)
    if a == b and any(g.get("pos") is not None and g["pos"]["k"] == "lanelet" for g in case["goals"]):
        c = observe_moved(case, False, shared=True)
        if c != b:
            return (f"{case['op']}:history:answer after translate_rotate depends on the road network being moved too",
                    f"{case['op']} answers {c} when the lanelet goal is built from the lanelets of a network that is moved "
                    f"with the same translate_rotate{case['hist']} before the goal region, and {b} when the goal owns its "
                    f"polygons: {brief(case)}")
    if case["op"] == "is_reached" and b[0] == "b":
        # moving the goal region and the state by the same rigid motion does not change membership (decided with a
        # margin: near-boundary cases have no expected value)
        exp = expected_state(case, case["states"][0])
        if exp in (True, False) and b[1] != exp and _stable(case, exp):
            kinds = "+".join(sorted({g["pos"]["k"] for g in case["goals"] if g.get("pos") is not None})) or "no position"
            return (f"is_reached:history:membership changes under translate_rotate of region and state ({kinds})",
                    f"is_reached answers {b[1]} after GoalRegion.translate_rotate{case['hist']} and the same motion of the "
                    f"state, {exp} is the answer before the motion: {brief(case)}")
    if a != b:
        cls = case["states"][0]["cls"]
        kinds = "+".join(sorted({g["pos"]["k"] for g in case["goals"] if g.get("pos") is not None})) or "no position"
        return (f"{case['op']}:history:answer after translate_rotate depends on earlier queries ({kinds})",
                f"{case['op']} answers {a} when the goal region was queried before GoalRegion.translate_rotate{case['hist']} "
                f"and {b} when it was not ({cls}): {brief(case)}")
    return None


def gen_hist(rng, cases, every=5):
    out = []
    for c in cases[::every]:
        if not judged(c) or any(expected_state(c, s) == "inadmissible" for s in c["states"]):
            continue
        moves = [[[dy(rng, -30, 30), dy(rng, -30, 30)], rng.choice([0.0, 0.0, dy(rng, -3, 3), 1.5])]
                 for _ in range(rng.choice([1, 1, 2]))]
        out.append(dict(c, hist=moves))
    for c in cases[2::every]:
        if judged(c) and not any(expected_state(c, s) == "inadmissible" for s in c["states"]):
            out.append(dict(c, late=True))
    return out


def oracle_late(case):
    a, b = observe(case), observe(dict(case, late=False))
    if a != b:
        return (f"{case['op']}:history:answer depends on how the goal region was put together",
                f"{case['op']} answers {a} when the last goal state is appended / constraints are assigned after the "
                f"region was constructed, and {b} for the region constructed in one go: {brief(case)}")
    return None


def oracle(case):
    if case.get("hist"):
        return oracle_hist(case)
    if case.get("late"):
        return oracle_late(case)
    if not judged(case):
        return None
    exp = [expected_state(case, s) for s in case["states"]]
    if any(e == "inadmissible" for e in exp):
        return None  # the ValueError is intended; behaviour unspecified
    o = observe(case)
    cls = case["states"][0]["cls"]
    kinds = "+".join(sorted({k for g in case["goals"] for k in ("pos", "orient", "vel") if g.get(k) is not None}))
    if o[0] == "exc":
        return (f"{case['op']}:{cls}:raises {o[1]}", f"{case['op']} raises {o[1]} on an admissible input: {brief(case)}")
    if o[0] == "again":
        return (f"is_reached:{cls}:second answer differs",
                f"is_reached answers {o[1]}, then {o[2]} for the same region and state objects: {brief(case)}")
    if case["op"] == "is_reached":
        if exp[0] is None or o[1] == exp[0]:
            return None
        # the attributes without which the expected answer would equal the observed one
        why = [p for p in ("time", "pos", "orient", "vel")
               if expected_state(case, case["states"][0], tuple(q for q in ("time", "pos", "orient", "vel") if q != p))
               == o[1]]
        what = "accepted although no goal state is satisfied" if o[1] else "rejected although a goal state is satisfied"
        return (f"is_reached:{cls}:{'accepts' if o[1] else 'rejects'}",
                f"is_reached {what} (constraints: {kinds}; deciding: {','.join(why) or '?'}): {brief(case)}")
    # goal_reached
    if o[1]:
        i = o[2]
        if not 0 <= i < len(exp):
            return (f"goal_reached:{cls}:index out of range", f"goal_reached -> {o[1:]}: {brief(case)}")
        if exp[i] is False:
            return (f"goal_reached:{cls}:index of a state that does not reach",
                    f"goal_reached -> (True, {i}) but state {i} satisfies no goal state: {brief(case)}")
        return None
    if o[2] != -1:
        return (f"goal_reached:{cls}:failure index", f"goal_reached -> (False, {o[2]}), expected -1: {brief(case)}")
    if any(e is True for e in exp):
        return (f"goal_reached:{cls}:misses a reaching state",
                f"goal_reached -> (False, -1) but state {exp.index(True)} satisfies a goal state: {brief(case)}")
    return None


def brief(case):
    def g_(g):
        d = {k: g[k] for k in ("time", "orient", "vel") if g.get(k) is not None}
        if g.get("pos") is not None:
            d["pos"] = g["pos"]["k"]
        return d
    return f"goals={[g_(g) for g in case['goals']]} states={case['states'][:3]}"


def nontrivial(case):
    exp = [expected_state(case, s) for s in case["states"]]
    return all(e is not None for e in exp)


def kind(case):
    return case["op"] + ":" + case["states"][0]["cls"]


# ------------------------------------------------------------------------------------ generators
def dy(rng, lo, hi, q=4):
    """a small dyadic number (multiple of 1/q)"""
    return rng.randint(int(lo * q), int(hi * q)) / q


def gen_shape(rng, allow=("rect", "rect0", "circ", "poly", "group", "lanelet")):
    k = rng.choice(allow)
    c = [dy(rng, -6, 6), dy(rng, -6, 6)]
    if k == "rect0":
        return {"k": "rect", "l": dy(rng, 1, 8, 2), "w": dy(rng, 1, 4, 2), "c": c, "o": 0.0}
    if k == "rect":
        return {"k": "rect", "l": round(rng.uniform(1, 8), 2), "w": round(rng.uniform(0.5, 4), 2),
                "c": [round(rng.uniform(-6, 6), 2), round(rng.uniform(-6, 6), 2)],
                "o": rng.choice([round(rng.uniform(-3.1, 3.1), 3), PI / 2, -PI / 4, 0.05, 1.0, rng.uniform(-6, 6)])}
    if k == "circ":
        return {"k": "circ", "r": rng.choice([1.25, 2.5, 5.0, 0.625, round(rng.uniform(0.5, 5), 2)]), "c": c}
    if k == "poly":
        n = rng.randint(3, 7)
        angs = sorted(rng.uniform(0, 2 * PI) for _ in range(n))
        while min((angs[(i + 1) % n] - angs[i]) % (2 * PI) for i in range(n)) < 0.35 or \
                max((angs[(i + 1) % n] - angs[i]) % (2 * PI) for i in range(n)) > 2.8:
            angs = sorted(rng.uniform(0, 2 * PI) for _ in range(n))
        v = []
        for a in angs:
            r = rng.uniform(1.5, 5)
            v.append([c[0] + round(r * math.cos(a) * 4) / 4, c[1] + round(r * math.sin(a) * 4) / 4])
        if len({tuple(p) for p in v}) < n:
            return gen_shape(rng, ("poly",))
        return {"k": "poly", "v": v}
    if k == "group":
        return {"k": "group", "shapes": [gen_shape(rng, ("rect", "rect0", "circ", "poly"))
                                         for _ in range(rng.choice([1, 2, 2, 3, 3]))]}
    # lanelets: consecutive straight / kinked strips with dyadic vertices
    lanes, x0, y0 = [], c[0], c[1]
    for j in range(rng.randint(1, 3)):
        n = rng.randint(2, 4)
        xs = [x0 + 2.0 * i for i in range(n)]
        off = [dy(rng, -1, 1) if 0 < i < n - 1 else 0.0 for i in range(n)]
        w = rng.choice([2.0, 3.0, 3.5])
        right = [[xs[i], y0 + off[i]] for i in range(n)]
        left = [[xs[i], y0 + off[i] + w] for i in range(n)]
        lanes.append({"id": 10 + j, "left": left, "right": right})
        x0 = xs[-1] if rng.random() < 0.7 else xs[-1] + 3.0
    return {"k": "lanelet", "lanelets": lanes}


def boundary_point(rng, sp):
    """a point exactly on the boundary of the shape (exactly representable), or None"""
    k = sp["k"]
    if k == "rect" and sp["o"] == 0 and small_dyadic(sp["l"], sp["w"], *sp["c"]):
        sx, sy = rng.choice([(1, None), (-1, None), (None, 1), (None, -1), (1, 1), (-1, 1)])
        x = sp["c"][0] + (sx * sp["l"] / 2 if sx else dy(rng, -1, 1, 8) * sp["l"] / 2)
        y = sp["c"][1] + (sy * sp["w"] / 2 if sy else dy(rng, -1, 1, 8) * sp["w"] / 2)
        return [x, y]
    if k == "circ" and small_dyadic(sp["r"] / 5 * 8):
        u = sp["r"] / 5
        a, b = rng.choice([(3, 4), (4, 3), (5, 0), (0, 5), (-3, 4), (-4, -3), (0, -5), (3, -4)])
        return [sp["c"][0] + a * u, sp["c"][1] + b * u]
    if k == "poly":
        i = rng.randrange(len(sp["v"]))
        p, q = sp["v"][i], sp["v"][(i + 1) % len(sp["v"])]
        return list(p) if rng.random() < 0.4 else [(p[0] + q[0]) / 2, (p[1] + q[1]) / 2]
    if k == "lanelet":
        la = rng.choice(sp["lanelets"])
        side = rng.choice(["left", "right"])
        i = rng.randrange(len(la[side]) - 1)
        p, q = la[side][i], la[side][i + 1]
        return list(p) if rng.random() < 0.3 else [(p[0] + q[0]) / 2, (p[1] + q[1]) / 2]
    if k == "group":
        return boundary_point(rng, rng.choice(sp["shapes"]))
    return None


def shape_ref_point(sp):
    k = sp["k"]
    if k in ("rect", "circ"):
        return list(sp["c"])
    if k == "poly":
        return [sum(p[0] for p in sp["v"]) / len(sp["v"]), sum(p[1] for p in sp["v"]) / len(sp["v"])]
    if k == "group":
        return shape_ref_point(sp["shapes"][0])
    la = sp["lanelets"][0]
    return [(la["left"][0][0] + la["right"][1][0]) / 2, (la["left"][0][1] + la["right"][1][1]) / 2]


def gen_angle_interval(rng):
    ln = rng.choice([0.0, 0.1, 0.5, 1.0, PI / 2, PI - 1e-3, PI, PI + 1e-3, 4.0, 5.0, 6.0, TWO_PI - 1e-3,
                     rng.uniform(0, TWO_PI - 1e-3), rng.uniform(0, 1.5)])
    k = rng.random()
    if k < 0.2:  # int ends
        a = rng.randint(-6, 5)
        b = rng.randint(a, min(6, a + 6))
        return [a, b]
    if k < 0.45:  # wrapping +-pi
        mid = rng.choice([PI, -PI])
        ln = min(ln, 3.0)
        a = mid - rng.uniform(0, ln) if ln > 0 else mid
    else:
        a = rng.uniform(-TWO_PI, TWO_PI - ln)
    a = max(-TWO_PI, min(a, TWO_PI - ln))
    b = min(a + ln, TWO_PI)
    return [a, b]


def gen_interval(rng, lo, hi, ints=0.4):
    if rng.random() < ints:
        a = rng.randint(int(lo), int(hi))
        return [a, rng.randint(a, int(hi) + 3)]
    a = round(rng.uniform(lo, hi), rng.choice([0, 1, 2]))
    return [a, a + round(rng.uniform(0, (hi - lo) / 2), rng.choice([0, 1, 2]))]


def gen_goal(rng, subset=None):
    g = {"cls": rng.choice(["CustomState", "CustomState", "KSState", "STState"]),
         "time": gen_interval(rng, 0, 12, 0.8)}
    if subset is None:
        subset = [k for k in ("pos", "orient", "vel") if rng.random() < 0.55]
    if "pos" in subset:
        g["pos"] = gen_shape(rng)
    if "orient" in subset:
        g["orient"] = gen_angle_interval(rng)
    if "vel" in subset:
        g["vel"] = gen_interval(rng, 0, 12)
    return g


def pick_angle(rng, itv):
    a, b = itv if itv is not None else (rng.uniform(-3, 3), rng.uniform(-3, 3))
    k = rng.random()
    if k < 0.3:
        th = rng.uniform(min(a, b), max(a, b))
    elif k < 0.45:
        th = rng.choice([a, b])
    elif k < 0.6:
        th = rng.choice([a, b]) + rng.choice([-1, 1]) * rng.choice([1e-3, 1e-6, 0.2])
    elif k < 0.7:
        th = rng.randint(-7, 7)
    elif k < 0.8:
        th = rng.choice([0.0, PI / 2, -PI / 2, PI, -PI, 3 * PI / 4, -3 * PI / 4, TWO_PI])
    else:
        th = rng.uniform(-7, 7)
    if rng.random() < 0.25 and not isinstance(th, int):
        th += rng.choice([-2, -1, 1, 2]) * TWO_PI
    return th


def pick_in(rng, itv, lo, hi):
    a, b = itv if itv is not None else (lo, hi)
    k = rng.random()
    if k < 0.4:
        v = rng.uniform(a, b) if a < b else a
        return round(v, 2) if a <= round(v, 2) <= b else v
    if k < 0.6:
        return rng.choice([a, b])
    if k < 0.75:
        return rng.choice([a, b]) + rng.choice([-1, 1]) * rng.choice([1, 0.5, 1e-6])
    if k < 0.85:
        return rng.randint(int(lo), int(hi))
    return round(rng.uniform(lo, hi), 2)


def gen_state(rng, goals, cls, t=None):
    g = rng.choice(goals)  # aim at one goal state
    s = {"cls": cls, "nt": "np" if rng.random() < 0.12 else "py"}
    if t is None:
        t = pick_in(rng, g["time"], 0, 15)
        t = int(round(t)) if rng.random() < 0.85 else t
        t = max(0, t) if isinstance(t, int) else t
    s["time"] = t
    # position
    gp = g.get("pos") or next((x["pos"] for x in goals if x.get("pos")), None)
    k = rng.random()
    if gp is not None and gp["k"] == "group":
        # aim at any member, not only the first one (a member that is asked after another one: seed C08-14)
        gp = rng.choice(gp["shapes"])
    if gp is not None and k < 0.3:
        s["pos"] = boundary_point(rng, gp) or shape_ref_point(gp)
    elif gp is not None and k < 0.65:
        r = shape_ref_point(gp)
        s["pos"] = [r[0] + dy(rng, -1, 1, 8), r[1] + dy(rng, -1, 1, 8)]
        if gp["k"] == "rect" and rng.random() < 0.4:
            # a point well inside one of the four corner regions of the (rotated) box, or just outside of it there
            f = rng.choice([0.8, 0.9, 0.95, 1.1])
            lx, ly = rng.choice([-1, 1]) * f * gp["l"] / 2, rng.choice([-1, 1]) * f * gp["w"] / 2
            co, si = math.cos(gp["o"]), math.sin(gp["o"])
            s["pos"] = [gp["c"][0] + co * lx - si * ly, gp["c"][1] + si * lx + co * ly]
    elif gp is not None and k < 0.8:
        r = shape_ref_point(gp)
        s["pos"] = [round(r[0] + rng.uniform(-6, 6), 3), round(r[1] + rng.uniform(-6, 6), 3)]
    else:
        s["pos"] = [rng.randint(-8, 8), rng.randint(-8, 8)] if rng.random() < 0.5 else \
            [round(rng.uniform(-9, 9), 2), round(rng.uniform(-9, 9), 2)]
    go = g.get("orient") or next((x["orient"] for x in goals if x.get("orient")), None)
    gv = g.get("vel") or next((x["vel"] for x in goals if x.get("vel")), None)
    pm_like = cls == "PMState" or (cls in ("MBState", "CustomState") and rng.random() < 0.3)
    if pm_like:
        k = rng.random()
        if k < 0.25:  # integer components, all quadrants and the axes
            vx, vy = rng.choice([(-1, 1), (1, 1), (1, -1), (-1, -1), (0, 1), (0, -1), (-1, 0), (1, 0), (0, 0), (-3, 4),
                                 (3, -4), (-4, -3), (6, 8), (-2, 0), (0, 5), (-5, 12)])
        else:
            th = pick_angle(rng, go)
            sp = abs(pick_in(rng, gv, 0, 14))
            if k < 0.45 and gv is not None:  # a component inside the interval, the speed outside (or vice versa)
                sp = gv[1] + rng.choice([0.5, 1.5]) if rng.random() < 0.5 else max(gv[0] - 0.5, 0.1)
            vx, vy = sp * math.cos(th), sp * math.sin(th)
            if rng.random() < 0.3:
                vx, vy = round(vx, 2), round(vy, 2)
        if isinstance(vx, float):
            vx, vy = vx + 0.0, vy + 0.0  # no negative zeros: atan2 of signed zeros is a libm convention (see ASSUME)
        s["vel"], s["vely"] = vx, vy
        if cls in ("MBState",) or (cls == "CustomState" and rng.random() < 0.4):
            s["orient"] = pick_angle(rng, go)
    else:
        s["orient"] = pick_angle(rng, go)
        v = pick_in(rng, gv, -2, 14)
        s["vel"] = v
    return s


def drop_for_inadmissible(rng, case):
    """remove from the state(s) one attribute that some goal state constrains"""
    ks = sorted({k for g in case["goals"] for k in ("pos", "orient", "vel") if g.get(k) is not None})
    if not ks:
        return
    k = rng.choice(ks)
    for s in case["states"]:
        if s["cls"] == "PMState":
            s["vely"] = None
            if k == "pos":
                s["pos"] = None
        elif k == "orient" and s.get("vely") is not None:
            s["orient"], s["vely"] = None, None
        else:
            s[k] = None
            if k == "vel":
                s["vely"] = None


STATE_CLASSES = ["KSState", "KSTState", "STState", "STDState", "MBState", "InitialState", "ExtendedPMState",
                 "CustomState", "PMState", "PMState", "PMState", "PMState"]
SUBSETS = [[], ["pos"], ["orient"], ["vel"], ["pos", "orient"], ["pos", "vel"], ["orient", "vel"],
           ["pos", "orient", "vel"]]


def gen(rng, n):
    cases = []
    for i in range(n):
        ng = rng.choice([1, 1, 2, 2, 3, 4])
        goals = [gen_goal(rng, SUBSETS[(i + j) % 8] if rng.random() < 0.5 else None) for j in range(ng)]
        cls = STATE_CLASSES[i % len(STATE_CLASSES)] if rng.random() < 0.7 else rng.choice(STATE_CLASSES)
        if rng.random() < 0.75:
            case = {"op": "is_reached", "goals": goals, "states": [gen_state(rng, goals, cls)]}
        else:
            m = rng.randint(1, 6)
            t0 = rng.randint(0, 8)
            # the time steps of a trajectory increase; they need not be consecutive (seed C08-15)
            step = rng.choice([1, 1, 1, 2, 3])
            states = [gen_state(rng, goals, cls, t0 + j * step) for j in range(m)]
            if cls in ("MBState", "CustomState"):  # a trajectory needs states with the same attribute set
                keys = set(k for k in ("orient", "vel", "vely") if states[0].get(k) is not None)
                for s in states[1:]:
                    for k in ("orient", "vel", "vely"):
                        if k in keys and s.get(k) is None:
                            s[k] = states[0][k]
                        elif k not in keys:
                            s[k] = None
            case = {"op": "goal_reached", "goals": goals, "states": states}
        if rng.random() < 0.05:
            drop_for_inadmissible(rng, case)
        cases.append(case)
    return cases


def gen_around(rng, broken, n):
    """point-mass and angle-heavy cases (used when a proof or the correspondence broke)"""
    out = []
    for i in range(n):
        goals = [gen_goal(rng, rng.choice([["orient"], ["orient", "vel"], ["vel"], ["pos", "orient", "vel"]]))
                 for _ in range(rng.choice([1, 1, 2]))]
        cls = rng.choice(["PMState", "PMState", "KSState", "STState", "InitialState"])
        out.append({"op": "is_reached", "goals": goals, "states": [gen_state(rng, goals, cls)]})
    return out


# ------------------------------------------------------------------------------------ correspondence
def qoq(x):
    return "None" if x is None else f"(Some {qq(x)})"


def qitv(p):
    return "None" if p is None else f"(Some {{| lo := {qq(p[0])}; hi := {qq(p[1])} |}})"


def stored_angle_interval(p):
    """the ends AngleInterval stores (the constructor normalises into [-tau, tau])"""
    if p is None:
        return None
    ai = AngleInterval(p[0], p[1])
    return [ai.start, ai.end]


def pos_cols(case, region):
    """observed Shape.contains_point of every goal position on every state position (the model's [inside])"""
    cols = []
    for s in case["states"]:
        col = []
        for i, g in enumerate(case["goals"]):
            if g.get("pos") is not None and s.get("pos") is not None:
                col.append(bool(region.state_list[i].position.contains_point(np.array(s["pos"]))))
            else:
                col.append(False)
        cols.append(col)
    return cols


def corr_excluded(case, cols):
    """rounding in the interval part (orientation / speed) may decide the answer for some state"""
    for s, col in zip(case["states"], cols):
        if not all(admissible(g, s) for g in case["goals"]):
            continue
        if or3(and3([sat3(g, s, ("time",)), col[i] if g.get("pos") is not None else True,
                     sat3(g, s, ("orient",)), sat3(g, s, ("vel",))]) for i, g in enumerate(case["goals"])) is None:
            return True
    return False


def coq_case(case, o, cols):
    gts = []
    for i, g in enumerate(case["goals"]):
        gts.append(f"{{| g_time := {qitv(g['time'])}; g_pos := {'(Some %d%%nat)' % i if g.get('pos') else 'None'}; "
                   f"g_orient := {qitv(stored_angle_interval(g.get('orient')))}; g_vel := {qitv(g.get('vel'))} |}}")
    sts, hyp, at2 = [], [], []
    for s, col in zip(case["states"], cols):
        vel, vely = s.get("vel"), s.get("vely")
        if s["cls"] == "ExtendedPMState":
            vely = None  # velocity_y is a derived property there, not a stored attribute
        if vel is not None and vely is not None:
            hyp.append(f"({qq(vel)}, {qq(vely)}, {qq(math.hypot(vel, vely))})")
            at2.append(f"({qq(vely)}, {qq(vel)}, {qq(math.atan2(vely, vel))})")
        sts.append(f"{{| s_time := {qoq(s.get('time'))}; "
                   f"s_pos := {'(Some ' + qlist([qb(b) for b in col]) + ')' if s.get('pos') is not None else 'None'}; "
                   f"s_orient := {qoq(s.get('orient'))}; s_vel := {qoq(vel)}; s_vely := {qoq(vely)} |}}")
    if case["op"] == "is_reached":
        ob = f"(OB {qb(o[1])})" if o[0] == "b" else "OBExc"
        return f"CIsReached {qlist(gts)} {sts[0]} {qlist(hyp)} {qlist(at2)} {ob}"
    og = f"(OG {qb(o[1])} {qz(o[2])})" if o[0] == "g" else "OGExc"
    return f"CGoalReached {qlist(gts)} {qlist(sts)} {qlist(hyp)} {qlist(at2)} {og}"


def corr(ctx, cases):
    use, terms, excluded = [], [], 0
    for c in cases:
        cols = pos_cols(c, build_region(c))
        if corr_excluded(c, cols):
            excluded += 1
            continue
        o = observe(c)
        if o[0] == "exc" and o[1] != "ValueError":
            # only the intended ValueError has a counterpart in the model; anything else is for the oracle
            ctx.corr_break("Corr.C08.check: unexpected exception " + o[1], c)
            continue
        use.append((c, o))
        terms.append(coq_case(c, o, cols))
    imports = ("From Coq Require Import QArith ZArith List Bool NArith.\nImport ListNotations.\n"
               "From CR Require Import Base.QMod Model.Interval Model.Goal Corr.Obs Corr.C08.\nOpen Scope Q_scope.\n")
    defs = f"Definition tau : Q := {qq(TWO_PI)}.\nDefinition chk := check tau.\n"
    bad, errors = ctx.coq_bad_indices("corr", imports, defs, terms, "chk")
    if errors and any(LIB_GONE.search(e) for e in errors):  # another check's clean rebuild removed our .vo files
        tier, ctx.tier = ctx.tier, "quick"  # incremental rebuild, no second clean
        ctx.build_props(extra_targets=["Corr/C08.vo"])
        ctx.tier = tier
        bad, errors = ctx.coq_bad_indices("corr", imports, defs, terms, "chk")
    ctx.coverage["correspondence_cases"] = len(terms)
    ctx.coverage["near_boundary_excluded"] = excluded
    for e in errors:
        ctx.corr_break("Corr.C08.check (coqc failed)", e)
    for i in bad:
        c, o = use[i]
        ctx.corr_break("Corr.C08.check: Model/Goal.v vs GoalRegion.is_reached / PlanningProblem.goal_reached",
                       dict(c, observed=list(map(str, o))))
    ctx.log(f"corr cases={len(terms)} disagree={len(bad)} coq_errors={len(errors)} near_boundary={excluded}")


def run(ctx):
    ctx.trusted = ["Coq 8.16.1 kernel + vm_compute (no native_compute)",
                   "axioms: none (Print Assumptions: Closed under the global context for every theorem)",
                   "hand-written model coq/Model/Goal.v of commonroad/planning/goal.py:88-121,133-154,196-223 and "
                   "planning_problem.py:83-94 (on top of Model/Interval.v, C16), tied to the code by the "
                   "correspondence relation coq/Corr/C08.v evaluated on every run",
                   "shape containment (Shape.contains_point; shapely/GEOS) is an uninterpreted function of the model "
                   "(C06's subject); libm hypot/atan2 and numpy.linalg.norm are uninterpreted / tabulated",
                   "harness/props/c08.py (generators, three-valued exact oracle, own containment tests, Coq printer)",
                   "IEEE-754 arithmetic of CPython/numpy (rounded; model exact over Q)"]
    mod = __import__("props.c08", fromlist=["x"])
    ctx.trusted.insert(3, "harness/props/c08_src.py: parser of the syntax trees of GoalRegion._harmonize_state_types, the "
                          "checks of GoalRegion.is_reached (order, guards, tests) and the frames of is_reached / "
                          "_check_value_in_interval / PlanningProblem.goal_reached into the statement language of "
                          "coq/Model/GoalSrc.v, regenerated on every run as coq/Gen/Src_goal.v (fail-closed); "
                          "C08_reached1_is_source / C08_is_reached_is_source prove that the parsed programs compute reached1 / "
                          "is_reached of Model/Goal.v (2^9 attribute combinations, tests opaque); trusted: the meaning the "
                          "interpreter gives to the accepted Python shapes (used_attributes / has_value = attribute not None, "
                          "a set of names = fld -> bool, deepcopy shares nothing, CustomState(**attributes) keeps every "
                          "attribute, np.linalg.norm of a 2-vector = hypot; frames compared as text up to local names)")
    from props import c08_src
    try:
        changed = c08_src.generate()
        ctx.notes.append(f"Gen/Src_goal.v regenerated from the source ({'changed' if changed else 'unchanged'})")
    except Exception as e:   # SourceShapeError, SyntaxError, OSError: the model is no longer shown to be the source
        ctx.proof_breaks.append({"theorem": "source parser:Gen/Src_goal.v (C08_reached1_is_source / C08_is_reached_is_source "
                                            "/ C08_frames_are_source)", "where": "harness/props/c08_src.py", "log": str(e)})
        ctx.log(f"proof_broken theorem=C08_*_is_source (source parser: {e})")
    ctx.build_props(extra_targets=["Corr/C08.vo"])
    if ctx.tier == "thorough":
        ctx.coqchk()
    n = ctx.n(3000, 30000)
    cases = load_corpus(ctx.prop) + gen(ctx.rng, n)
    skipped = {"inadmissible": 0, "near_boundary": 0, "outside_quantifier": 0}
    expected = {"reached": 0, "not_reached": 0}

    def run_oracle(cs):
        for c in cs:
            nt = nontrivial(c)
            ctx.count(c, nt, kind(c))
            if not judged(c):
                skipped["outside_quantifier"] += 1
            elif any(expected_state(c, s) == "inadmissible" for s in c["states"]):
                skipped["inadmissible"] += 1
            elif not nt:
                skipped["near_boundary"] += 1
            else:
                expected["reached" if any(expected_state(c, s) is True for s in c["states"]) else "not_reached"] += 1
            r = oracle(c)
            if r:
                ctx.fail(r[0], r[1], c)

    run_oracle(cases)
    hist = gen_hist(ctx.rng, cases)
    for c in hist:
        ctx.count(c, True, "history:" + kind(c))
        r = oracle_late(c) if c.get("late") else oracle_hist(c)
        if r:
            ctx.fail(r[0], r[1], c)
    ctx.coverage["histories (query, translate_rotate, query) compared with never-queried regions"] = \
        sum(1 for c in hist if not c.get("late"))
    ctx.coverage["goal regions edited after construction compared with regions built in one go"] = \
        sum(1 for c in hist if c.get("late"))
    corr(ctx, cases)
    if (ctx.proof_breaks or ctx.corr_breaks) and not ctx.failures:
        ctx.log(f"proof/correspondence broke ({len(ctx.proof_breaks)}/{len(ctx.corr_breaks)}); widening the search")
        run_oracle([b["case"] for b in ctx.corr_breaks if isinstance(b.get("case"), dict) and "goals" in b["case"]])
        if not ctx.failures:
            run_oracle(gen_around(ctx.rng, [], n) + gen(ctx.rng, n * 6))
    ctx.coverage["oracle_not_judged"] = skipped
    ctx.coverage["oracle_expected"] = expected
    return ctx.finish(RULE, assumptions=ASSUME)
