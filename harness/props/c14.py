"""C14 — solution files round-trip exactly and follow the solution schema.
tables: harness/props/c14_tables.py regenerates coq/Gen/Tables_C14.v + coq/Gen/Xsd_solution.v from the source
oracle: the property statement (write -> read -> compare bit-exactly; lxml XMLSchema on dump())
corr:   Model/SolutionFmt.v + Model/SolXsd.v evaluated by vm_compute on the same documents (Corr/C14.v):
        PlanningProblemSolution constructor, written tree, reader result, schema verdict; plus mutated trees"""
import copy
import dataclasses
import datetime
import json
import os
import re
import struct
import subprocess
import warnings
import zlib
import xml.etree.ElementTree as ET

import numpy as np
from lxml import etree

from vlib.core import COQ, qlist, qopt, qstr, qz
from vlib.flow import load_corpus

from props import c14_tables

from commonroad.common import solution as sol
from commonroad.scenario import state as st_mod
from commonroad.scenario.scenario import ScenarioID
from commonroad.scenario.trajectory import Trajectory

RULE = ("every (vehicle model x vehicle type x admissible cost function x trajectory kind) combination at least once "
        "per run as a single-problem document, plus cooperative documents of 2-4 problems (schema order / arbitrary "
        "order), state classes own / superset / CustomState with extra attributes; values from an edge stream "
        "(ints up to 2^53, +-1e-300..1e300, subnormals, -0.0, random bit patterns), time steps ascending / shuffled / "
        "duplicated, optional computation time / date (years 1..9999) / processor name; inadmissible combinations and "
        "mutated trees (dropped / duplicated / renamed nodes, bad ids, bad texts) for the correspondence only. "
        "distinct = distinct case dicts; non-trivial = inside the property's domain")
ASSUME = ["float(str(np.float64(x))) == x and str(float)/str(int) texts: oracle pair, tabulated per case by the "
          "implementation's own Python runtime (hypothesis of C14_state_roundtrip / C14_solution_roundtrip); checked "
          "bit-exactly by the oracle on every value",
          "ElementTree tostring . fromstring is the identity on element trees whose text has no control characters",
          "ScenarioID print/parse (C13) and strftime/strptime are oracle pairs; dates compared to the second",
          "domain cuts: >= 1 planning problem, distinct planning-problem ids, time steps 0..2^31-1, ints in float "
          "fields |z| <= 2^53, processor names printable and not 'auto', computation time > 0; schema validity only "
          "demanded for the trajectory types the schema defines, listed in schema order",
          "lexical spaces of the Coq validator: no whitespace facet, no '+' on xs:int, no time zone / fraction on "
          "xs:dateTime (never written; not used by the mutation stream); libxml2 accepts '1e' as xs:float (not used)"]

NAT_CLS = {"PM": "PMState", "ST": "STState", "KS": "KSState", "KST": "KSTState", "MB": "MBState",
           "Input": "InputState", "PMInput": "PMInputState"}
CLS_TYPE = {v: k for k, v in NAT_CLS.items()}
SIDS = [("ZAM_Test-1_1_T-1", "2020a"), ("C-DEU_A9-2_3_T-1", "2020a"), ("USA_Lanker-1_1_S-1", "2018b"),
        ("ZAM_Tjunction-1_42", "2020a"), ("DEU_Muc-30_1_T-1", "2020a")]
XSD_DOC = None


def schema():
    global XSD_DOC
    if XSD_DOC is None:
        XSD_DOC = etree.XMLSchema(etree.parse(c14_tables.XSD_PATH))
    return XSD_DOC


# ------------------------------------------------------------------------------------------ values
def bits(x: float) -> int:
    return struct.unpack("<Q", struct.pack("<d", float(x)))[0]


def from_bits(b: int) -> float:
    return struct.unpack("<d", struct.pack("<Q", b))[0]


def enc(v):
    """python value -> JSON-able: {"f": hex} | {"i": int} | {"a": [..]}"""
    if isinstance(v, (list, tuple, np.ndarray)):
        return {"a": [enc(x) for x in v]}
    if isinstance(v, (bool, np.bool_)):
        raise TypeError("bool")
    if isinstance(v, (int, np.integer)):
        return {"i": int(v)}
    return {"f": float(v).hex()}


def dec(j, as_array_of_float=True):
    if "a" in j:
        vals = [dec(x) for x in j["a"]]
        if all(isinstance(x, float) for x in vals):
            return np.array(vals, dtype=float)
        if all(isinstance(x, int) for x in vals):
            return np.array(vals, dtype=np.int64)
        return np.array(vals, dtype=object)
    if "i" in j:
        return int(j["i"])
    return float.fromhex(j["f"])


EDGE_F = [0.0, -0.0, 1.0, -1.0, 0.1, -0.1, 1.5, 1e-300, -1e-300, 1e300, -1e300, 5e-324, -5e-324, 2.2250738585072014e-308,
          1.1125369292536007e-308, 1.7976931348623157e308, -1.7976931348623157e308, 1e-5, 1e-4, 1e15, 1e16, 1e17,
          123456789.12345679, 0.30000000000000004, 1 / 3, 2 ** 53 + 0.0, 2.0 ** -1074, 9007199254740993.0, 1e22, 1e23,
          5e-5, 0.001, 3.141592653589793, 6.283185307179586, -3.141592653589793, 1e-7, 123456.7, 2.5e-10]


def rand_float(rng):
    k = rng.random()
    if k < 0.3:
        return rng.choice(EDGE_F)
    if k < 0.55:
        return round(rng.uniform(-50, 50), rng.choice([0, 1, 2, 3, 6]))
    if k < 0.7:
        return rng.uniform(-1, 1) * 10.0 ** rng.randint(-300, 300)
    if k < 0.85:
        while True:  # a random finite bit pattern
            x = from_bits(rng.getrandbits(64))
            if x == x and abs(x) != float("inf"):
                return x
    return rng.uniform(-1e3, 1e3)


def rand_scalar(rng):
    if rng.random() < 0.15:
        return rng.choice([0, 1, -1, 3, -7, 100, 2 ** 31, -2 ** 40, 2 ** 53, -2 ** 53, 10 ** 15 - 1, rng.randint(-1000, 1000)])
    return rand_float(rng)


def rand_value(rng, attr):
    if attr == "position":
        if rng.random() < 0.1:
            return [rng.randint(-100, 100), rng.randint(-100, 100)]  # an integer array
        return [rand_float(rng), rand_float(rng)]
    return rand_scalar(rng)


def class_fields(name):
    return [f.name for f in dataclasses.fields(getattr(st_mod, name))]


def rand_times(rng, n):
    t0 = rng.choice([0, 0, 0, 1, 5, 17, 2 ** 31 - 1 - n, rng.randint(0, 1000)])
    ts = [t0 + i for i in range(n)]
    k = rng.random()
    if k < 0.12:
        rng.shuffle(ts)
    elif k < 0.2 and n > 1:
        ts = [t0 + i // 2 for i in range(n)]  # duplicates, ascending
    elif k < 0.25 and n > 1:
        ts = [t0 + rng.randint(0, 2) for _ in range(n)]  # duplicates, unordered
    elif k < 0.3:
        ts = [t0 + 3 * i for i in range(n)]  # gaps
    return ts


def rand_pps(rng, pid, vm, vt, cost, ty, cls=None, n=None):
    """one PlanningProblemSolution spec.  ty = the trajectory type aimed at; cls = state class used"""
    fields = list(sol.StateFields[ty].value)
    if cls is None:
        k = rng.random()
        cls = NAT_CLS[ty] if k < 0.75 else "Custom" if k < 0.9 else \
            {"KS": rng.choice(["STState", "KSTState"]), "PM": "PMState", "ST": "STDState"}.get(ty, NAT_CLS[ty])
    n = n or rng.choice([1, 1, 2, 3, 5])
    if cls == "Custom":
        attrs = [f for f in fields if f != "time_step"]
        rng.shuffle(attrs)
        if rng.random() < 0.5:
            attrs += rng.sample(["acceleration", "jerk", "yaw_rate", "slip_angle", "curvature"], rng.randint(1, 2))
            attrs = list(dict.fromkeys(attrs))
        attrs = ["time_step"] + attrs
    else:
        attrs = class_fields(cls)
    states = []
    for t in rand_times(rng, n):
        states.append({a: enc(t if a == "time_step" else rand_value(rng, a)) for a in attrs})
    return {"id": pid, "vm": vm, "vt": vt, "cost": cost, "ty": ty, "cls": cls, "states": states}


def rand_meta(rng, c):
    if rng.random() < 0.6:
        y = rng.choice([2020, 2024, 1999, 1000, 9999, 999, 1, 476, rng.randint(1000, 9999), rng.randint(1, 9999)])
        mo = rng.randint(1, 12)
        d = rng.randint(1, 28) if rng.random() < 0.8 else [31, 29 if (y % 4 == 0 and (y % 100 != 0 or y % 400 == 0)) else 28,
                                                            31, 30, 31, 30, 31, 31, 30, 31, 30, 31][mo - 1]
        c["date"] = [y, mo, d, rng.choice([0, 23, rng.randint(0, 23)]), rng.choice([0, 59, rng.randint(0, 59)]),
                     rng.choice([0, 59, rng.randint(0, 59)]), rng.choice([0, 0, 999999, rng.randint(0, 999999)])]
    else:
        c["date"] = None
    k = rng.random()
    c["ct"] = None if k < 0.35 else enc(rng.choice([1, 3, 120])) if k < 0.45 else \
        enc(abs(rand_float(rng)) or 0.5)
    # the time as a numpy scalar (np.sum of step times, a perf-counter difference held in an array): same number
    c["ct_np"] = c["ct"] is not None and rng.random() < 0.3
    c["pn"] = None if rng.random() < 0.4 else rng.choice(
        ["Intel Core i7-8550U CPU @ 1.80GHz", "cpu", "", "AMD <Ryzen> & \"co\"", "x y  z", "a'b", "Prozessor üß", "auto"])


def all_combos():
    out = []
    for vm in sol.VehicleModel:
        for vt in sol.VehicleType:
            for cost in sol.SupportedCostFunctions[vm.name].value:
                for tt in sol.TrajectoryType:
                    if tt.valid_vehicle_model(vm):
                        out.append((vm.name, vt.name, cost.name, tt.name))
    return out


def schema_index():
    order = c14_tables.schema_order()
    return {tag: i for i, tag in enumerate(order)}


def gen(rng, n):
    """n = number of cooperative / inadmissible / mutated extras; the exhaustive sweep is always included"""
    combos = all_combos()
    idx = schema_index()
    cases = []
    for (vm, vt, cost, ty) in combos:
        sid, ver = rng.choice(SIDS)
        c = {"op": "doc", "sid": sid, "ver": ver, "pps": [rand_pps(rng, rng.choice([1, 7, 1215, rng.randint(0, 10 ** 6)]),
                                                                   vm, vt, cost, ty)]}
        rand_meta(rng, c)
        cases.append(c)
    for i in range(n):
        k = rng.random()
        sid, ver = rng.choice(SIDS)
        if k < 0.45:  # cooperative
            m = rng.randint(2, 4)
            ids = rng.sample(range(1, 60), m)
            if rng.random() < 0.06:
                ids[1] = ids[0]  # duplicate planning-problem id (dict semantics; outside the property's domain)
            pps = [rand_pps(rng, ids[j], *rng.choice(combos)) for j in range(m)]
            if rng.random() < 0.7:  # schema order
                pps.sort(key=lambda p: idx.get(sol.TrajectoryType[p["ty"]].value, 99))
            c = {"op": "doc", "sid": sid, "ver": ver, "pps": pps}
            rand_meta(rng, c)
            if rng.random() < 0.25:
                c["file"] = True    # also through write_to_file / open, over an existing longer file
            if rng.random() < 0.3:
                # a cost function the vehicle model of one entry does not admit is assigned (and refused)
                j = rng.randrange(m)
                okc = {cf for (vm, _, cf, _) in combos if vm == pps[j]["vm"]}
                badc = sorted(x.name for x in sol.CostFunction if x.name not in okc)
                if badc:
                    c["refuse"] = [j, rng.choice(badc)]
            if rng.random() < 0.3:
                # the planning-problem id of one entry is re-assigned (a plain public attribute) after the Solution was
                # built: the solution then reports the new id, and that is the id the document has to carry
                c["reid"] = [rng.randrange(m), rng.choice([i for i in range(60, 90)])]
        elif k < 0.6:  # constructor alone, any combination (admissible or not)
            vm = rng.choice(list(sol.VehicleModel)).name
            ty = rng.choice(list(sol.TrajectoryType)).name
            cls = rng.choice(list(NAT_CLS.values()) + ["Custom", "STDState", "InitialState"])
            if cls == "Custom" or rng.random() < 0.3:
                p = rand_pps(rng, 1, vm, rng.choice(list(sol.VehicleType)).name, rng.choice(list(sol.CostFunction)).name,
                             ty, cls="Custom", n=1)
                if rng.random() < 0.4 and len(p["states"][0]) > 2:  # drop an attribute: no type fits
                    drop = rng.choice([a for a in p["states"][0] if a != "time_step"])
                    for s in p["states"]:
                        del s[drop]
            else:
                fields = class_fields(cls)
                p = {"id": 1, "vm": vm, "vt": rng.choice(list(sol.VehicleType)).name,
                     "cost": rng.choice(list(sol.CostFunction)).name, "ty": ty, "cls": cls,
                     "states": [{a: enc(0 if a == "time_step" else rand_value(rng, a)) for a in fields}]}
            c = {"op": "type", "pps": p}
        else:  # a mutated tree
            m = rng.randint(1, 3)
            ids = rng.sample(range(1, 60), m)
            pps = [rand_pps(rng, ids[j], *rng.choice(combos), n=rng.choice([1, 2, 3])) for j in range(m)]
            pps.sort(key=lambda p: idx.get(sol.TrajectoryType[p["ty"]].value, 99))
            c = {"op": "tree", "sid": sid, "ver": ver, "pps": pps, "mut": rng.choice(MUTATIONS), "mseed": rng.randint(0, 10 ** 9)}
            rand_meta(rng, c)
            if c["pn"] == "auto":
                c["pn"] = "cpu"
            if c["date"] and c["date"][0] < 1000:
                c["date"][0] += 1000
        cases.append(c)
    return cases


# ------------------------------------------------------------------------------------------ implementation
def build_state(cls, attrs):
    vals = {a: dec(v) for a, v in attrs.items()}
    if cls == "Custom":
        return st_mod.CustomState(**vals)
    return getattr(st_mod, cls)(**vals)


def build_pps(p):
    """-> ('ok', PlanningProblemSolution, attrs0) | ('exc', name, attrs0)"""
    states = [build_state(p["cls"], s) for s in p["states"]]
    attrs0 = list(states[0].attributes)
    try:
        traj = Trajectory(states[0].time_step, states)
        return ("ok", sol.PlanningProblemSolution(p["id"], sol.VehicleModel[p["vm"]], sol.VehicleType[p["vt"]],
                                                  sol.CostFunction[p["cost"]], traj), attrs0)
    except (sol.SolutionException, AssertionError, KeyError) as e:
        return ("exc", type(e).__name__, attrs0)


def date_of(c):
    return None if c.get("date") is None else datetime.datetime(*c["date"])


def date_text(d):
    return None if d is None else "%04d-%02d-%02dT%02d:%02d:%02d" % (d.year, d.month, d.day, d.hour, d.minute, d.second)


def build_solution(c):
    """-> (solution | None, [ctor results])"""
    res = [build_pps(p) for p in c["pps"]]
    if any(r[0] != "ok" for r in res):
        return None, res
    with warnings.catch_warnings():
        warnings.simplefilter("ignore")
        sid = ScenarioID.from_benchmark_id(c["sid"], c["ver"])
    ct = None if c["ct"] is None else dec(c["ct"])
    if c.get("ct_np"):
        ct = np.float64(ct) if isinstance(ct, float) else np.int64(ct)
    so = sol.Solution(sid, [r[1] for r in res], date=date_of(c), computation_time=ct, processor_name=c["pn"])
    if c.get("reid"):
        res[c["reid"][0]][1].planning_problem_id = c["reid"][1]
    if c.get("refuse"):
        # a setter is given a value the class documents as inadmissible: it raises, and the solution stays what it was
        i, cost = c["refuse"]
        p = res[i][1]
        before = (p.vehicle_model, p.vehicle_type, p.cost_function, p.trajectory_type)
        try:
            p.cost_function = sol.CostFunction[cost]
            c["_refused"] = "accepted"
        except Exception as e:  # noqa
            c["_refused"] = type(e).__name__
        c["_refused_changed"] = (p.vehicle_model, p.vehicle_type, p.cost_function, p.trajectory_type) != before
    return so, res


def write(solution):
    """-> ('ok', bytes, pretty str) | ('exc', name)"""
    try:
        w = sol.CommonRoadSolutionWriter(solution)
        return ("ok", w.dump(pretty=False), w.dump(pretty=True))
    except Exception as e:  # noqa  (any exception of the writer is an observation)
        return ("exc", type(e).__name__ + ": " + str(e)[:80])


def read(data):
    try:
        with warnings.catch_warnings():
            warnings.simplefilter("ignore")
            if zlib.crc32(data if isinstance(data, bytes) else str(data).encode()) % 3 == 0:
                # the document was read before in this process and what was read then was edited (a 2018b solution
                # upgraded, a map renamed): what is read now is the document again
                try:
                    first = sol.CommonRoadSolutionReader.fromstring(data)
                    first.scenario_id.scenario_version = "2018b" if first.scenario_id.scenario_version != "2018b" else "2020a"
                    first.scenario_id.map_name = "Edited"
                    first.computation_time = 123.5
                except Exception:  # noqa - the first reading is not what is judged
                    pass
            return ("ok", sol.CommonRoadSolutionReader.fromstring(data))
    except Exception as e:  # noqa  (any exception of the reader is an observation)
        return ("exc", type(e).__name__ + ": " + str(e)[:80])


def file_roundtrip(solution):
    """the document written to a FILE (over an existing, longer one, with overwrite=True) and opened again;
    -> None | (signature, what)"""
    import shutil
    import tempfile
    d = tempfile.mkdtemp(prefix="verif-c14-", dir="/var/tmp")
    try:
        w = sol.CommonRoadSolutionWriter(solution)
        try:
            w.write_to_file(d, "s.xml", overwrite=False, pretty=True)      # the longer rendering first
            w.write_to_file(d, "s.xml", overwrite=True, pretty=False)      # then the compact one over it
        except Exception as e:  # noqa
            return ("file:write raises " + type(e).__name__, f"write_to_file raises {type(e).__name__}: {str(e)[:100]}")
        try:
            with warnings.catch_warnings():
                warnings.simplefilter("ignore")
                back = sol.CommonRoadSolutionReader.open(os.path.join(d, "s.xml"))
        except Exception as e:  # noqa
            return ("file:overwritten file cannot be read:" + type(e).__name__,
                    f"a solution written with overwrite=True over a longer existing file cannot be opened again: "
                    f"{type(e).__name__}: {str(e)[:100]}")
        if back.benchmark_id != solution.benchmark_id or back.planning_problem_ids != solution.planning_problem_ids:
            return ("file:overwritten file reads back differently", f"{solution.benchmark_id!r} -> {back.benchmark_id!r}")
        return None
    finally:
        shutil.rmtree(d, ignore_errors=True)


def lxml_valid(data):
    try:
        doc = etree.fromstring(data if isinstance(data, bytes) else data.encode("utf-8"))
    except etree.XMLSyntaxError:
        return False
    return bool(schema().validate(doc))


# ------------------------------------------------------------------------------------------ oracle
def same_value(a, b):
    """bit-identical: floats by bit pattern; an int may come back as the float of the same value"""
    if isinstance(a, np.ndarray) or isinstance(b, np.ndarray):
        a, b = np.asarray(a), np.asarray(b)
        return a.shape == b.shape and all(same_value(x, y) for x, y in zip(a.tolist(), b.tolist()))
    if isinstance(a, (int, np.integer)) and not isinstance(a, bool):
        return (isinstance(b, (int, float, np.integer, np.floating))) and b == a
    if isinstance(a, (float, np.floating)):
        return isinstance(b, (float, np.floating)) and bits(a) == bits(b)
    return a == b


def in_domain(c):
    """the property's quantifier domain (DESIGN 2.7 + statement)"""
    if c["op"] != "doc" or not c["pps"]:
        return False
    if len({p["id"] for p in c["pps"]}) != len(c["pps"]):
        return False
    if c["pn"] == "auto" or (c["pn"] is not None and not all(ch.isprintable() for ch in c["pn"])):
        return False
    for p in c["pps"]:
        nat = p["cls"] == NAT_CLS[p["ty"]]
        if not nat and p["cls"] != "Custom" and p["cls"] not in ("STState", "KSTState", "STDState"):
            return False
        for s in p["states"]:
            for a, v in s.items():
                vals = v["a"] if "a" in v else [v]
                for x in vals:
                    if "i" in x and a != "time_step" and abs(x["i"]) > 2 ** 53:
                        return False
                    if a == "time_step" and not (0 <= x["i"] < 2 ** 31):
                        return False
    return True


def oracle(c):
    if c.get("op") != "doc" or not in_domain(c):
        return None
    solution, res = build_solution(c)
    for p, r in zip(c["pps"], res):
        if r[0] != "ok":
            return (f"ctor:{p['vm']}:{p['ty']}:{p['cls']}:{r[1]}",
                    f"PlanningProblemSolution({p['vm']}, {p['cost']}, {p['cls']} states) raises {r[1]}")
    tys = [r[1].trajectory_type.name for r in res]
    if any(t != p["ty"] for t, p in zip(tys, c["pps"])):
        return None  # a superset class classified differently: not the combination aimed at, nothing to demand
    if c.get("refuse") and c.get("_refused") not in (None, "accepted") and c.get("_refused_changed"):
        p = c["pps"][c["refuse"][0]]
        return (f"setter:refused value is kept:{p['vm']}",
                f"cost_function = {c['refuse'][1]} on a {p['vm']} solution raises {c['_refused']} but the solution now holds it "
                f"(the document written from it cannot be read back)")
    w = write(solution)
    if w[0] != "ok":
        return (f"write:{w[1].split(':')[0]}", f"writer raises {w[1]} for {[(p['vm'], p['ty']) for p in c['pps']]}")
    data, pretty = w[1], w[2]
    r = read(data)
    if r[0] != "ok":
        kind = r[1].split(":")[0]
        m = re.search(r"StateType\.(\w+)", r[1])
        what = (m.group(1) if m else "+".join(sorted({p["ty"] for p in c["pps"]}))) if "KeyError" in kind else \
            ("year<1000" if c["date"] and c["date"][0] < 1000 else "")
        return (f"read:{kind}:{what}", f"reader raises {r[1]} on the writer's own output "
                                       f"(types {tys}, date {c['date']})")
    back = r[1]
    if c.get("file"):
        fr = file_roundtrip(solution)
        if fr:
            return fr
    rp = read(pretty)
    if rp[0] != "ok":
        return (f"read-pretty:{rp[1].split(':')[0]}", f"reader raises {rp[1]} on dump(pretty=True)")

    def bad(sig, what):
        return (sig, what + f" [{[(p['vm'], p['vt'], p['cost'], p['ty'], p['cls']) for p in c['pps']]}]")

    for tag, b in (("", back), ("pretty:", rp[1])):
        if b.benchmark_id != solution.benchmark_id:
            return bad(tag + "benchmark_id", f"benchmark id {solution.benchmark_id!r} reads back as {b.benchmark_id!r}")
        if b.planning_problem_ids != solution.planning_problem_ids:
            return bad(tag + "pp_ids", f"planning problem ids {solution.planning_problem_ids} -> {b.planning_problem_ids}")
        if [t.name for t in b.trajectory_types] != tys:
            return bad(tag + "trajectory_types", f"trajectory types {tys} -> {[t.name for t in b.trajectory_types]}")
        for p, orig, got in zip(c["pps"], solution.planning_problem_solutions, b.planning_problem_solutions):
            if (got.vehicle_model, got.vehicle_type, got.cost_function) != \
                    (orig.vehicle_model, orig.vehicle_type, orig.cost_function):
                return bad(tag + "vehicle/cost", "vehicle model / type / cost function changed")
            fields = sol.StateFields[p["ty"]].value
            exp = sorted(orig.trajectory.state_list, key=lambda s: s.time_step)  # stable
            gs = got.trajectory.state_list
            ts = [s.time_step for s in gs]
            if ts != sorted(ts) or ts != [s.time_step for s in exp]:
                return bad(tag + "time_steps", f"time steps {[s.time_step for s in exp]} read back as {ts}")
            if got.trajectory.initial_time_step != ts[0]:
                return bad(tag + "initial_time_step", "initial time step is not the first time step")
            for se, sg in zip(exp, gs):
                for f in fields:
                    if not same_value(getattr(se, f), getattr(sg, f)):
                        return bad(f"{tag}value:{p['ty']}", f"{p['ty']}.{f}: {getattr(se, f)!r} reads back as "
                                                           f"{getattr(sg, f)!r}")
        if (solution.computation_time is None) != (b.computation_time is None) or \
                (solution.computation_time is not None and not same_value(solution.computation_time, b.computation_time)):
            return bad(tag + "computation_time", f"computation time {solution.computation_time!r} -> {b.computation_time!r}")
        if b.processor_name != solution.processor_name:
            return bad(tag + "processor_name", f"processor name {solution.processor_name!r} -> {b.processor_name!r}")
        d = date_of(c)
        if (d is None) != (b.date is None) or (d is not None and b.date != d.replace(microsecond=0)):
            return bad(tag + "date", f"date {d} -> {b.date}")
    # schema: only for the types the schema defines, listed in schema order
    idx = schema_index()
    tags = [sol.TrajectoryType[t].value for t in tys]
    if all(t in idx for t in tags) and [idx[t] for t in tags] == sorted(idx[t] for t in tags):
        for tag, d in (("", data), ("pretty:", pretty)):
            if not lxml_valid(d):
                err = str(schema().error_log.last_error)[:160]
                what = "date:year<1000" if "dateTime" in err else "+".join(sorted(set(tys)))
                return bad(f"{tag}schema:{what}", f"dump() violates the shipped schema: {err}")
    return None


def nontrivial(c):
    return in_domain(c)


def kind(c):
    if c["op"] == "doc":
        return "doc:" + ("coop" if len(c["pps"]) > 1 else c["pps"][0]["ty"] if c["pps"] else "empty")
    if c["op"] == "tree":
        return "tree:" + c["mut"]
    return c["op"]


# ------------------------------------------------------------------------------------------ mutations of a tree
def _leaves(root):
    return [(s, l) for t in root for s in t for l in s]


def m_shuffle_states(root, rng):
    t = rng.choice(list(root))
    ks = list(t)
    rng.shuffle(ks)
    for k in list(t):
        t.remove(k)
    t.extend(ks)


def m_swap_traj(root, rng):
    ks = list(root)
    rng.shuffle(ks)
    for k in list(root):
        root.remove(k)
    root.extend(ks)


def m_drop_leaf(root, rng):
    s, l = rng.choice(_leaves(root))
    s.remove(l)


def m_dup_leaf(root, rng):
    s, l = rng.choice(_leaves(root))
    s.insert(rng.randint(0, len(s)), copy.deepcopy(l))


def m_rename_leaf(root, rng):
    s, l = rng.choice(_leaves(root))
    l.tag = rng.choice(["foo", "X", "Time", "velocity2"])


def m_extra_leaf(root, rng):
    s, l = rng.choice(_leaves(root))
    e = ET.Element("comment")
    e.text = "1.0"
    s.append(e)


def m_leaf_text(root, rng):
    s, l = rng.choice(_leaves(root))
    if l.tag == "time":
        l.text = rng.choice(["1.0", "99999999999", "-1", "abc", "", "2147483648", "-0", "007"])
    else:
        l.text = rng.choice(["inf", "nan", "abc", "", "1,5", "INF", "-INF", "NaN", "1E5", ".5", "5.", "1e+3", "0x10", "--1"])


def m_root_tag(root, rng):
    root.tag = "CommonRoadSolutions"


def m_traj_tag(root, rng):
    rng.choice(list(root)).tag = rng.choice(["fooTrajectory", "ksTrajectory", "pmInputVector", "kstTrajectory"])


def m_state_tag(root, rng):
    t = rng.choice(list(root))
    rng.choice(list(t)).tag = rng.choice(["ksState", "pmState", "input", "state"])


def m_no_states(root, rng):
    t = rng.choice(list(root))
    for k in list(t):
        t.remove(k)


def m_pp_attr(root, rng):
    t = rng.choice(list(root))
    k = rng.random()
    if k < 0.4:
        del t.attrib["planningProblem"]
    elif k < 0.7:
        t.set("planningProblem", rng.choice(["abc", "1.5", ""]))
    else:
        t.set("foo", "1")


def m_bid(root, rng):
    k = rng.random()
    b = root.get("benchmark_id")
    parts = b.split(":")
    if k < 0.2:
        del root.attrib["benchmark_id"]
    elif k < 0.4:
        root.set("benchmark_id", ":".join(parts[:3]))
    elif k < 0.6:
        root.set("benchmark_id", ":".join([rng.choice(["XX1", "KS9", "KS", "K1", "KSTT1", "[KS2", "PM1,PM2"])] + parts[1:]))
    elif k < 0.8:
        root.set("benchmark_id", ":".join([parts[0], rng.choice(["XX1", "JB2", "", "[JB1]"])] + parts[2:]))
    else:
        root.set("benchmark_id", " " + b.replace(",", " , "))


def m_header(root, rng):
    k = rng.random()
    if k < 0.35:
        root.set("date", rng.choice(["2020-13-01T00:00:00", "2020-02-30T00:00:00", "2020-01-01", "abc", "2020-01-01T25:00:00",
                                     "2021-02-29T10:00:00", "2020-02-29T10:00:00", "2020-01-01T00:00:60"]))
    elif k < 0.7:
        root.set("computation_time", rng.choice(["-1.5", "0", "0.0", "abc", "inf", "1e-320", "-0.0", "5"]))
    elif k < 0.85:
        root.set("foo", "bar")
    else:
        root.attrib.pop("date", None)
        root.attrib.pop("computation_time", None)
        root.attrib.pop("processor_name", None)


MUT_FN = {"shuffle_states": m_shuffle_states, "swap_traj": m_swap_traj, "drop_leaf": m_drop_leaf, "dup_leaf": m_dup_leaf,
          "rename_leaf": m_rename_leaf, "extra_leaf": m_extra_leaf, "leaf_text": m_leaf_text, "root_tag": m_root_tag,
          "traj_tag": m_traj_tag, "state_tag": m_state_tag, "no_states": m_no_states, "pp_attr": m_pp_attr, "bid": m_bid,
          "header": m_header, "none": lambda root, rng: None}
MUTATIONS = sorted(MUT_FN)


# ------------------------------------------------------------------------------------------ Coq terms
def q_num(j):
    if "i" in j:
        return f"(NZ _ {qz(j['i'])})"
    return f"(NF _ {qz(bits(float.fromhex(j['f'])))})"


def q_fv(j):
    if "a" in j:
        return "(FA _ " + qlist([q_num(x) for x in j["a"]]) + ")"
    return f"(FS _ {q_num(j)})"


def q_state(s):
    return qlist([f"({qstr(a)}, {q_fv(v)})" for a, v in s.items()])


def q_pyval(v):
    return q_fv(enc(v))


def q_tree(e):
    attrs = qlist([f"({qstr(k)}, {qstr(v)})" for k, v in e.attrib.items()])
    kids = qlist([q_tree(k) for k in e])
    return f"(Node {qstr(e.tag)} {attrs} {kids} {qstr(e.text or '')})"


def coq_ok_string(s):
    return all(ch.isprintable() for ch in s)  # Coq string literals are byte strings: UTF-8 passes through


def tree_strings_ok(e):
    return coq_ok_string(e.tag) and coq_ok_string(e.text or "") and all(coq_ok_string(k) and coq_ok_string(v)
                                                                        for k, v in e.attrib.items()) \
        and all(tree_strings_ok(k) for k in e)


def q_raw(p, r):
    obs = qopt(r[1].trajectory_type.name if r[0] == "ok" else None, qstr)
    return ("{| r_id := %s; r_vm := %s; r_vt := %s; r_cost := %s; r_attrs0 := %s; r_states := %s; r_obs := %s |}" % (
        qz(p["id"]), qstr(p["vm"]), qz(sol.VehicleType[p["vt"]].value), qstr(p["cost"]), qlist([qstr(a) for a in r[2]]),
        qlist([q_state(s) for s in p["states"]]), obs))


def q_back(b):
    """the reader's Solution as a Coq solution_c (states projected on the fields of their type, table order)"""
    pps = []
    for p in b.planning_problem_solutions:
        # the reader builds the class of the *node's* type; PlanningProblemSolution may re-classify it (a stState read
        # under a KS vehicle id is a KS trajectory of STState objects), so print the fields of the class built
        sts = qlist([qlist([f"({qstr(f)}, {q_pyval(getattr(s, f))})"
                            for f in sol.StateFields[CLS_TYPE[type(s).__name__]].value]) for s in p.trajectory.state_list])
        pps.append("{| p_id := %s; p_vm := %s; p_vt := %s; p_cost := %s; p_ty := %s; p_states := %s |}" % (
            qz(p.planning_problem_id), qstr(p.vehicle_model.name), qz(p.vehicle_type.value), qstr(p.cost_function.name),
            qstr(p.trajectory_type.name), sts))
    ct = "None" if b.computation_time is None else f"(Some {q_num(enc(b.computation_time))})"
    return ("{| s_sid := (%s, %s); s_pps := %s; s_date := %s; s_ctime := %s; s_pname := %s |}" % (
        qstr(str(b.scenario_id)), qstr(b.scenario_id.scenario_version), qlist(pps), qopt(date_text(b.date), qstr), ct,
        qopt(b.processor_name, qstr)))


_CPU = []


def cpu_name():
    if not _CPU:
        try:
            _CPU.append(sol.CommonRoadSolutionWriter._get_processor_name())
        except Exception:  # noqa
            _CPU.append(None)
    return _CPU[0]


def q_oracle(float_bits, texts):
    fs = qlist([f"({qz(b)}, {qstr(str(np.float64(from_bits(b))))})" for b in sorted(float_bits)])
    fp = []
    for t in sorted(texts):
        try:
            fp.append(f"({qstr(t)}, {qz(bits(float(t)))})")
        except (ValueError, OverflowError):
            pass
    cpu = cpu_name()
    return "{| o_fstr := %s; o_fparse := %s; o_cpu := %s |}" % (fs, qlist(fp), qopt(cpu if cpu and coq_ok_string(cpu) else None, qstr))


def case_floats(c):
    out = set()
    pps = c["pps"] if isinstance(c["pps"], list) else [c["pps"]]
    for p in pps:
        for s in p["states"]:
            for v in s.values():
                for x in (v["a"] if "a" in v else [v]):
                    if "f" in x:
                        out.add(bits(float.fromhex(x["f"])))
    if c.get("ct") and "f" in c["ct"]:
        out.add(bits(float.fromhex(c["ct"]["f"])))
    return out


def tree_texts(e, out):
    for k, v in e.attrib.items():
        out.add(v)
    if e.text:
        out.add(e.text)
    for k in e:
        tree_texts(k, out)
    return out


def coq_term(c):
    """-> Coq term of type Corr.C14.case, or None if the case cannot be expressed (non-ASCII text)"""
    if c["op"] == "type":
        r = build_pps(c["pps"])
        return "CType " + q_raw(c["pps"], r)
    if c["pn"] is not None and not coq_ok_string(c["pn"]):
        return None
    solution, res = build_solution(c)
    raws = qlist([q_raw(p, r) for p, r in zip(c["pps"], res)])
    ct = "None" if c["ct"] is None else f"(Some {q_num(c['ct'])})"
    if c["op"] == "doc":
        if solution is None:
            return (f"CDoc {q_oracle(case_floats(c), set())} ({qstr(c['sid'])}, {qstr(c['ver'])}) {raws} "
                    f"{qopt(date_text(date_of(c)), qstr)} {ct} {qopt(c['pn'], qstr)} None None false")
        if c["pn"] == "auto" and not (cpu_name() and coq_ok_string(cpu_name())):
            return None
        w = write(solution)
        if w[0] != "ok":
            return (f"CDoc {q_oracle(case_floats(c), set())} ({qstr(c['sid'])}, {qstr(c['ver'])}) {raws} "
                    f"{qopt(date_text(date_of(c)), qstr)} {ct} {qopt(c['pn'], qstr)} None None false")
        root = ET.fromstring(w[1])
        if not tree_strings_ok(root):
            return None
        r = read(w[1])
        valid = lxml_valid(w[1])
        if lxml_valid(w[2]) != valid:
            raise RuntimeError("lxml verdicts differ between dump(pretty=True) and dump(pretty=False)")
        back = "None" if r[0] != "ok" else f"(Some {q_back(r[1])})"
        orc = q_oracle(case_floats(c), tree_texts(root, set()))
        return (f"CDoc {orc} ({qstr(c['sid'])}, {qstr(c['ver'])}) {raws} {qopt(date_text(date_of(c)), qstr)} {ct} "
                f"{qopt(c['pn'], qstr)} (Some {q_tree(root)}) {back} {'true' if valid else 'false'}")
    # mutated tree
    if solution is None:
        return None
    w = write(solution)
    if w[0] != "ok":
        return None
    root = ET.fromstring(w[1])
    import random
    MUT_FN[c["mut"]](root, random.Random(c["mseed"]))
    data = ET.tostring(root, encoding="utf-8")
    root = ET.fromstring(data)  # what both consumers see
    if not tree_strings_ok(root):
        return None
    r = read(data)
    valid = lxml_valid(data)
    back = "None" if r[0] != "ok" else f"(Some {q_back(r[1])})"
    orc = q_oracle(case_floats(c), tree_texts(root, set()))
    return f"CTree {orc} {q_tree(root)} true {back} true {'true' if valid else 'false'}"


def corr(ctx, cases):
    use, terms = [], []
    skipped = 0
    for c in cases:
        if c.get("op") not in ("doc", "tree", "type") or c.get("reid") or c.get("refuse"):
            continue    # re-assigned ids: judged by the oracle only (the model's solution is a value)
        t = coq_term(c)
        if t is None:
            skipped += 1
            continue
        use.append(c)
        terms.append(t)
    imports = ("From Coq Require Import String List ZArith Bool.\nImport ListNotations.\n"
               "From CR Require Import Model.SolTypes Model.SolutionFmt Corr.C14.\n"
               "Open Scope string_scope.\nOpen Scope list_scope.\n")
    bad, errors = ctx.coq_bad_indices("corr", imports, "", terms, "check", shard=60)
    ctx.coverage["correspondence_cases"] = len(terms)
    ctx.coverage["correspondence_skipped_non_ascii"] = skipped
    for e in errors:
        ctx.corr_break("Corr.C14.check (coqc failed)", e)
    for i in bad:
        ctx.corr_break("Corr.C14.check: Model/SolutionFmt.v + Model/SolXsd.v vs commonroad.common.solution / lxml", use[i])
    ctx.log(f"corr cases={len(terms)} disagree={len(bad)} coq_errors={len(errors)} skipped={skipped}")


# ------------------------------------------------------------------------------------------ run
def run(ctx):
    ctx.trusted = ["Coq 8.16.1 kernel + vm_compute (no native_compute)",
                   "axioms: none (Print Assumptions: Closed under the global context for every theorem)",
                   "translators harness/props/c14_tables.py (solution.py enums, reader's state_types literal, "
                   "valid_vehicle_model tabulated, XSD -> Coq); fail-closed; the Coq validator built from the generated "
                   "schema is compared with lxml on every written and every mutated document",
                   "hand-written model coq/Model/SolutionFmt.v of commonroad/common/solution.py:228-265,343-399,470-610,"
                   "638-788,831-885 and validator coq/Model/SolXsd.v, tied to the code by Corr/C14.v on every run",
                   "oracle pairs (hypotheses of the theorems): str(np.float64)/float, str(int)->float, ScenarioID "
                   "print/parse, strftime/strptime; ElementTree serialise/parse",
                   "harness/props/c14.py (generators, oracle, Coq term printer)"]
    try:
        _, _, changed = c14_tables.generate()
        if changed:
            ctx.log("regenerated " + ", ".join(changed))
    except c14_tables.TableError as e:
        ctx.proof_breaks.append({"theorem": "table translator (fail-closed)", "where": "harness/props/c14_tables.py",
                                 "log": str(e)})
        ctx.log(f"proof_broken theorem=tables ({e})")
    ok = ctx.build_props(extra_targets=["Corr/C14.vo"])
    if not ok:  # the correspondence relation itself does not depend on the theorems: build it anyway
        lock = ctx._lock()
        try:
            subprocess.run(["timeout", "600", "make", "-f", "Makefile.coq", "Corr/C14.vo"], cwd=COQ, capture_output=True)
        finally:
            lock.close()
    if ctx.tier == "thorough" and ok:
        ctx.coqchk()
    n = ctx.n(260, 6000)
    cases = load_corpus(ctx.prop) + gen(ctx.rng, n)

    def run_oracle(cs):
        for c in cs:
            ctx.count(c, nontrivial(c), kind(c))
            r = oracle(c)
            if r:
                ctx.fail(r[0], r[1], c)

    run_oracle(cases)
    corr(ctx, cases)
    if (ctx.proof_breaks or ctx.corr_breaks) and not ctx.failures:
        ctx.log(f"proof/correspondence broke ({len(ctx.proof_breaks)}/{len(ctx.corr_breaks)}); widening the search")
        run_oracle([b["case"] for b in ctx.corr_breaks if isinstance(b.get("case"), dict)])
        if not ctx.failures:
            run_oracle(gen(ctx.rng, n * 6))
    return ctx.finish(RULE, assumptions=ASSUME)
