"""The CommonRoad protobuf scenario format as data (DESIGN 5/C02), the protobuf counterpart of props/xmlfmt.py.

ONE description serves four purposes, so that they cannot drift apart:
  * `coq_table()`  -> coq/Gen/PbFmt.v: modules W (what the protobuf writer fills) and R (what the reader consumes)
                      of `fmt` tables for the generic codec of Model/Codec.v, the descriptor table `pb_desc` read
                      from the *_pb2 modules and the list of enum-typed fields (regenerated on every run);
  * `extract(...)` -> the value (`val`) a Python object denotes under a table, through public accessors;
  * `msg_tree(..)` -> a real protobuf message converted to the abstract `tree` with the protobuf runtime only
                      (ListFields: set fields in field-number order; enum numbers -> member names through the
                      descriptor) - this conversion does NOT look at the description, so a field the description
                      does not know shows up as an extra child;
  * `check_descriptors()` -> fail-closed cross-check of the description against the *_pb2 descriptors.
A message is a record: one child per set singular field, one child per element of a repeated field, children in
field-number order (the description's fields are sorted by the descriptor's field numbers).  `oneof` members are
optional fields (proto2: HasField).  Doubles are exact rationals, enums travel as member NAMES.
Tables that already exist in the source are read from it: the attributes of a State and the country enums of a
TrafficSignElement come from the descriptors.  Presence discipline of every field (set unconditionally / guarded /
appended; read unguarded / HasField-guarded) is re-derived from the writer / reader source by props/c02_scan.py."""
import dataclasses
import importlib
import pkgutil
from fractions import Fraction

import numpy as np

from commonroad.common.util import Interval
from commonroad.geometry.shape import Circle, Polygon, Rectangle, Shape, ShapeGroup
from commonroad.prediction.prediction import SetBasedPrediction, TrajectoryPrediction
from commonroad.scenario.state import InitialState

REQ, OPT, MANY = "MReq", "MOpt", "MMany"


class OutOfDomain(Exception):
    """the object is not expressible under the description (outside the admissible domain of C02)"""


class L:  # leaf
    def __init__(self, kind, enum=None):
        self.kind, self.enum = kind, enum  # num | int | str | bool ; enum: protobuf enum type name (kind str)


NUM, INT, STR, BOOL = L("num"), L("int"), L("str"), L("bool")
_ENUM_LEAVES = {}


def E(name):
    if name not in _ENUM_LEAVES:
        _ENUM_LEAVES[name] = L("str", enum=name)
    return _ENUM_LEAVES[name]


class F:  # field of a message
    def __init__(self, name, mult, fmt, get, default=None, as_set=False, always=False, tolerant=False,
                 dynamic=False):
        self.name, self.mult, self.fmt, self.get = name, mult, fmt, get
        self.default = default    # reader default of an initial state (unset ~ default, as the statement allows)
        self.as_set = as_set      # the API holds a set: compared as a set (both sides sorted)
        self.always = always      # REQ although the .proto says optional: the writer sets it unconditionally
        self.tolerant = tolerant  # REQ in the data model (mandatory constructor argument); a None guard of the
        #                           writer is outside the admissible domain
        self.dynamic = dynamic    # set through setattr / getattr in the source (State, SignalState): not scanned
        self.wmult = self.rmult = mult  # what the code does; refined by props/c02_scan.py (deviations)
        self.number = None

    def mult_for(self, side):
        return self.wmult if side == "W" else self.rmult


class M:  # message
    def __init__(self, label, msg, fields, writer=None, reader=None):
        self.label, self.msg, self.fields = label, msg, fields
        self.writer, self.reader = writer, reader  # classes of the real writer / reader handling this message
        self.accepts = None  # classes of objects the table describes (None: any)


# ------------------------------------------------------------------------------------------ descriptors
def _pb_modules():
    import commonroad.scenario_definition.protobuf_format.generated_scripts as gs
    return [importlib.import_module(gs.__name__ + "." + mi.name) for mi in pkgutil.iter_modules(gs.__path__)]


_DESC = None


def descriptors():
    """message name -> Descriptor, for all top-level messages of the shipped definition"""
    global _DESC
    if _DESC is None:
        _DESC = {}
        for mod in _pb_modules():
            for name, d in mod.DESCRIPTOR.message_types_by_name.items():
                _DESC[name] = d
    return _DESC


def msg_class(name):
    for mod in _pb_modules():
        if name in mod.DESCRIPTOR.message_types_by_name:
            return getattr(mod, name)
    raise KeyError(name)


# ------------------------------------------------------------------------------------------ the description
def is_itv(v):
    return isinstance(v, Interval)


def is_pt(p):
    return isinstance(p, (np.ndarray, list, tuple))


POINT = M("Point", "Point", [F("x", REQ, NUM, lambda p: p[0]), F("y", REQ, NUM, lambda p: p[1])],
          "PointMessage", "PointFactory")
RECT = M("Rectangle", "Rectangle", [
    F("length", REQ, NUM, lambda r: r.length), F("width", REQ, NUM, lambda r: r.width),
    F("center", OPT, POINT, lambda r: r.center), F("orientation", OPT, NUM, lambda r: r.orientation)],
    "RectangleMessage", "RectangleFactory")
CIRC = M("Circle", "Circle", [F("radius", REQ, NUM, lambda c: c.radius), F("center", OPT, POINT, lambda c: c.center)],
         "CircleMessage", "CircleFactory")
POLY = M("Polygon", "Polygon", [F("vertices", MANY, POINT, lambda p: list(p.vertices))],
         "PolygonMessage", "PolygonFactory")


def only(cls):
    return lambda s: s if isinstance(s, cls) else None


# a Shape message is recursive (Shape -> ShapeGroup -> Shape); the tables are finite: groups of basic shapes
MEMBER = M("Shape_member", "Shape", [F("rectangle", OPT, RECT, only(Rectangle)), F("circle", OPT, CIRC, only(Circle)),
                                     F("polygon", OPT, POLY, only(Polygon))], "ShapeMessage", "ShapeFactory")
GROUP = M("ShapeGroup", "ShapeGroup", [F("shapes", MANY, MEMBER, lambda g: list(g.shapes))],
          "ShapeGroupMessage", "ShapeGroupFactory")
SHAPE = M("Shape", "Shape", [F("rectangle", OPT, RECT, only(Rectangle)), F("circle", OPT, CIRC, only(Circle)),
                             F("polygon", OPT, POLY, only(Polygon)), F("shape_group", OPT, GROUP, only(ShapeGroup))],
          "ShapeMessage", "ShapeFactory")

MEMBER.accepts = (Rectangle, Circle, Polygon)
SHAPE.accepts = (Rectangle, Circle, Polygon, ShapeGroup)

INT_ITV = M("IntegerInterval", "IntegerInterval", [F("start", REQ, INT, lambda v: v.start), F("end", REQ, INT, lambda v: v.end)],
            "IntegerIntervalMessage", "IntegerIntervalFactory")
FLT_ITV = M("FloatInterval", "FloatInterval", [F("start", REQ, NUM, lambda v: v.start), F("end", REQ, NUM, lambda v: v.end)],
            "FloatIntervalMessage", "FloatIntervalFactory")
INT_VAL = M("IntegerExactOrInterval", "IntegerExactOrInterval", [
    F("exact", OPT, INT, lambda v: None if is_itv(v) else v), F("interval", OPT, INT_ITV, lambda v: v if is_itv(v) else None)],
    "IntegerExactOrIntervalMessage", "IntegerExactOrIntervalFactory")
FLT_VAL = M("FloatExactOrInterval", "FloatExactOrInterval", [
    F("exact", OPT, NUM, lambda v: None if is_itv(v) else v), F("interval", OPT, FLT_ITV, lambda v: v if is_itv(v) else None)],
    "FloatExactOrIntervalMessage", "FloatExactOrIntervalFactory")


def attr_get(attr):
    def get(st):
        return getattr(st, attr, None) if attr in st.attributes else None
    return get


def state_fields(initial=False):
    """point | shape (the position), time_step and every optional attribute the State message has a field for -
    read from the descriptor, which is the table the writer's getattr(state_msg, attr) goes through"""
    dflt = {f.name: 0.0 for f in dataclasses.fields(InitialState) if f.name not in ("time_step", "position")} \
        if initial else {}

    def pos(kind):
        def get(st):
            p = getattr(st, "position", None) if "position" in st.attributes else None
            if p is None:
                return None
            return p if (is_pt(p) if kind == "point" else isinstance(p, Shape)) else None
        return get
    fs = []
    for fd in descriptors()["State"].fields:
        if fd.name == "point":
            fs.append(F("point", OPT, POINT, pos("point"), default=np.array([0.0, 0.0]) if initial else None, dynamic=True))
        elif fd.name == "shape":
            fs.append(F("shape", OPT, SHAPE, pos("shape"), dynamic=True))
        elif fd.name == "time_step":
            fs.append(F("time_step", REQ, INT_VAL, lambda st: st.time_step, dynamic=True))
        else:
            fs.append(F(fd.name, OPT, FLT_VAL, attr_get(fd.name), default=dflt.get(fd.name), dynamic=True))
    return fs


STATE = M("State", "State", state_fields(), "StateMessage", "StateFactory")
INITIAL_STATE = M("State_initial", "State", state_fields(initial=True), "StateMessage", "StateFactory")


def sig_get(name):
    return lambda s: getattr(s, name) if hasattr(s, name) and getattr(s, name) is not None else None


SIGNAL = M("SignalState", "SignalState",
           [F("time_step", OPT, INT_VAL, sig_get("time_step"), dynamic=True)] +
           [F(n, OPT, BOOL, sig_get(n), dynamic=True) for n in ("horn", "indicator_left", "indicator_right", "braking_lights",
                                                                "hazard_warning_lights", "flashing_blue_lights")],
           "SignalStateMessage", "SignalStateFactory")
OCCUPANCY = M("Occupancy", "Occupancy", [F("time_step", REQ, INT_VAL, lambda o: o.time_step),
                                         F("shape", REQ, SHAPE, lambda o: o.shape)], "OccupancyMessage", "OccupancyFactory")
OCCSET = M("OccupancySet", "OccupancySet", [F("occupancies", MANY, OCCUPANCY, lambda occs: list(occs))],
           "OccupancySetMessage", "OccupancySetFactory")
TRAJECTORY = M("Trajectory", "Trajectory", [F("initial_time_step", REQ, INT, lambda t: t.initial_time_step),
                                            F("states", MANY, STATE, lambda t: list(t.state_list))],
               "TrajectoryMessage", "TrajectoryFactory")
TRAJ_PRED = M("TrajectoryPrediction", "TrajectoryPrediction", [F("trajectory", REQ, TRAJECTORY, lambda p: p.trajectory),
                                                               F("shape", REQ, SHAPE, lambda p: p.shape)],
              "TrajectoryPredictionMessage", "TrajectoryPredictionFactory")
SET_PRED = M("SetBasedPrediction", "SetBasedPrediction", [
    F("initial_time_step", REQ, INT, lambda p: p.initial_time_step),
    F("occupancy_set", REQ, OCCSET, lambda p: p.occupancy_set)], "SetBasedPredictionMessage", "SetBasedPredictionFactory")


def pred_of(cls):
    return lambda o: o.prediction if isinstance(o.prediction, cls) else None


def ename(get):
    def g(o):
        m = get(o)
        return None if m is None else m.name
    return g


STATIC = M("StaticObstacle", "StaticObstacle", [
    F("static_obstacle_id", REQ, INT, lambda o: o.obstacle_id),
    F("obstacle_type", REQ, E("ObstacleType"), ename(lambda o: o.obstacle_type)),
    F("shape", REQ, SHAPE, lambda o: o.obstacle_shape), F("initial_state", REQ, INITIAL_STATE, lambda o: o.initial_state),
    F("initial_signal_state", OPT, SIGNAL, lambda o: o.initial_signal_state),
    F("signal_series", MANY, SIGNAL, lambda o: list(o.signal_series or []))],
    "StaticObstacleMessage", "StaticObstacleFactory")
DYNAMIC = M("DynamicObstacle", "DynamicObstacle", [
    F("dynamic_obstacle_id", REQ, INT, lambda o: o.obstacle_id),
    F("obstacle_type", REQ, E("ObstacleType"), ename(lambda o: o.obstacle_type)),
    F("shape", REQ, SHAPE, lambda o: o.obstacle_shape), F("initial_state", REQ, INITIAL_STATE, lambda o: o.initial_state),
    F("trajectory_prediction", OPT, TRAJ_PRED, pred_of(TrajectoryPrediction)),
    F("set_based_prediction", OPT, SET_PRED, pred_of(SetBasedPrediction)),
    F("initial_signal_state", OPT, SIGNAL, lambda o: o.initial_signal_state),
    F("signal_series", MANY, SIGNAL, lambda o: list(o.signal_series or []))],
    "DynamicObstacleMessage", "DynamicObstacleFactory")
ENVOBST = M("EnvironmentObstacle", "EnvironmentObstacle", [
    F("environment_obstacle_id", REQ, INT, lambda o: o.obstacle_id),
    F("obstacle_type", REQ, E("ObstacleType"), ename(lambda o: o.obstacle_type)),
    F("obstacle_shape", REQ, SHAPE, lambda o: o.obstacle_shape)], "EnvironmentObstacleMessage", "EnvironmentObstacleFactory")
PHANTOM = M("PhantomObstacle", "PhantomObstacle", [F("obstacle_id", REQ, INT, lambda o: o.obstacle_id),
                                                   F("prediction", OPT, SET_PRED, lambda o: o.prediction)],
            "PhantomObstacleMessage", "PhantomObstacleFactory")


def bound(side):
    return M("Bound_" + side, "Bound", [
        F("points", MANY, POINT, lambda la: list(getattr(la, side + "_vertices"))),
        F("line_marking", OPT, E("LineMarking"), ename(lambda la: getattr(la, "line_marking_" + side + "_vertices")))],
        "BoundMessage", "BoundFactory")


def stop_points(s):
    return [p for p in (s.start, s.end) if p is not None]


STOPLINE = M("StopLine", "StopLine", [
    F("points", MANY, POINT, stop_points), F("line_marking", REQ, E("LineMarking"), ename(lambda s: s.line_marking)),
    F("traffic_sign_refs", MANY, INT, lambda s: list(s.traffic_sign_ref or []), as_set=True),
    F("traffic_light_refs", MANY, INT, lambda s: list(s.traffic_light_ref or []), as_set=True)],
    "StopLineMessage", "StopLineFactory")


def drv(attr):
    def get(la):
        v = getattr(la, attr)
        return None if v is None else ("SAME" if v else "OPPOSITE")
    return get


def names(attr):
    return lambda la: [m.name for m in (getattr(la, attr) or [])]


LANELET = M("Lanelet", "Lanelet", [
    F("lanelet_id", REQ, INT, lambda la: la.lanelet_id), F("left_bound", REQ, bound("left"), lambda la: la),
    F("right_bound", REQ, bound("right"), lambda la: la),
    F("predecessors", MANY, INT, lambda la: list(la.predecessor)), F("successors", MANY, INT, lambda la: list(la.successor)),
    F("adjacent_left", OPT, INT, lambda la: la.adj_left), F("adjacent_right", OPT, INT, lambda la: la.adj_right),
    F("adjacent_left_dir", OPT, E("DrivingDir"), drv("adj_left_same_direction")),
    F("adjacent_right_dir", OPT, E("DrivingDir"), drv("adj_right_same_direction")),
    F("stop_line", OPT, STOPLINE, lambda la: la.stop_line),
    F("lanelet_types", MANY, E("LaneletType"), names("lanelet_type"), as_set=True),
    F("user_one_way", MANY, E("RoadUser"), names("user_one_way"), as_set=True),
    F("user_bidirectional", MANY, E("RoadUser"), names("user_bidirectional"), as_set=True),
    F("traffic_sign_refs", MANY, INT, lambda la: list(la.traffic_signs or []), as_set=True),
    F("traffic_light_refs", MANY, INT, lambda la: list(la.traffic_lights or []), as_set=True)],
    "LaneletMessage", "LaneletFactory")


def sign_element_fields():
    """the oneof of country enums, read from the descriptor; the Python enum of the same name must exist"""
    import commonroad.scenario.traffic_sign as ts
    fs, classes = [], []
    for fd in descriptors()["TrafficSignElement"].fields:
        if fd.enum_type is not None:
            classes.append(getattr(ts, fd.enum_type.name))  # AttributeError = fail closed

    def first_match(i):
        # two country enums may be one Python class (Zamunda is an alias of Germany): the first member of the oneof
        # whose class fits carries the id, as in the writer's isinstance chain
        for k, cls in enumerate(classes):
            if isinstance(i, cls):
                return k
        raise OutOfDomain(f"traffic sign element id of type {type(i).__name__}")
    for fd in descriptors()["TrafficSignElement"].fields:
        if fd.enum_type is not None:
            def get(e, k=len(fs)):
                i = e.traffic_sign_element_id
                return i.name if first_match(i) == k else None
            fs.append(F(fd.name, OPT, E(fd.enum_type.name), get))
    if len(fs) < 5:
        raise ValueError("TrafficSignElement: country enum fields not found in the descriptor")

    def vals(e):
        for v in e.additional_values:
            if not isinstance(v, str):
                raise OutOfDomain("additional value of a traffic sign element is not a string")
        return list(e.additional_values)
    fs.append(F("additional_values", MANY, STR, vals))
    return fs


SIGN_ELEMENT = M("TrafficSignElement", "TrafficSignElement", sign_element_fields(),
                 "TrafficSignElementMessage", "TrafficSignElementFactory")
SIGN = M("TrafficSign", "TrafficSign", [
    F("traffic_sign_id", REQ, INT, lambda s: s.traffic_sign_id),
    F("traffic_sign_elements", MANY, SIGN_ELEMENT, lambda s: list(s.traffic_sign_elements)),
    F("first_occurrences", MANY, INT, lambda s: list(s.first_occurrence or []), as_set=True),
    F("position", REQ, POINT, lambda s: s.position, tolerant=True), F("virtual", OPT, BOOL, lambda s: s.virtual)],
    "TrafficSignMessage", "TrafficSignFactory")
CYCLE_EL = M("CycleElement", "CycleElement", [F("duration", REQ, INT, lambda e: e.duration),
                                              F("color", REQ, E("TrafficLightState"), ename(lambda e: e.state))],
             "CycleElementMessage", "CycleElementFactory")
LIGHT = M("TrafficLight", "TrafficLight", [
    F("traffic_light_id", REQ, INT, lambda t: t.traffic_light_id),
    F("cycle_elements", MANY, CYCLE_EL, lambda t: list(t.traffic_light_cycle.cycle_elements)),
    F("position", REQ, POINT, lambda t: t.position, tolerant=True),
    F("time_offset", OPT, INT, lambda t: t.traffic_light_cycle.time_offset),
    F("direction", OPT, E("TrafficLightDirection"), ename(lambda t: t.direction)),
    F("active", OPT, BOOL, lambda t: t.active)], "TrafficLightMessage", "TrafficLightFactory")
INCOMING = M("Incoming", "Incoming", [
    F("incoming_id", REQ, INT, lambda i: i.incoming_id),
    F("incoming_lanelets", MANY, INT, lambda i: list(i.incoming_lanelets or []), as_set=True),
    F("successors_right", MANY, INT, lambda i: list(i.successors_right or []), as_set=True),
    F("successors_straight", MANY, INT, lambda i: list(i.successors_straight or []), as_set=True),
    F("successors_left", MANY, INT, lambda i: list(i.successors_left or []), as_set=True),
    F("is_left_of", OPT, INT, lambda i: i.left_of)], "IncomingMessage", "IncomingFactory")
INTERSECTION = M("Intersection", "Intersection", [
    F("intersection_id", REQ, INT, lambda x: x.intersection_id), F("incomings", MANY, INCOMING, lambda x: list(x.incomings)),
    F("crossing_lanelets", MANY, INT, lambda x: list(x.crossings or []), as_set=True)],
    "IntersectionMessage", "IntersectionFactory")


class Goal:
    def __init__(self, state, lanelets):
        self.state, self.lanelets = state, lanelets


def goals(p):
    log = p.goal.lanelets_of_goal_position
    out = []
    for i, st in enumerate(p.goal.state_list):
        out.append(Goal(st, list(log[i]) if log is not None and i in log.keys() else []))
    return out


GOAL = M("GoalState", "GoalState", [F("state", REQ, STATE, lambda g: g.state),
                                    F("goal_position_lanelets", MANY, INT, lambda g: list(g.lanelets))],
         "GoalStateMessage", "GoalStateFactory")
PROBLEM = M("PlanningProblem", "PlanningProblem", [
    F("planning_problem_id", REQ, INT, lambda p: p.planning_problem_id),
    F("initial_state", REQ, INITIAL_STATE, lambda p: p.initial_state), F("goal_states", MANY, GOAL, goals)],
    "PlanningProblemMessage", "PlanningProblemFactory")

GEOTRANS = M("GeoTransformation", "GeoTransformation", [
    F("geo_reference", REQ, STR, lambda g: g.geo_reference, always=True),
    F("x_translation", REQ, NUM, lambda g: g.x_translation, always=True),
    F("y_translation", REQ, NUM, lambda g: g.y_translation, always=True),
    F("z_rotation", REQ, NUM, lambda g: g.z_rotation, always=True), F("scaling", REQ, NUM, lambda g: g.scaling, always=True)],
    "GeoTransformationMessage", "GeoTransformationFactory")
# the time of an Environment (commonroad.common.util.Time): hour and minute only - what the writer fills for a Time
TIME = M("TimeStamp_time", "TimeStamp", [F("hour", REQ, INT, lambda t: t.hours, always=True),
                                         F("minute", REQ, INT, lambda t: t.minutes, always=True)],
         "TimeStampMessage", "TimeStampFactory")
ENVIRONMENT = M("Environment", "Environment", [
    F("time", OPT, TIME, lambda e: e.time), F("time_of_day", OPT, E("TimeOfDay"), ename(lambda e: e.time_of_day)),
    F("weather", OPT, E("Weather"), ename(lambda e: e.weather)),
    F("underground", OPT, E("Underground"), ename(lambda e: e.underground))], "EnvironmentMessage", "EnvironmentFactory")
LOCATION = M("Location", "Location", [
    F("geo_name_id", REQ, INT, lambda l: l.geo_name_id), F("gps_latitude", REQ, NUM, lambda l: l.gps_latitude),
    F("gps_longitude", REQ, NUM, lambda l: l.gps_longitude),
    F("geo_transformation", OPT, GEOTRANS, lambda l: l.geo_transformation),
    F("environment", OPT, ENVIRONMENT, lambda l: l.environment)], "LocationMessage", "LocationFactory")
TAGS = M("ScenarioTags", "ScenarioTags", [F("tags", MANY, E("Tag"), lambda tags: [t.name for t in tags], as_set=True)],
         "ScenarioTagsMessage", "ScenarioTagsFactory")
INFORMATION = M("ScenarioInformation", "ScenarioInformation", [
    F("common_road_version", REQ, STR, lambda d: d.sc.scenario_id.scenario_version),
    F("benchmark_id", REQ, STR, lambda d: str(d.sc.scenario_id)), F("author", REQ, STR, lambda d: d.author),
    F("affiliation", REQ, STR, lambda d: d.affiliation), F("source", REQ, STR, lambda d: d.source),
    F("time_step_size", REQ, NUM, lambda d: d.sc.dt)], "ScenarioInformationMessage", "ScenarioInformationFactory")
# fields of the .proto that are deliberately outside the tables (message, field) -> why
IGNORED = {("ScenarioInformation", "date"): "the writer's wall clock (datetime.today()), discarded by the reader"}
# fields the code touches only on a path that belongs to an ignored field (static scan only; the tree conversion
# still shows them, so a year written into an Environment's time is an unknown child)
SCAN_EXEMPT = {("TimeStamp", f): "filled / read for the header date only (datetime branch)" for f in ("year", "month", "day")}


class Doc:
    """what the writer is given: scenario, planning problems and its own meta arguments"""
    def __init__(self, sc, pps, meta):
        from commonroad.scenario.scenario import Location
        self.sc, self.pps = sc, pps
        self.author, self.affiliation, self.source = meta["author"], meta["affiliation"], meta["source"]
        self.tags = meta["tags"] if meta["tags"] is not None else (sc.tags or set())
        self.location = meta["location"] if meta["location"] is not None else Location()


ROOT = M("CommonRoad", "CommonRoad", [
    F("information", REQ, INFORMATION, lambda d: d), F("scenario_tags", REQ, TAGS, lambda d: d.tags),
    F("location", REQ, LOCATION, lambda d: d.location),
    F("lanelets", MANY, LANELET, lambda d: list(d.sc.lanelet_network.lanelets)),
    F("traffic_signs", MANY, SIGN, lambda d: list(d.sc.lanelet_network.traffic_signs)),
    F("traffic_lights", MANY, LIGHT, lambda d: list(d.sc.lanelet_network.traffic_lights)),
    F("intersections", MANY, INTERSECTION, lambda d: list(d.sc.lanelet_network.intersections)),
    F("static_obstacles", MANY, STATIC, lambda d: list(d.sc.static_obstacles)),
    F("dynamic_obstacles", MANY, DYNAMIC, lambda d: list(d.sc.dynamic_obstacles)),
    F("environment_obstacles", MANY, ENVOBST, lambda d: list(d.sc.environment_obstacle)),
    F("phantom_obstacles", MANY, PHANTOM, lambda d: list(d.sc.phantom_obstacle)),
    F("planning_problems", MANY, PROBLEM, lambda d: list(d.pps.planning_problem_dict.values()) if d.pps else [])],
    "ProtobufFileWriter", "CommonRoadFactory")


def all_messages():
    """every message table reachable from the root, dependencies first"""
    out, seen = [], set()

    def walk(m):
        if isinstance(m, L) or id(m) in seen:
            return
        seen.add(id(m))
        for f in m.fields:
            walk(f.fmt)
        out.append(m)
    walk(ROOT)
    return out


# ------------------------------------------------------------------------------------------ descriptor cross-check
from google.protobuf.descriptor import FieldDescriptor as FD  # noqa: E402

_INT_TYPES = {FD.TYPE_INT32, FD.TYPE_UINT32, FD.TYPE_INT64, FD.TYPE_UINT64, FD.TYPE_SINT32, FD.TYPE_SINT64}


def check_descriptors():
    """fail closed: every field of the description exists in the *_pb2 descriptor of its message with a compatible
    label and type; every required field of the descriptor is in the description.  Sorts the fields of every
    table by field number.  Returns the .proto fields the description does not cover (reported in the evidence)."""
    ds = descriptors()
    uncovered = []
    labels = set()
    for m in all_messages():
        if m.label in labels:
            raise ValueError(f"duplicate table label {m.label}")
        labels.add(m.label)
        if m.msg not in ds:
            raise ValueError(f"message {m.msg} is not in the protobuf definition")
        d = ds[m.msg]
        seen = set()
        for f in m.fields:
            if f.name in seen:
                raise ValueError(f"{m.label}.{f.name} described twice")
            seen.add(f.name)
            if f.name not in d.fields_by_name:
                raise ValueError(f"{m.msg} has no field {f.name} in the protobuf definition")
            fd = d.fields_by_name[f.name]
            f.number = fd.number
            rep = fd.label == FD.LABEL_REPEATED
            if (f.mult == MANY) != rep:
                raise ValueError(f"{m.msg}.{f.name}: described {f.mult}, descriptor label {fd.label}")
            if f.mult == REQ and fd.label != FD.LABEL_REQUIRED and not (f.always or f.tolerant):
                raise ValueError(f"{m.msg}.{f.name}: described required, the .proto says optional")
            if fd.label == FD.LABEL_REQUIRED and f.mult != REQ:
                raise ValueError(f"{m.msg}.{f.name}: the .proto says required, described {f.mult}")
            if f.as_set and not isinstance(f.fmt, L):
                raise ValueError(f"{m.msg}.{f.name}: only scalar fields can be sets")
            if isinstance(f.fmt, L):
                ok = {"num": fd.type in (FD.TYPE_DOUBLE, FD.TYPE_FLOAT), "int": fd.type in _INT_TYPES,
                      "bool": fd.type == FD.TYPE_BOOL,
                      "str": (fd.type == FD.TYPE_STRING and f.fmt.enum is None) or
                             (fd.type == FD.TYPE_ENUM and f.fmt.enum == fd.enum_type.name)}[f.fmt.kind]
                if fd.type == FD.TYPE_FLOAT:
                    ok = False  # a float32 field would round: the exact-leaf claim needs doubles
                if not ok:
                    raise ValueError(f"{m.msg}.{f.name}: leaf {f.fmt.kind}/{f.fmt.enum} does not fit descriptor type {fd.type}")
            else:
                if fd.type != FD.TYPE_MESSAGE or fd.message_type.name != f.fmt.msg:
                    raise ValueError(f"{m.msg}.{f.name}: described as message {f.fmt.msg}, descriptor says otherwise")
        for fd in d.fields:
            if fd.name not in seen and (m.msg, fd.name) not in IGNORED:
                if fd.label == FD.LABEL_REQUIRED:
                    raise ValueError(f"{m.msg}.{fd.name} is required by the .proto but not described")
                uncovered.append(f"{m.label}.{fd.name}")
        m.fields.sort(key=lambda f: f.number)
    return uncovered


# ------------------------------------------------------------------------------------------ extraction
def atom(kind, x):
    if kind == "num":
        if isinstance(x, (bool, np.bool_)) or not isinstance(x, (int, float, np.integer, np.floating)):
            raise OutOfDomain(f"num leaf holds {type(x).__name__}")
        return ("num", Fraction(float(x)))
    if kind == "int":
        if isinstance(x, (bool, np.bool_)) or not isinstance(x, (int, np.integer)):
            raise OutOfDomain(f"int leaf holds {type(x).__name__}")
        return ("int", int(x))
    if kind == "bool":
        if not isinstance(x, (bool, np.bool_)):
            raise OutOfDomain(f"bool leaf holds {type(x).__name__}")
        return ("bool", bool(x))
    if not isinstance(x, str):
        raise OutOfDomain(f"str leaf holds {type(x).__name__}")
    return ("str", x)


def _eq(a, b):
    if isinstance(b, np.ndarray):
        return isinstance(a, (np.ndarray, list, tuple)) and len(a) == len(b) and all(float(p) == float(q) for p, q in zip(a, b))
    return not isinstance(a, (Interval, Shape, np.ndarray)) and a == b


def extract(fmt, obj, side="W", msg=None):
    """value of obj under the table of `side`.  Repeated fields that denote sets are sorted.  msg: on the read-back
    side the message the object was read from - an optional field with a documented reader default (initial
    states: 0) that is absent from the message and holds the default counts as unset."""
    if isinstance(fmt, L):
        return ("atom", atom(fmt.kind, obj))
    if msg is not None and msg.DESCRIPTOR.name != fmt.msg:
        msg = None
    if fmt.accepts is not None and not isinstance(obj, fmt.accepts):
        raise OutOfDomain(f"{type(obj).__name__} where a {fmt.label} is expected (nested shape groups are not described)")
    vs = []
    for f in fmt.fields:
        x = f.get(obj)
        mult = f.mult_for(side)
        sub = None
        absent = False
        if msg is not None:
            if f.mult == MANY:
                sub = list(getattr(msg, f.name))
            else:
                absent = not msg.HasField(f.name)
                sub = None if absent else getattr(msg, f.name)
        if mult == REQ:
            if x is None:
                raise OutOfDomain(f"{fmt.label}.{f.name} is None but set unconditionally")
            vs.append(extract(f.fmt, x, side, sub if not isinstance(sub, list) else None))
        elif mult == OPT:
            if x is not None and f.default is not None and absent and _eq(x, f.default):
                x = None
            vs.append(("none",) if x is None else ("some", extract(f.fmt, x, side, sub if not isinstance(sub, list) else None)))
        else:
            x = list(x)
            subs = sub if isinstance(sub, list) and len(sub) == len(x) else [None] * len(x)
            items = [extract(f.fmt, y, side, s if not isinstance(f.fmt, L) else None) for y, s in zip(x, subs)]
            if f.as_set:
                items.sort(key=lambda it: it[1])
            vs.append(("list", items))
    return ("rec", vs)


# ------------------------------------------------------------------------------------------ message -> abstract tree
def msg_tree(msg, tag):
    """abstract tree of a real message, by the protobuf runtime alone (ListFields = the set fields in field-number
    order; HasField semantics of proto2).  Enum numbers become member names through the descriptor."""
    kids = []
    for fd, val in msg.ListFields():
        if (msg.DESCRIPTOR.name, fd.name) in IGNORED:
            continue
        for x in (val if fd.label == FD.LABEL_REPEATED else [val]):
            if fd.type == FD.TYPE_MESSAGE:
                kids.append(msg_tree(x, fd.name))
            elif fd.type == FD.TYPE_ENUM:
                v = fd.enum_type.values_by_number.get(x)
                kids.append(("leaf", fd.name, ("str", v.name if v is not None else f"?number {x}")))
            elif fd.type in (FD.TYPE_DOUBLE, FD.TYPE_FLOAT):
                kids.append(("leaf", fd.name, ("num", Fraction(float(x)))))
            elif fd.type == FD.TYPE_BOOL:
                kids.append(("leaf", fd.name, ("bool", bool(x))))
            elif fd.type == FD.TYPE_STRING:
                kids.append(("leaf", fd.name, ("str", x)))
            elif fd.type in _INT_TYPES:
                kids.append(("leaf", fd.name, ("int", int(x))))
            else:
                kids.append(("leaf", fd.name, ("str", f"?type {fd.type}")))
    return ("node", tag, kids)


def sort_sets(fmt, tree):
    """the groups of children that denote sets (as_set fields: scalar leaves) sorted - sets are compared as sets"""
    if isinstance(fmt, L) or tree[0] != "node":
        return tree
    by = {f.name: f for f in fmt.fields}
    kids = [sort_sets(by[k[1]].fmt, k) if k[1] in by else k for k in tree[2]]
    out, i = [], 0
    while i < len(kids):
        j = i
        while j < len(kids) and kids[j][1] == kids[i][1]:
            j += 1
        grp = kids[i:j]
        f = by.get(kids[i][1])
        if f is not None and f.as_set and all(k[0] == "leaf" for k in grp):
            grp.sort(key=lambda k: k[2])
        out += grp
        i = j
    return ("node", tree[1], out)


# ------------------------------------------------------------------------------------------ Coq printers
def coq_atom(a):
    from vlib.core import qq, qstr, qz
    k, x = a
    if k == "num":
        return f"(ANum {qq(x)})"
    if k == "int":
        return f"(AInt {qz(x)})"
    if k == "bool":
        return f"(ABool {'true' if x else 'false'})"
    return f"(AStr {qstr(x)})"


def coq_val(v):
    k = v[0]
    if k == "atom":
        return f"(VAtom {coq_atom(v[1])})"
    if k == "none":
        return "VNone"
    if k == "some":
        return f"(VSome {coq_val(v[1])})"
    items = "[" + "; ".join(coq_val(x) for x in v[1]) + "]"
    return f"(VRec {items})" if k == "rec" else f"(VList {items})"


def coq_tree(t):
    from vlib.core import qstr
    if t[0] == "leaf":
        return f"(Leaf {qstr(t[1])} {coq_atom(t[2])})"
    return f"(Node {qstr(t[1])} [" + "; ".join(coq_tree(k) for k in t[2]) + "])"


def coq_table():
    """Gen/PbFmt.v: module W = what the writer fills, module R = what the reader consumes (one Definition per
    message table, dependencies first, `records` = (protobuf message name, table)); pb_desc = the descriptors of
    the messages used; pb_ignored; pb_enum_fields = (message, field, enum type) of every enum-typed field"""
    from vlib.core import qstr
    check_descriptors()
    msgs = all_messages()
    leaf = {"num": "(FLeaf KNum)", "int": "(FLeaf KInt)", "str": "(FLeaf KStr)", "bool": "(FLeaf KBool)"}

    def module(side):
        out = []
        for m in msgs:
            body = "FNil"
            for f in reversed(m.fields):
                sub = leaf[f.fmt.kind] if isinstance(f.fmt, L) else "f_" + f.fmt.label
                body = f"(FCons {qstr(f.name)} {f.mult_for(side)} {sub}\n    {body})"
            out.append(f"Definition f_{m.label} : fmt := FRec {body}.")
        recs = ";\n  ".join(f"({qstr(m.msg)}, f_{m.label})" for m in msgs)
        return (f"Module {side}.\n" + "\n".join(out) + f"\nDefinition pb_root : fmt := f_{ROOT.label}.\n"
                f"Definition records : list (string * fmt) := [\n  {recs}].\nEnd {side}.\n")

    ds = descriptors()
    lab = {FD.LABEL_OPTIONAL: "LOptional", FD.LABEL_REQUIRED: "LRequired", FD.LABEL_REPEATED: "LRepeated"}

    def ptype(fd):
        if fd.type == FD.TYPE_MESSAGE:
            return f"(PMsg {qstr(fd.message_type.name)})"
        if fd.type == FD.TYPE_ENUM:
            return f"(PEnum {qstr(fd.enum_type.name)})"
        if fd.type == FD.TYPE_DOUBLE:
            return "PDouble"
        if fd.type == FD.TYPE_BOOL:
            return "PBool"
        if fd.type == FD.TYPE_STRING:
            return "PString"
        if fd.type in _INT_TYPES:
            return "PInt"
        return "POther"
    drows = []
    for name in sorted({m.msg for m in msgs}):
        frows = "; ".join(f"({qstr(fd.name)}, {lab[fd.label]}, {ptype(fd)})" for fd in ds[name].fields)
        drows.append(f"  ({qstr(name)}, [{frows}])")
    erows = sorted({f"  ({qstr(m.msg)}, {qstr(f.name)}, {qstr(f.fmt.enum)})" for m in msgs for f in m.fields
                    if isinstance(f.fmt, L) and f.fmt.enum})
    irows = [f"({qstr(a)}, {qstr(b)})" for a, b in sorted(IGNORED)]
    hdr = ("(* GENERATED by harness/props/c02_pbfmt.py from the format description (State attributes and traffic-sign\n"
           "   country enums: *_pb2 descriptors; presence discipline re-derived from the writer / reader source by\n"
           "   props/c02_scan.py).  Do not edit.\n"
           "   W: what the protobuf writer fills.  R: what the protobuf reader consumes.  pb_desc: the descriptors. *)\n"
           "From Coq Require Import String List.\nFrom CR Require Import Model.Codec Model.PbDesc.\nImport ListNotations.\n"
           "Open Scope string_scope.\n\n")
    return (hdr + module("W") + "\n" + module("R") + "\n"
            "Definition pb_desc : list (string * list (string * plabel * ptype)) := [\n" + ";\n".join(drows) + "\n].\n\n"
            "Definition pb_ignored : list (string * string) := [" + "; ".join(irows) + "].\n\n"
            "Definition pb_enum_fields : list (string * string * string) := [\n" + ";\n".join(erows) + "\n].\n")


def generate():
    """(re)write coq/Gen/PbFmt.v; returns True if it changed.  Hook for harness/gen_tables.py / setup.sh: never raises
    (the C02 driver itself regenerates the table fail-closed, see props/c02.py:tables)"""
    import gen_tables
    from props import c02_scan
    try:
        c02_scan.apply()
        return gen_tables.write_if_changed("PbFmt.v", coq_table())
    except Exception as e:  # noqa
        print(f"c02_pbfmt.generate: {type(e).__name__}: {e}")
        return False
