"""C20 — lanelet arc-length geometry and successor-route enumeration are sound.
oracle: the property statement re-evaluated independently (arc-length re-integration with math.hypot over ALL
        coordinates of the vertices (2-D and 3-D lanelets), linear interpolation, concatenation, path checker) vs
        Lanelet.distance / interpolate_position / merge_lanelets / find_lanelet_successors_in_range /
        find_lanelet_predecessors_in_range; "every lanelet" includes lanelets with a history (cached distances read
        before, convert_to_2d) and the lanelet merge_lanelets returns (its distance array and interpolate_position)
corr:   Model/ArcLen.v and Model/Routes.v evaluated by vm_compute on the same cases (Corr/C20.v)"""
import math
import random
import re
import signal
from fractions import Fraction as F

import numpy as np

from vlib.core import qq, qz, qlist
from vlib.flow import load_corpus

from commonroad.scenario.lanelet import Lanelet, LaneletNetwork

TOL = 1e-9
RULE = ("cases from one seeded PRNG: centre lines of 2-30 vertices (exactly representable: axis-aligned / Pythagorean "
        "steps with dyadic scale, so every cumulative length is exact; general: curved, rounded to 3 decimals; edge: "
        "segments of 1e-6, coordinates of 1e5; a few with repeated vertices, compared with the model only), 2-D "
        "(n x 2) and, about one in three, 3-D (n x 3: Pythagorean-quadruple steps / level / ramps / hilly elevation, "
        "banked boundaries), with independent left / right boundaries; lanelet histories: fresh, cumulative distances "
        "read (cached) before, convert_to_2d with and without cached distances; arc lengths 0, full length, exactly at every kind of vertex, interior, "
        "mid-segment, just outside, int / float / numpy scalars; merge pairs with coinciding, almost coinciding "
        "(inside / outside numpy.isclose) and separated joints, relation stored on either or both sides, both "
        "argument orders, unconnected pairs, 2-D and 3-D, parts of different vertex count / spacing, distances of the "
        "parts cached before or not; every merged lanelet is itself judged as a lanelet (its whole cumulative-distance "
        "array against its own centre line, interpolate_position at 0, full length, merged vertices incl. the joint, "
        "mid-segment and interior arc lengths); digraphs of 1-9 nodes + start (chains, cycles through and beside the "
        "start, diamonds, random, successor and predecessor variants, exact dyadic lengths) x range limits 0, "
        "tiny, exactly a path length, default 50, large, ints. distinct = distinct case dicts; non-trivial = judged "
        "by the oracle (inside the quantifier)")
ASSUME = ["sqrt is an oracle of the model: the case files carry the segment lengths numpy computed; the harness checks "
          "l^2 = dx^2 + dy^2 (+ dz^2) within 1e-15 relative on every case, in the harness and again inside Coq "
          "(Corr.C20.lens_ok)",
          "a 2-D vertex is modelled as the 3-D vertex with z = 0 (numpy works on whole rows; the z terms vanish); the "
          "oracle additionally demands that returned points have the dimension of the lanelet's vertices",
          "numpy.cumsum adds sequentially (rounded; model exact): cumulative lengths and points compared within "
          "1e-9*max(1, scale); the segment index is compared exactly when all cumulative sums are exact in binary "
          "floating point, otherwise arc lengths within 1e-9 of a vertex are compared by the oracle only",
          "numpy.searchsorted(a, v) on a sorted array returns the first index i with v <= a[i]",
          "quantifier: consecutive vertices distinct, no lanelet its own successor / predecessor, all referenced "
          "ids resolve; concatenation / length-sum of a merge are judged when all three joints coincide exactly; "
          "the distance / interpolation clauses are judged on every lanelet a successful merge returns (against the "
          "vertices it returns) and on lanelets after convert_to_2d (against the projected vertices)"]


LIB_GONE = re.compile(r"Cannot find a physical path|Cannot find library|Compiled library .* makes inconsistent|"
                      r"No such file|Unable to locate library|bad version number|is corrupted|End_of_file")


# ------------------------------------------------------------------------------------ building objects
def build_lanelet(d, lid=None):
    return Lanelet(np.array(d["left"], dtype=float), np.array(d["center"], dtype=float),
                   np.array(d["right"], dtype=float), d.get("id", 1) if lid is None else lid,
                   predecessor=list(d.get("pred", [])), successor=list(d.get("succ", [])))


def build_network(case):
    net = LaneletNetwork()
    objs = {}
    for k, nd in case["nodes"].items():
        i = int(k)
        L = nd["len"]
        xs = [L * j / (nd.get("pts", 2) - 1) for j in range(nd.get("pts", 2))]
        la = Lanelet(np.array([[x, 1.0] for x in xs]), np.array([[x, 0.0] for x in xs]),
                     np.array([[x, -1.0] for x in xs]), i, predecessor=list(nd["pred"]), successor=list(nd["succ"]))
        objs[i] = la
    if case.get("cut"):
        # the network of the case is what the library cuts out of a larger one: the lanelets named in "cut" are left
        # behind, create_from_lanelet_list copies the others and closes their references (seed C20-14)
        net = LaneletNetwork.create_from_lanelet_list([objs[i] for i in sorted(objs) if i not in case["cut"]])
        return net, {la.lanelet_id: la for la in net.lanelets}
    for i in sorted(objs):
        net.add_lanelet(objs[i], rtree=False)
    return net, objs


def eff_nodes(case):
    """the graph the judged call runs on: the nodes of the case without the ones that were cut away"""
    cut = set(case.get("cut") or [])
    if not cut:
        return case["nodes"]
    return {k: dict(nd, succ=[x for x in nd["succ"] if x not in cut], pred=[x for x in nd["pred"] if x not in cut])
            for k, nd in case["nodes"].items() if int(k) not in cut}


def apply_history(la, hist):
    """the history of a lanelet between construction and the judged call"""
    for h in hist or []:
        if h == "touch":  # fills the caches
            la.distance
            la.inner_distance
        elif h == "to2d":
            la.convert_to_2d()
        else:
            raise RuntimeError(h)
    return la


def subject(case):
    hist = list(case.get("hist") or [])
    if "set_vertices" not in hist:
        return apply_history(build_lanelet(case), hist)
    # the lanelet is built with other polylines (stretched and moved), used, and then given the case's polylines
    # through its public vertex setters: from then on it is the lanelet of the case
    i = hist.index("set_vertices")
    other = dict(case)
    for k in ("left", "center", "right"):
        other[k] = [[2.0 * p[0] + 1.0, p[1] - 3.0] + list(p[2:]) for p in case[k]]
    la = apply_history(build_lanelet(other), hist[:i])
    if "inplace" in hist:
        # the arrays the getters hand out are overwritten in place and assigned back: the SAME objects
        for k in ("left", "right", "center"):
            arr = getattr(la, k + "_vertices")
            arr[...] = np.array(case[k], dtype=float)
            setattr(la, k + "_vertices", arr)
    else:
        la.left_vertices = np.array(case["left"], dtype=float)
        la.right_vertices = np.array(case["right"], dtype=float)
        la.center_vertices = np.array(case["center"], dtype=float)
    return apply_history(la, [h for h in hist[i + 1:] if h != "inplace"])


def effective(case):
    """the polylines of the lanelet after its history: {"center", "left", "right"}"""
    cut = 2 if "to2d" in (case.get("hist") or []) else None
    return {k: [list(p[:cut]) for p in case[k]] for k in ("center", "left", "right")}


class Timeout(Exception):
    pass


def with_timeout(fn, seconds=20):
    def handler(signum, frame):
        raise Timeout()
    old = signal.signal(signal.SIGALRM, handler)
    signal.setitimer(signal.ITIMER_REAL, seconds)
    try:
        return fn()
    finally:
        signal.setitimer(signal.ITIMER_REAL, 0)
        signal.signal(signal.SIGALRM, old)


def cast_s(s, t):
    return {"float": float, "int": int, "np": np.float64}[t](s)


def interp_obs(la, s):
    try:
        c, r, l, idx = la.interpolate_position(s)
    except AssertionError:
        return ("assert",)
    except IndexError:
        return ("index",)
    except ZeroDivisionError:
        return ("nan",)
    pts = [[float(v) for v in c], [float(v) for v in r], [float(v) for v in l]]
    if any(math.isnan(v) or math.isinf(v) for p in pts for v in p):
        return ("nan",)
    return ("ip", pts, int(idx))


def merged_queries(case, center, total):
    """arc lengths at which the merged lanelet is queried: from the case's specs, resolved on the merged centre line
    with the harness' own integration, clamped into [0, reported length]"""
    cum = own_cum(center)
    out = []
    for q in case.get("qs", []):
        k = q["k"]
        if k == "zero":
            sv = 0.0
        elif k == "full":
            sv = total
        elif k == "frac":
            sv = q["v"] * total
        elif k == "vertex":
            sv = cum[q["i"] % len(cum)]
        elif k == "joint":
            sv = cum[(len(case["l1" if case["pred_is"] == 1 else "l2"]["center"]) - 1) % len(cum)]
        else:  # mid
            j = q["i"] % (len(cum) - 1)
            sv = (cum[j] + cum[j + 1]) / 2
        out.append(min(max(sv, 0.0), total))
    return out


def observe(case):
    op = case["op"]
    if op == "dist":
        la = subject(case)
        return ("dist", [float(x) for x in la.distance])
    if op == "interp":
        la = subject(case)
        return interp_obs(la, cast_s(case["s"], case.get("st", "float")))
    if op == "merge":
        a, b = build_lanelet(case["l1"]), build_lanelet(case["l2"])
        if case.get("touch"):
            apply_history(a, ["touch"])
            apply_history(b, ["touch"])
        try:
            m = Lanelet.merge_lanelets(a, b)
        except AssertionError:
            return ("assert",)
        md = {"id": int(m.lanelet_id), "left": m.left_vertices.tolist(), "center": m.center_vertices.tolist(),
              "right": m.right_vertices.tolist(), "succ": list(m.successor), "pred": list(m.predecessor)}
        dist = [float(x) for x in m.distance]
        ips = [(sv, interp_obs(m, sv)) for sv in merged_queries(case, md["center"], dist[-1])]
        return ("m", md, dist[-1], float(a.distance[-1]), float(b.distance[-1]), dist, ips)
    if op in ("succ", "pred"):
        net, objs = build_network(case)
        la = objs[case["start"]]
        f = la.find_lanelet_successors_in_range if op == "succ" else la.find_lanelet_predecessors_in_range
        try:
            r = with_timeout(lambda: f(net, max_length=case["max"]))
        except Timeout:
            return ("timeout",)
        except (AttributeError, KeyError, TypeError, IndexError, ValueError) as e:
            return ("exc", type(e).__name__)
        return ("paths", [[int(x) for x in p] for p in r])
    raise RuntimeError(op)


# ------------------------------------------------------------------------------------ helpers
def seg_lens(center):
    """the oracle column: the segment lengths as the implementation computes them"""
    c = np.array(center, dtype=float)
    return [float(x) for x in np.sqrt(np.square(np.diff(c, axis=0)).sum(axis=1))]


def vsub(q, p):
    return [b - a for a, b in zip(p, q)]


def own_cum(center):
    out = [0.0]
    for p, q in zip(center, center[1:]):
        out.append(out[-1] + math.hypot(*vsub(q, p)))
    return out


def scale_of(*polylines):
    return max(1.0, max(abs(v) for pl in polylines for p in pl for v in p))


def has_dup(center):
    return any(p == q for p, q in zip(center, center[1:]))


def exact_sums(center):
    """True iff every cumulative length is exactly representable (model and implementation agree exactly)"""
    ls = seg_lens(center)
    for p, q, l in zip(center, center[1:], ls):
        if F(l) ** 2 != sum((F(b) - F(a)) ** 2 for a, b in zip(p, q)):
            return False
    acc, facc = F(0), 0.0
    for l in ls:
        acc += F(l)
        facc = facc + l
        if F(facc) != acc:
            return False
    return True


def lens_hypothesis_ok(center):
    for p, q, l in zip(center, center[1:], seg_lens(center)):
        n2 = sum((F(b) - F(a)) ** 2 for a, b in zip(p, q))
        if l < 0 or abs(F(l) ** 2 - n2) > n2 * F(1, 10 ** 15):
            return False
    return True


# ------------------------------------------------------------------------------------ oracle
def judged(case):
    op = case["op"]
    if op in ("dist", "interp"):
        return not has_dup(effective(case)["center"])
    if op == "merge":  # a connected pair merges; what it returns is a lanelet (judged as one, see oracle)
        return case.get("judge", False) or not case.get("rel", "none").startswith("none")
    return True


def path_len_exact(case, p):
    return sum(F(case["nodes"][str(i)]["len"]) for i in p)


def check_dist(center, d):
    """the distance clause on one lanelet: None | (signature, what)"""
    cum = own_cum(center)
    tol = TOL * scale_of(center) * max(1, len(d))
    if len(d) != len(center):
        return ("length", "distance has the wrong number of entries")
    if d[0] != 0:
        return ("start", "cumulative distance does not start at 0")
    if any(b < a for a, b in zip(d, d[1:])):
        return ("monotone", "cumulative distance decreases")
    if abs(d[-1] - cum[-1]) > tol:
        return ("total", f"last cumulative distance {d[-1]!r} differs from the centre-line length {cum[-1]!r}")
    for k, (a, b) in enumerate(zip(d, cum)):
        if abs(a - b) > tol:
            return ("partial", f"cumulative distance [{k}] = {a!r} differs from the arc length {b!r} up to vertex {k}")
    return None


def check_interp(pls, s, o):
    """the interpolation clause for one arc length 0 <= s <= length on the lanelet with polylines pls"""
    if o[0] != "ip":
        return ("fails", f"interpolate_position fails ({o[0]}) for 0 <= s <= length")
    center = pls["center"]
    cum = own_cum(center)
    n = len(cum)
    sc = scale_of(center, pls["left"], pls["right"])
    tol = TOL * sc * n
    idx = o[2]
    if not 0 <= idx <= n - 2:
        return ("segment", "segment id out of range")
    if not cum[idx] - tol <= s <= cum[idx + 1] + tol:
        return ("segment", f"segment {idx} does not contain arc length s")
    j = max(i for i in range(n - 1) if cum[i] <= s) if s > 0 else 0
    j = min(j, n - 2)
    lj = cum[j + 1] - cum[j]
    r = min(1.0, max(0.0, (s - cum[j]) / lj))
    for name, pl, got in (("center", center, o[1][0]), ("right", pls["right"], o[1][1]),
                          ("left", pls["left"], o[1][2])):
        if len(got) != len(pl[j]):
            return ("dimension", f"{name} point has {len(got)} coordinates, the vertices have {len(pl[j])}")
        ex = [(1 - r) * a + r * b for a, b in zip(pl[j], pl[j + 1])]
        # conditioning: an error e in s moves the point by e * |dP| / l_j
        amp = max(1.0, math.hypot(*vsub(pl[j + 1], pl[j])) / lj)
        if math.hypot(*vsub(got, ex)) > tol * amp:
            return (name, f"{name} point is not the point at arc length s (expected {ex})")
    return None


def oracle(case):
    if not judged(case):
        return None
    op = case["op"]
    o = observe(case)

    def bad(sig, what):
        return (f"{op}:{sig}", f"{what}: {brief(case)} -> {str(o)[:300]}")

    if op == "dist":
        r = check_dist(effective(case)["center"], o[1])
        return bad(*r) if r else None
    if op == "interp":
        total = float(subject(case).distance[-1])
        s = case["s"]
        if not 0 <= s <= total:
            return None  # outside the quantifier
        r = check_interp(effective(case), s, o)
        return bad(*r) if r else None
    if op == "merge":
        if o[0] != "m":
            return bad("fails", "merge_lanelets rejects a connected pair") if case.get("judge") else None
        m = o[1]
        if case.get("judge"):
            pred, suc = (case["l1"], case["l2"]) if case["pred_is"] == 1 else (case["l2"], case["l1"])
            for k in ("left", "center", "right"):
                exp = [list(map(float, p)) for p in pred[k]] + [list(map(float, p)) for p in suc[k][1:]]
                if m[k] != exp:
                    return bad(k, f"{k} boundary of the merged lanelet is not the concatenation (joint once)")
            lp, ls = (o[3], o[4]) if case["pred_is"] == 1 else (o[4], o[3])
            if abs(o[2] - (lp + ls)) > TOL * max(1.0, lp + ls) * (len(m["center"])):
                return bad("length", f"merged length {o[2]!r} is not the sum {lp + ls!r}")
        # the merged lanelet is a lanelet: the distance / interpolation clauses on the vertices it has
        if has_dup(m["center"]):
            return None
        r = check_dist(m["center"], o[5])
        if r:
            return (f"merge:merged-{r[0]}", f"merged lanelet: {r[1]}: {brief(case)} -> center={m['center'][:8]} "
                                            f"distance={o[5][:8]}")
        for sv, oi in o[6]:
            if not 0 <= sv <= o[2]:
                continue
            r = check_interp(m, sv, oi)
            if r:
                return (f"merge:merged-{r[0]}", f"merged lanelet, interpolate_position({sv!r}): {r[1]}: {brief(case)} "
                                                f"-> center={m['center'][:8]} got {str(oi)[:200]}")
        return None
    # routes
    if o[0] == "timeout":
        return bad("terminates", "does not terminate")
    if o[0] == "exc":
        return bad("raises", f"raises {o[1]}" + (" on a network cut out by create_from_lanelet_list" if case.get("cut")
                                                 else ""))
    nodes = eff_nodes(case)
    rel = "succ" if op == "succ" else "pred"
    start = case["start"]
    direct = nodes[str(start)][rel]
    mx = F(case["max"])
    for p in o[1]:
        if not p:
            return bad("empty", "empty path returned")
        if p[0] not in direct:
            return bad("first", f"path {p} does not start at a direct {rel}essor")
        if any(b not in nodes[str(a)][rel] for a, b in zip(p, p[1:])):
            return bad("chain", f"path {p} is not a chain of {rel}essor links")
        if len(set(p)) != len(p):
            return bad("loop", f"path {p} visits a lanelet twice")
        if start in p:
            return bad("start", f"path {p} revisits the start lanelet")
        for k in range(1, len(p)):
            if not path_len_exact(case, p[:k]) < mx:
                return bad("range", f"path {p} extended although the accumulated length of {p[:k]} is not below "
                                    f"the range")
    for s in direct:
        if not any(p and p[0] == s for p in o[1]):
            return bad("cover", f"direct {rel}essor {s} heads no path")
    return None


def brief(case):
    op = case["op"]
    if op in ("dist", "interp"):
        return (f"center={case['center'][:6]}{'...' if len(case['center']) > 6 else ''} n={len(case['center'])}"
                f" dim={len(case['center'][0])} history={case.get('hist') or []}"
                + (f" s={case['s']!r} ({case.get('sk')})" if op == "interp" else ""))
    if op == "merge":
        return (f"l1={ {k: case['l1'][k] for k in ('id', 'succ', 'pred')} } n1={len(case['l1']['center'])} "
                f"l2={ {k: case['l2'][k] for k in ('id', 'succ', 'pred')} } n2={len(case['l2']['center'])} "
                f"predecessor=l{case.get('pred_is')} dim={len(case['l1']['center'][0])} joint={case.get('joint')}")
    return f"start={case['start']} max={case['max']!r} nodes={case['nodes']}"


def nontrivial(case):
    return judged(case)


def kind(case):
    op = case["op"]
    if op in ("dist", "interp"):
        return (f"{op}:{case.get('mode')}/{len(case['center'][0])}d{'/' + '+'.join(case['hist']) if case.get('hist') else ''}"
                + (f":{case.get('sk')}" if op == "interp" else ""))
    if op == "merge":
        return f"merge/{len(case['l1']['center'][0])}d:{case.get('joint')}:{case.get('rel')}"
    return f"{op}:{case.get('shape')}"


# ------------------------------------------------------------------------------------ generators
STEPS = [(3, 4), (4, 3), (5, 0), (0, 5), (-3, 4), (4, -3), (6, 8), (8, 6), (5, 12), (12, 5), (8, 15), (1, 0), (0, 1),
         (2, 0), (0, -2), (7, 24), (-4, 3), (3, -4)]


# 3-D steps of integer length (Pythagorean quadruples, and triples in the x-z / y-z / x-y planes)
STEPS3 = [(1, 2, 2), (2, 1, 2), (2, 2, 1), (2, 3, 6), (3, 6, 2), (6, 2, 3), (1, 4, 8), (4, 4, 7), (4, 7, 4), (2, 6, 9),
          (6, 6, 7), (3, 4, 12), (3, 0, 4), (0, 3, 4), (4, 0, 3), (8, 0, 6), (12, 0, 5), (0, 12, 5), (3, 4, 0), (5, 0, 0),
          (0, 5, 0), (-3, 4, 0), (2, -1, 2), (-4, 4, 7), (6, 0, 8), (1, 0, 0), (0, -2, 0), (-2, 3, 6), (12, 4, 3)]


def gen_polyline(rng, mode=None, n=None, dim=2):
    mode = mode or rng.choice(["exact", "exact", "general", "general", "edge"])
    n = n or rng.choice([2, 2, 3, 3, 4, 5, 6, 8, 12, 20, 30, rng.randint(2, 30)])
    if dim == 3:
        return mode, gen_polyline3(rng, mode, n)
    if mode == "exact":
        sc = rng.choice([0.25, 0.5, 1.0, 1.0, 2.0])
        x, y = float(rng.randint(-8, 8)), float(rng.randint(-8, 8))
        pts = [[x, y]]
        for _ in range(n - 1):
            dx, dy = rng.choice(STEPS)
            x, y = x + dx * sc, y + dy * sc
            pts.append([x, y])
        return mode, pts
    if mode == "general":
        x, y, a = round(rng.uniform(-50, 50), 3), round(rng.uniform(-50, 50), 3), rng.uniform(-3, 3)
        k = rng.choice([0.0, 0.02, -0.05, 0.1])
        pts = [[x, y]]
        while len(pts) < n:
            ds = rng.choice([0.5, 1.0, 2.5, rng.uniform(0.2, 6)])
            x, y, a = x + ds * math.cos(a), y + ds * math.sin(a), a + k * ds + rng.uniform(-0.1, 0.1)
            p = [round(x, 3), round(y, 3)]
            if p != pts[-1]:
                pts.append(p)
        return mode, pts
    # edge: tiny segments next to long ones, large offsets
    base = rng.choice([0.0, 1e5, -1e5, 1e3])
    x, y = base + rng.randint(-3, 3), base / 2 + rng.randint(-3, 3)
    pts = [[x, y]]
    while len(pts) < n:
        ds = rng.choice([1e-6, 1e-3, 1.0, 100.0, 0.1, 1e-5])
        a = rng.uniform(-0.5, 0.5)
        x, y = x + ds * math.cos(a), y + ds * math.sin(a)
        if [x, y] != pts[-1]:
            pts.append([x, y])
    return mode, pts


def gen_polyline3(rng, mode, n):
    """centre line with elevation: (x, y, z) vertices"""
    if mode == "exact":
        sc = rng.choice([0.25, 0.5, 1.0, 1.0, 2.0])
        p = [float(rng.randint(-8, 8)), float(rng.randint(-8, 8)), float(rng.randint(-4, 12))]
        pts = [list(p)]
        for _ in range(n - 1):
            dx, dy, dz = rng.choice(STEPS3)
            dz *= rng.choice([1, 1, -1])
            p = [p[0] + dx * sc, p[1] + dy * sc, p[2] + dz * sc]
            pts.append(list(p))
        return pts
    profile = rng.choice(["level", "ramp", "ramp", "hilly", "steep"])
    if mode == "general":
        x, y, a = round(rng.uniform(-50, 50), 3), round(rng.uniform(-50, 50), 3), rng.uniform(-3, 3)
        z = round(rng.choice([0.0, rng.uniform(-5, 40)]), 3)
        k = rng.choice([0.0, 0.02, -0.05, 0.1])
        slope = {"level": 0.0, "ramp": rng.choice([0.04, -0.06, 0.12]), "hilly": 0.0, "steep": rng.choice([0.8, -1.5])}[
            profile]
        pts = [[x, y, z]]
        while len(pts) < n:
            ds = rng.choice([0.5, 1.0, 2.5, rng.uniform(0.2, 6)])
            x, y, a = x + ds * math.cos(a), y + ds * math.sin(a), a + k * ds + rng.uniform(-0.1, 0.1)
            if profile == "hilly":
                slope = min(0.3, max(-0.3, slope + rng.uniform(-0.08, 0.08)))
            if not (profile == "ramp" and rng.random() < 0.25):  # ramps have level stretches
                z = z + slope * ds
            q = [round(x, 3), round(y, 3), round(z, 3)]
            if q != pts[-1]:
                pts.append(q)
        return pts
    base = rng.choice([0.0, 1e5, -1e5, 1e3])
    x, y, z = base + rng.randint(-3, 3), base / 2 + rng.randint(-3, 3), rng.choice([0.0, 1e3, -7.0, 250.5])
    pts = [[x, y, z]]
    while len(pts) < n:
        ds = rng.choice([1e-6, 1e-3, 1.0, 100.0, 0.1, 1e-5])
        a = rng.uniform(-0.5, 0.5)
        x, y = x + ds * math.cos(a), y + ds * math.sin(a)
        z = z + ds * rng.choice([0.0, 0.0, 1.0, -0.5, 1e-3, 3.0])
        if [x, y, z] != pts[-1]:
            pts.append([x, y, z])
    return pts


def boundaries(rng, center, mode):
    """left / right polylines with the same number of vertices, offset to either side and jittered so that the
    three polylines are not parallel translates"""
    w = rng.choice([2.0, 3.0, 3.5])
    left, right = [], []
    bank = rng.choice([0.0, 0.0, 0.125, 0.25])  # 3-D: the boundaries need not be level with the centre line
    for i, pc in enumerate(center):
        x, y = pc[0], pc[1]
        a, b = center[max(i - 1, 0)], center[min(i + 1, len(center) - 1)]
        dx, dy = b[0] - a[0], b[1] - a[1]
        nrm = math.hypot(dx, dy) or 1.0
        nx, ny = -dy / nrm, dx / nrm
        jl, jr = rng.choice([0.0, 0.125, -0.125, 0.25]), rng.choice([0.0, 0.125, -0.125, 0.25])
        lx, ly = x + nx * (w / 2 + jl), y + ny * (w / 2 + jl)
        rx, ry = x - nx * (w / 2 + jr), y - ny * (w / 2 + jr)
        if mode == "exact":
            lx, ly, rx, ry = (round(v * 8) / 8 for v in (lx, ly, rx, ry))
        if len(pc) == 3:
            left.append([lx, ly, pc[2] + bank + rng.choice([0.0, 0.0, 0.125])])
            right.append([rx, ry, pc[2] - bank + rng.choice([0.0, 0.0, -0.125])])
        else:
            left.append([lx, ly])
            right.append([rx, ry])
    return left, right


def gen_dim(rng):
    return 3 if rng.random() < 0.34 else 2


def gen_history(rng, dim):
    """what happened to the lanelet between construction and the judged call"""
    if dim == 3:
        return rng.choice([[], [], [], ["touch"], ["to2d"], ["touch", "to2d"], ["touch", "to2d"], ["touch", "set_vertices"],
                           ["touch", "set_vertices", "inplace"]])
    return rng.choice([[], [], [], [], ["touch"], ["to2d"], ["touch", "to2d"], ["touch", "set_vertices"], ["set_vertices"],
                       ["touch", "set_vertices", "touch"], ["touch", "set_vertices", "inplace"],
                       ["touch", "set_vertices", "inplace", "touch"]])


def gen_lanelet_geom(rng, mode=None, n=None, dup=False, dim=None):
    dim = dim or gen_dim(rng)
    mode, center = gen_polyline(rng, mode, n, dim)
    if dup and len(center) >= 3:
        i = rng.randrange(len(center) - 1)
        center[i + 1] = list(center[i])
        mode = "dup"
    left, right = boundaries(rng, center, mode)
    return {"mode": mode, "left": left, "center": center, "right": right}


def gen_interp(rng):
    g = gen_lanelet_geom(rng, dup=rng.random() < 0.04)
    g["hist"] = gen_history(rng, len(g["center"][0]))
    la = subject(g)
    d = [float(x) for x in la.distance]
    total = d[-1]
    k = rng.random()
    if k < 0.12:
        s, sk = 0.0, "zero"
    elif k < 0.24:
        s, sk = total, "full"
    elif k < 0.5:
        i = rng.randrange(len(d))
        s, sk = d[i], "vertex"
    elif k < 0.6:
        i = rng.randrange(len(d) - 1)
        s, sk = (d[i] + d[i + 1]) / 2, "mid"
    elif k < 0.68:
        i = rng.randrange(len(d))
        s, sk = d[i] + rng.choice([-1, 1]) * rng.choice([1e-12, 1e-9, 1e-6]) * max(1.0, total), "near-vertex"
        s = min(max(s, 0.0), total)
    elif k < 0.76:
        s, sk = rng.choice([-1e-3, -1.0, total + 1e-3, total * 2 + 1, -1e-12]), "outside"
    else:
        s, sk = rng.uniform(0, total), "interior"
    st = "float"
    if rng.random() < 0.15:
        st = "np"
    if rng.random() < 0.1 and 0 <= math.floor(s) and sk == "interior":
        s, st, sk = int(math.floor(s)), "int", "int"
    if sk == "zero" and rng.random() < 0.3:
        s, st = 0, "int"
    return dict(g, op="interp", s=s, st=st, sk=sk)


def gen_merge(rng):
    dim = gen_dim(rng)
    a = gen_lanelet_geom(rng, rng.choice(["exact", "general"]), rng.choice([2, 2, 3, 5, 8, rng.randint(2, 12)]), dim=dim)
    b = gen_lanelet_geom(rng, a["mode"], rng.choice([2, 2, 3, 5, 8, rng.randint(2, 12)]), dim=dim)
    joint = rng.choice(["exact", "exact", "exact", "close", "apart", "left-only", "gap"])
    # move b so that it starts where a ends
    for k in ("left", "center", "right"):
        off = vsub(a[k][-1], b[k][0])
        b[k] = [[v + o_ for v, o_ in zip(p, off)] for p in b[k]]
        b[k][0] = list(a[k][-1])
    if joint == "close":  # inside numpy.isclose, not equal
        for k in ("left", "center", "right"):
            b[k][0] = [b[k][0][0] + rng.choice([1e-9, -1e-9, 4e-6 * abs(b[k][0][0])]), b[k][0][1]] + b[k][0][2:]
    elif joint == "apart":  # just outside numpy.isclose
        for k in ("left", "center", "right"):
            b[k][0] = [b[k][0][0] + 3e-5 * abs(b[k][0][0]) + 1e-7, b[k][0][1] - 1e-4] + b[k][0][2:]
    elif joint == "left-only":
        b["right"][0] = [b["right"][0][0] + 0.5, b["right"][0][1]] + b["right"][0][2:]
    elif joint == "gap":
        for k in ("left", "center", "right"):
            b[k] = [[p[0] + 2.0, p[1] + 1.0] + p[2:] for p in b[k]]
    if joint == "exact":
        v = rng.random()
        if v < 0.15:
            # the successor comes back to where it started (a roundabout lane, a turning loop): its last vertices are the
            # joint again; they are vertices of the successor like any other
            for k in ("left", "center", "right"):
                b[k].append(list(a[k][-1]))
            joint = "exact"
        elif v < 0.3:
            # map coordinates (UTM-like magnitudes, powers of two so that nothing is rounded): the spacing of the
            # vertices is tiny relative to the coordinates
            for g_ in (a, b):
                for k in ("left", "center", "right"):
                    g_[k] = [[p[0] + 524288.0, p[1] + 5242880.0] + p[2:] for p in g_[k]]
    ida, idb = rng.sample(range(1, 400), 2)
    others = [i for i in rng.sample(range(400, 500), 4)]
    rel = rng.choice(["succ", "pred", "both", "succ", "both", "none", "cycle"])
    a.update(id=ida, succ=[others[0]], pred=[others[1]])
    b.update(id=idb, succ=[others[2]], pred=[others[3]])
    if rel in ("succ", "both", "cycle"):
        a["succ"] = rng.choice([[idb], [idb, others[0]], [others[0], idb]])
    if rel in ("pred", "both"):
        b["pred"] = rng.choice([[ida], [others[3], ida]])
    if rel == "cycle":
        b["succ"] = [ida]
    if rng.random() < 0.2:
        a["pred"], b["succ"] = [], [] if rel != "cycle" else b["succ"]
    swapped = rng.random() < 0.4
    l1, l2 = (b, a) if swapped else (a, b)
    judge = joint == "exact" and rel in ("succ", "pred", "both")
    for d in (l1, l2):
        d.pop("mode", None)
    # where the merged lanelet is asked for positions (resolved on the merged centre line, see merged_queries)
    nm = len(a["center"]) + len(b["center"])
    qs = [{"k": "zero"}, {"k": "full"}, {"k": "joint"}]
    for _ in range(rng.randint(2, 5)):
        qs.append(rng.choice([{"k": "frac", "v": round(rng.random(), 4)}, {"k": "vertex", "i": rng.randrange(nm)},
                              {"k": "mid", "i": rng.randrange(nm)}, {"k": "frac", "v": round(rng.random(), 4)}]))
    return {"op": "merge", "l1": l1, "l2": l2, "joint": joint, "rel": rel + ("/swapped" if swapped else ""),
            "pred_is": 2 if swapped else 1, "judge": judge, "touch": rng.random() < 0.4, "qs": qs}


LENS = [2.5, 5.0, 7.5, 10.0, 12.5, 20.0, 0.25, 40.0, 1.0, 3.0]


def gen_graph(rng, op):
    n = rng.randint(1, 9)
    ids = rng.sample(range(1, 60), n + 1)
    start, rest = ids[0], ids[1:]
    shape = rng.choice(["chain", "cycle", "cycle-start", "diamond", "random", "random", "dense", "tree"])
    if shape == "dense" and n > 5:  # the number of loop-free paths explodes on dense graphs
        n = rng.randint(2, 5)
        ids = ids[:n + 1]
        rest = ids[1:]
    edges = {i: [] for i in ids}

    def add(a, b):
        if a != b and b not in edges[a]:
            edges[a].append(b)

    order = [start] + rest
    if shape == "chain":
        for a, b in zip(order, order[1:]):
            add(a, b)
    elif shape == "cycle":  # a cycle that does not pass through the start
        for a, b in zip(order, order[1:]):
            add(a, b)
        if len(rest) >= 2:
            add(rest[-1], rest[rng.randrange(len(rest) - 1)])
    elif shape == "cycle-start":
        for a, b in zip(order, order[1:]):
            add(a, b)
        add(order[-1], start)
        if len(rest) >= 3:
            add(rest[1], start)
    elif shape == "diamond":
        for i, a in enumerate(order):
            for b in order[i + 1:i + 3]:
                add(a, b)
    elif shape == "tree":
        for i, b in enumerate(rest):
            add(order[rng.randrange(i + 1)], b)
    else:
        p = 0.25 if shape == "random" else 0.6
        for a in ids:
            for b in ids:
                if a != b and rng.random() < p:
                    add(a, b)
        if not edges[start] and rest:
            add(start, rest[0])
    for a in ids:
        rng.shuffle(edges[a])
    lens = {i: rng.choice(LENS) for i in ids}
    inv = {i: [a for a in ids if i in edges[a]] for i in ids}
    for i in ids:
        rng.shuffle(inv[i])
    if rng.random() < 0.15:  # the other relation need not be the exact inverse for these functions
        inv = {i: [x for x in inv[i] if rng.random() < 0.7] for i in ids}
    fwd, bwd = ("succ", "pred") if op == "succ" else ("pred", "succ")
    # centre lines of 2, 3 or 5 equally spaced vertices (the lengths are dyadic, so are the vertices)
    pts = rng.choice([2, 2, 3, 5])
    nodes = {str(i): {fwd: edges[i], bwd: inv[i], "len": lens[i], "pts": pts} for i in ids}
    # range limits: 0, tiny, exactly the length of some walk, default, large
    k = rng.random()
    if k < 0.1:
        mx = rng.choice([0, 0.0, 0.1])
    elif k < 0.5:
        walk, cur = [], start
        for _ in range(rng.randint(1, 5)):
            if not edges[cur]:
                break
            cur = rng.choice(edges[cur])
            walk.append(cur)
        mx = float(sum(F(lens[i]) for i in walk)) + rng.choice([0.0, 0.0, 0.25, -0.25, 1.0])
        mx = max(mx, 0.0)
    elif k < 0.65:
        mx = 50.0
    elif k < 0.8:
        mx = rng.choice([1000.0, 1e6, 200])
    else:
        mx = rng.choice([rng.randint(1, 80), round(rng.uniform(0, 80), 2)])
    case = {"op": op, "nodes": nodes, "start": start, "max": mx, "shape": shape}
    r2 = random.Random(rng.getrandbits(30))
    if len(ids) > 2 and r2.random() < 0.25:
        case["cut"] = sorted(r2.sample([i for i in ids if i != start], r2.randint(1, min(3, len(ids) - 1))))
    return case


def gen(rng, n):
    cases = []
    for i in range(n):
        k = rng.random()
        if k < 0.12:
            g = gen_lanelet_geom(rng, dup=rng.random() < 0.04)
            cases.append(dict(g, op="dist", hist=gen_history(rng, len(g["center"][0]))))
        elif k < 0.5:
            cases.append(gen_interp(rng))
        elif k < 0.62:
            cases.append(gen_merge(rng))
        else:
            cases.append(gen_graph(rng, "succ" if rng.random() < 0.55 else "pred"))
    return cases


# ------------------------------------------------------------------------------------ correspondence
def qpt(p):
    """a vertex as the model's (x, y, z); 2-D vertices have z = 0"""
    return f"({qq(p[0])}, {qq(p[1])}, {qq(p[2]) if len(p) > 2 else qq(0)})"


def qpl(pl):
    return qlist([qpt(p) for p in pl])


def qlan(d):
    return (f"{{| l_id := {qz(d['id'])}; l_left := {qpl(d['left'])}; l_center := {qpl(d['center'])}; "
            f"l_right := {qpl(d['right'])}; l_succ := {qlist([qz(x) for x in d['succ']])}; "
            f"l_pred := {qlist([qz(x) for x in d['pred']])} |}}")


def isclose_margin(a, b):
    """distance of |a-b| from numpy.isclose's threshold, exact"""
    return abs(abs(F(a) - F(b)) - (F(1, 10 ** 8) + F(1, 10 ** 5) * abs(F(b))))


def interp_term(pls, s, o):
    """CInterp term for one query on the lanelet with polylines pls, or None (near a vertex, rounding decides)"""
    center = pls["center"]
    ls = seg_lens(center)
    if not exact_sums(center):
        cum = [F(0)]
        for l in ls:
            cum.append(cum[-1] + F(l))
        guard = F(TOL) * max(1, cum[-1])
        if any(abs(F(s) - c) < guard for c in cum[1:]) or (abs(F(s)) < guard and s != 0):
            return None
    sc = scale_of(center, pls["left"], pls["right"]) * len(center)
    # amplification of the rounding of s - cum[idx] by |dP| / l (see the oracle)
    amp = 1.0
    for pl in (pls["left"], pls["right"], center):
        for (p, q, l) in zip(pl, pl[1:], ls):
            if l > 0:
                amp = max(amp, math.hypot(*vsub(q, p)) / l)
    if o[0] == "ip":
        if any(len(p) not in (2, 3) for p in o[1]):
            return None  # not a point of the model's shape: left to the oracle
        ob = f"(OIP {qpt(o[1][0])} {qpt(o[1][1])} {qpt(o[1][2])} {qz(o[2])})"
    else:
        ob = {"assert": "OIPAssert", "index": "OIPIndex", "nan": "OIPNan"}[o[0]]
    return (f"CInterp {qpl(center)} {qpl(pls['right'])} {qpl(pls['left'])} "
            f"{qlist([qq(x) for x in ls])} {qq(s)} {qq(sc * amp)} {ob}")


def corr_terms(case, o):
    """(Coq terms of the case, number excluded): excluded = near a boundary where rounding decides a discrete
    output, or the numpy sqrt missed l^2 = |d|^2 by more than 1e-15 (counted in oracle_stats too)"""
    op = case["op"]
    if op == "dist":
        center = effective(case)["center"]
        if not lens_hypothesis_ok(center):
            return [], 1
        sc = scale_of(center) * len(center)
        return [f"CDist {qpl(center)} {qlist([qq(x) for x in seg_lens(center)])} {qq(sc)} "
                f"{qlist([qq(x) for x in o[1]])}"], 0
    if op == "interp":
        pls = effective(case)
        if not lens_hypothesis_ok(pls["center"]):
            return [], 1
        t = interp_term(pls, case["s"], o)
        return ([t], 0) if t else ([], 1)
    if op == "merge":
        a, b = case["l1"], case["l2"]
        # which one the code takes as predecessor decides whose ends are compared
        for p, s_ in ((a, b), (b, a)):
            for i in range(len(p["left"][-1])):
                if isclose_margin(p["left"][-1][i], s_["left"][0][i]) < F(1, 10 ** 13):
                    return [], 1
        if o[0] == "assert":
            return [f"CMerge {qlan(a)} {qlan(b)} [] 0 OMAssert"], 0
        m = o[1]
        if not lens_hypothesis_ok(m["center"]):
            return [], 1
        sc = scale_of(m["center"]) * len(m["center"])
        terms = [f"CMerge {qlan(a)} {qlan(b)} {qlist([qq(x) for x in seg_lens(m['center'])])} {qq(sc)} "
                 f"(OM {qlan(m)} {qlist([qq(x) for x in o[5]])})"]
        excluded, its = 0, []
        for sv, oi in o[6]:  # the merged lanelet under the interpolate_position model
            t = interp_term(m, sv, oi)
            if t:
                its.append(t)
            else:
                excluded += 1
        # s = 0 and the last (random) query go to Coq; the oracle judges all of them
        return terms + (its if len(its) <= 2 else [its[0], its[-1]]), excluded
    rel = "succ" if op == "succ" else "pred"
    if o[0] != "paths":
        return ["CRoutes [] [] 0%Z 0 [[0%Z]]"], 0  # never agrees: the model always terminates
    if sum(len(p) for p in o[1]) > 3000:
        return [], 1  # too large for a case file; judged by the oracle only
    edges = qlist([f"({qz(int(k))}, {qlist([qz(x) for x in nd[rel]])})" for k, nd in eff_nodes(case).items()])
    lens = qlist([f"({qz(int(k))}, {qq(nd['len'])})" for k, nd in eff_nodes(case).items()])
    return [f"CRoutes {edges} {lens} {qz(case['start'])} {qq(case['max'])} "
            f"{qlist([qlist([qz(x) for x in p]) for p in o[1]])}"], 0


def corr(ctx, cases):
    use, terms, excluded = [], [], 0
    for c in cases:
        o = observe(c)
        ts, ex = corr_terms(c, o)
        excluded += ex
        for t in ts:
            use.append((c, o))
            terms.append(t)
    imports = ("From Coq Require Import QArith ZArith List Bool NArith.\nImport ListNotations.\n"
               "From CR Require Import Base.QMod Model.ArcLen Model.Routes Corr.Obs Corr.C20.\nOpen Scope Q_scope.\n")
    bad, errors = ctx.coq_bad_indices("corr", imports, "", terms, "check", shard=150)
    if errors and any(LIB_GONE.search(e) for e in errors):  # another check's clean rebuild removed our .vo files
        tier, ctx.tier = ctx.tier, "quick"  # incremental rebuild, no second clean
        ctx.build_props(extra_targets=["Corr/C20.vo"])
        ctx.tier = tier
        bad, errors = ctx.coq_bad_indices("corr", imports, "", terms, "check", shard=150)
    ctx.coverage["correspondence_cases"] = len(terms)
    ctx.coverage["near_boundary_excluded"] = excluded
    for e in errors:
        ctx.corr_break("Corr.C20.check (coqc failed)", e)
    seen = set()
    for i in bad:
        c, o = use[i]
        if id(c) in seen:
            continue
        seen.add(id(c))
        ctx.corr_break("Corr.C20.check: Model/ArcLen.v, Model/Routes.v vs commonroad.scenario.lanelet",
                       dict(c, observed=str(o)[:600]))
    ctx.log(f"corr cases={len(terms)} disagree={len(bad)} coq_errors={len(errors)} near_boundary={excluded}")


def run(ctx):
    ctx.trusted = ["Coq 8.16.1 kernel + vm_compute (no native_compute)",
                   "axioms: none (Print Assumptions: Closed under the global context for every theorem)",
                   "hand-written models coq/Model/ArcLen.v (lanelet.py:293-301,357-366,658-679,779-836) and "
                   "coq/Model/Routes.v (lanelet.py:919-991), tied to the code by the correspondence relation "
                   "coq/Corr/C20.v evaluated on every run",
                   "numpy sqrt (oracle values with the hypothesis l>=0, l^2=|d|^2 over x, y, z), cumsum (sequential), searchsorted "
                   "(first index with v <= a[i] on a sorted array), isclose (|a-b| <= 1e-8 + 1e-5|b|)",
                   "harness/props/c20.py (generators, independent oracle, Coq term printer)",
                   "IEEE-754 arithmetic of CPython/numpy (rounded; model exact over Q)"]
    ctx.trusted.insert(3, "harness/vlib/py2coq.py + harness/props/c20_src.py: translator (symbolic execution, fail-closed) of "
                          "Lanelet.distance, _compute_polyline_cumsum_dist (one polyline) and interpolate_position "
                          "(commonroad/scenario/lanelet.py:293-301,357-366,664-686) into coq/Gen/Src_arclen.v on every run; "
                          "C20_model_is_source proves cum / interpolate of Model/ArcLen.v equal to that text (np.sqrt "
                          "uninterpreted, lanelet with _distance None); the Gallina meaning given to np.diff, square/sum, "
                          "append, empty + column store, amin over one column, cumsum, searchsorted, array indexing (py_nth) "
                          "and float64 division by zero (deferred 'nan') in c20_src.py is trusted")
    from props import c20_src
    from vlib.py2coq import TranslationError
    try:
        changed = c20_src.generate()
        ctx.notes.append(f"Gen/Src_arclen.v regenerated from the source ({'changed' if changed else 'unchanged'})")
    except Exception as e:   # TranslationError, SyntaxError, OSError, or a hook that met an unexpected shape
        # fail closed: the source left the translatable subset, the model is no longer shown to be the source
        ctx.proof_breaks.append({"theorem": "translator:Gen/Src_arclen.v (C20_model_is_source)",
                                 "where": "harness/props/c20_src.py", "log": str(e)})
        ctx.log(f"translator failed: {e}")
    ctx.build_props(extra_targets=["Corr/C20.vo"])
    if ctx.tier == "thorough":
        ctx.coqchk()
    n = ctx.n(2500, 24000)
    cases = load_corpus(ctx.prop) + gen(ctx.rng, n)
    stats = {"not_judged": 0, "lens_hypothesis_violated": 0, "exact_polylines": 0, "3d_lanelets": 0, "3d_merges": 0}

    def run_oracle(cs):
        for c in cs:
            ctx.count(c, nontrivial(c), kind(c))
            if not judged(c):
                stats["not_judged"] += 1
            if c["op"] in ("dist", "interp"):
                center = effective(c)["center"]
                if not lens_hypothesis_ok(center):
                    stats["lens_hypothesis_violated"] += 1
                if exact_sums(center):
                    stats["exact_polylines"] += 1
                stats["3d_lanelets"] += len(center[0]) == 3
            if c["op"] == "merge":
                stats["3d_merges"] += len(c["l1"]["center"][0]) == 3
            r = oracle(c)
            if r:
                ctx.fail(r[0], r[1], c)

    run_oracle(cases)
    corr(ctx, cases)
    if (ctx.proof_breaks or ctx.corr_breaks) and not ctx.failures:
        ctx.log(f"proof/correspondence broke ({len(ctx.proof_breaks)}/{len(ctx.corr_breaks)}); widening the search")
        run_oracle([b["case"] for b in ctx.corr_breaks if isinstance(b.get("case"), dict) and "op" in b["case"]])
        if not ctx.failures:
            run_oracle(gen(ctx.rng, n * 8))
    ctx.coverage["oracle_stats"] = stats
    if stats["lens_hypothesis_violated"]:
        ctx.notes.append(f"{stats['lens_hypothesis_violated']} polylines on which numpy's sqrt violates "
                         f"l^2 = |d|^2 beyond 4 ulp")
    return ctx.finish(RULE, assumptions=ASSUME)
