"""C11 helpers: objects from a seed, rebuilding an object from its primary data through the public
constructors, canonical query answers.  Nothing here looks at a cache field, except [cache_status]
(used by the correspondence only)."""
import math
import copy
import random

import numpy as np

from vlib import scen

from commonroad.common.util import AngleInterval, Interval
from commonroad.geometry.shape import Circle, Polygon, Rectangle, Shape, ShapeGroup
from commonroad.prediction.prediction import Occupancy, SetBasedPrediction, TrajectoryPrediction
from commonroad.scenario.intersection import Intersection, IntersectionIncomingElement
from commonroad.scenario.lanelet import Lanelet, LaneletNetwork, StopLine
from commonroad.scenario.obstacle import DynamicObstacle, EnvironmentObstacle, PhantomObstacle, StaticObstacle
from commonroad.scenario.scenario import Scenario, ScenarioID
from commonroad.scenario.state import CustomState, InitialState, KSState, PMState, STState, SignalState, State
from commonroad.scenario.traffic_light import TrafficLight, TrafficLightCycle, TrafficLightCycleElement
from commonroad.scenario.traffic_sign import TrafficSign, TrafficSignElement
from commonroad.scenario.trajectory import Trajectory


# ------------------------------------------------------------------------------------------ rebuild
def rb_shape(s):
    if s is None:
        return None
    if isinstance(s, Rectangle):
        return Rectangle(s.length, s.width, np.array(s.center, dtype=float), s.orientation)
    if isinstance(s, Circle):
        return Circle(s.radius, np.array(s.center, dtype=float))
    if isinstance(s, Polygon):
        return Polygon(np.array(s.vertices, dtype=float))
    if isinstance(s, ShapeGroup):
        return ShapeGroup([rb_shape(x) for x in s.shapes])
    raise TypeError(type(s))


def rb_value(v):
    if isinstance(v, np.ndarray):
        return np.array(v)
    if isinstance(v, Shape):
        return rb_shape(v)
    if isinstance(v, AngleInterval):
        return AngleInterval(v.start, v.end)
    if isinstance(v, Interval):
        return Interval(v.start, v.end)
    return v


def rb_state(s):
    if s is None:
        return None
    if isinstance(s, SignalState):
        return SignalState(**{a: getattr(s, a) for a in SignalState.__slots__ if hasattr(s, a)})
    kw = {a: rb_value(getattr(s, a)) for a in s.attributes}
    return type(s)(**kw)


def rb_traj(t):
    return Trajectory(t.initial_time_step, [rb_state(s) for s in t.state_list])


def rb_pred(p):
    if p is None:
        return None
    if isinstance(p, TrajectoryPrediction):
        return TrajectoryPrediction(rb_traj(p.trajectory), rb_shape(p.shape))
    return SetBasedPrediction(p.initial_time_step, [Occupancy(rb_value(o.time_step), rb_shape(o.shape))
                                                    for o in p.occupancy_set])


def _ids(x):
    return None if x is None else set(x)


def rb_obstacle(o):
    if isinstance(o, StaticObstacle):
        return StaticObstacle(o.obstacle_id, o.obstacle_type, rb_shape(o.obstacle_shape), rb_state(o.initial_state),
                              _ids(o.initial_center_lanelet_ids), _ids(o.initial_shape_lanelet_ids),
                              rb_state(o.initial_signal_state),
                              None if o.signal_series is None else [rb_state(s) for s in o.signal_series])
    if isinstance(o, DynamicObstacle):
        return DynamicObstacle(o.obstacle_id, o.obstacle_type, rb_shape(o.obstacle_shape), rb_state(o.initial_state),
                               rb_pred(o.prediction), _ids(o.initial_center_lanelet_ids),
                               _ids(o.initial_shape_lanelet_ids), rb_state(o.initial_signal_state),
                               None if o.signal_series is None else [rb_state(s) for s in o.signal_series],
                               history=[rb_state(s) for s in o.history],
                               signal_history=[rb_state(s) for s in o.signal_history],
                               center_lanelet_ids_history=[_ids(s) for s in o.center_lanelet_ids_history],
                               shape_lanelet_ids_history=[_ids(s) for s in o.shape_lanelet_ids_history])
    if isinstance(o, PhantomObstacle):
        return PhantomObstacle(o.obstacle_id, rb_pred(o.prediction))
    if isinstance(o, EnvironmentObstacle):
        return EnvironmentObstacle(o.obstacle_id, o.obstacle_type, rb_shape(o.obstacle_shape))
    raise TypeError(type(o))


def rb_lanelet(la):
    sl = la.stop_line
    stop = None
    if sl is not None:
        stop = StopLine(np.array(sl.start), np.array(sl.end), sl.line_marking, _ids(sl.traffic_sign_ref),
                        _ids(sl.traffic_light_ref))
    return Lanelet(np.array(la.left_vertices), np.array(la.center_vertices), np.array(la.right_vertices),
                   la.lanelet_id, list(la.predecessor), list(la.successor), la.adj_left, la.adj_left_same_direction,
                   la.adj_right, la.adj_right_same_direction, la.line_marking_left_vertices,
                   la.line_marking_right_vertices, stop, set(la.lanelet_type), set(la.user_one_way),
                   set(la.user_bidirectional), set(la.traffic_signs), set(la.traffic_lights))


def rb_cycle(c):
    if c is None:
        return None
    return TrafficLightCycle([TrafficLightCycleElement(e.state, e.duration) for e in c.cycle_elements],
                             c.time_offset, c.active)


def rb_light(t):
    return TrafficLight(t.traffic_light_id, np.array(t.position), rb_cycle(t.traffic_light_cycle), list(t.color),
                        t.active, t.direction, rb_shape(t.shape))


def rb_sign(s):
    return TrafficSign(s.traffic_sign_id, [TrafficSignElement(e.traffic_sign_element_id, list(e.additional_values))
                                           for e in s.traffic_sign_elements], set(s.first_occurrence),
                       np.array(s.position), s.virtual)


def rb_network(net):
    out = LaneletNetwork()
    for s in net.traffic_signs:
        out.add_traffic_sign(rb_sign(s), set())
    for t in net.traffic_lights:
        out.add_traffic_light(rb_light(t), set())
    for la in net.lanelets:
        out.add_lanelet(rb_lanelet(la))
    for i in net.intersections:
        incs = [IntersectionIncomingElement(e.incoming_id, set(e.incoming_lanelets), set(e.successors_right),
                                            set(e.successors_straight), set(e.successors_left), e.left_of)
                for e in i.incomings]
        out.add_intersection(Intersection(i.intersection_id, incs, set(i.crossings)))
    return out


def rb_scenario(sc):
    sid = sc.scenario_id
    out = Scenario(sc.dt, ScenarioID(sid.cooperative, sid.country_id, sid.map_name, sid.map_id, sid.configuration_id,
                                     sid.obstacle_behavior, sid.prediction_id, sid.scenario_version))
    out.add_objects(rb_network(sc.lanelet_network))
    for o in sc.obstacles:
        out.add_objects(rb_obstacle(o))
    return out


REBUILD = {"pred": rb_pred, "dyn": rb_obstacle, "static": rb_obstacle, "lanelet": rb_lanelet, "net": rb_network,
           "cycle": rb_cycle, "light": rb_light, "scenario": rb_scenario}


# ------------------------------------------------------------------------------------------ canonical answers
def c_val(v):
    if v is None or isinstance(v, (bool, str)):
        return v
    if isinstance(v, (int, np.integer)):
        return int(v)
    if isinstance(v, (float, np.floating)):
        return float(v)
    if isinstance(v, np.ndarray):
        return ["nd"] + v.astype(float).tolist()
    if isinstance(v, Rectangle):
        return {"k": "rect", "l": float(v.length), "w": float(v.width), "c": c_val(v.center),
                "o": float(v.orientation), "v": c_val(v.vertices)}
    if isinstance(v, Circle):
        return {"k": "circ", "r": float(v.radius), "c": c_val(v.center)}
    if isinstance(v, Polygon):
        return {"k": "poly", "v": c_val(v.vertices)}
    if isinstance(v, ShapeGroup):
        return {"k": "group", "m": [c_val(x) for x in v.shapes]}
    if isinstance(v, (Interval, AngleInterval)):
        return {"k": type(v).__name__, "a": float(v.start), "b": float(v.end)}
    if isinstance(v, Occupancy):
        return {"k": "occ", "t": c_val(v.time_step), "s": c_val(v.shape)}
    if isinstance(v, SignalState):
        return {"k": "sig", **{a: c_val(getattr(v, a)) for a in SignalState.__slots__ if hasattr(v, a)}}
    if isinstance(v, State):
        return {"k": type(v).__name__, **{a: c_val(getattr(v, a)) for a in sorted(v.attributes)}}
    if isinstance(v, (list, tuple)):
        return [c_val(x) for x in v]
    if isinstance(v, (set, frozenset)):
        return ["set"] + sorted(c_val(x) for x in v)
    if isinstance(v, dict):
        return {str(k): c_val(x) for k, x in sorted(v.items())}
    if hasattr(v, "name") and hasattr(v, "value"):
        return f"{type(v).__name__}.{v.name}"
    raise TypeError(f"no canonical form for {type(v)}")


def diff(a, b, path="", tol=1e-9, out=None):
    """paths at which two canonical answers differ; numbers within tol*max(1,|x|) are equal"""
    out = [] if out is None else out
    if len(out) >= 4:
        return out
    num = (int, float)
    if isinstance(a, num) and isinstance(b, num) and not isinstance(a, bool) and not isinstance(b, bool):
        if not (a == b or abs(a - b) <= tol * max(1.0, abs(a), abs(b)) or (a != a and b != b)):
            out.append(f"{path}: {a!r} != {b!r}")
        return out
    if type(a) is not type(b):
        out.append(f"{path}: {str(a)[:60]} != {str(b)[:60]}")
        return out
    if isinstance(a, dict):
        for k in sorted(set(a) | set(b)):
            if k not in a or k not in b:
                out.append(f"{path}.{k}: only on one side")
            else:
                diff(a[k], b[k], f"{path}.{k}", tol, out)
        return out
    if isinstance(a, list):
        if len(a) != len(b):
            out.append(f"{path}: length {len(a)} != {len(b)}")
            return out
        for i, (x, y) in enumerate(zip(a, b)):
            diff(x, y, f"{path}[{i}]", tol, out)
        return out
    if a != b:
        out.append(f"{path}: {a!r} != {b!r}")
    return out


# ------------------------------------------------------------------------------------------ objects from a seed
def gen_traj(rng, t0=None, n=None, cls=None, uncertain=False):
    t0 = rng.choice([1, 1, 3]) if t0 is None else t0
    n = rng.randint(1, 5) if n is None else n
    cls = cls or rng.choice([KSState, PMState, STState, CustomState, "custom_vy"])
    if cls == "custom_vy":
        # custom states with velocity / velocity_y and no orientation attribute
        x, y = scen.rnd(rng, -5, 10), scen.rnd(rng, 0, 6)
        return Trajectory(t0, [CustomState(time_step=t0 + i, position=np.array([round(x + 1.5 * i, 3), y]),
                                           velocity=scen.rnd(rng, 1, 9), velocity_y=scen.rnd(rng, -2, 2))
                               for i in range(n)])
    return scen.rand_trajectory(rng, t0, n, cls, uncertain)


def gen_pred(rng, t0=None):
    uncertain = rng.random() < 0.2
    kinds = ("rect", "circ", "poly") if uncertain else ("rect", "circ", "poly", "group")
    return TrajectoryPrediction(gen_traj(rng, t0, uncertain=uncertain), scen.rand_shape(rng, kinds))


def gen_set_pred(rng, t0):
    n = rng.randint(1, 4)
    return SetBasedPrediction(t0, [Occupancy(t0 + i, scen.rand_shape(rng, ("rect", "circ", "poly"), False))
                                   for i in range(n)])


def gen_dyn(rng, oid=500, role=None):
    role = role or rng.choice(["traj", "traj", "set", "none"])
    t0 = rng.choice([0, 0, 2])
    shape = scen.rand_shape(rng, ("rect", "circ", "poly"))
    init = scen.rand_state(rng, InitialState, t0)
    pred = gen_pred(rng, t0 + 1) if role == "traj" else gen_set_pred(rng, t0 + 1) if role == "set" else None
    if pred is not None and isinstance(pred, TrajectoryPrediction) and isinstance(pred.shape, ShapeGroup):
        pred.shape = shape
    kw = {}
    if rng.random() < 0.5:
        kw["initial_signal_state"] = scen.rand_signal(rng, t0)
    if rng.random() < 0.3:
        kw["initial_center_lanelet_ids"] = {rng.randint(1, 9)}
        kw["initial_shape_lanelet_ids"] = {rng.randint(1, 9), rng.randint(1, 9)}
    h = rng.choice([0, 0, 1, 3])
    if h:
        kw["history"] = [scen.rand_state(rng, InitialState, t0 - h + i) for i in range(h)]
        kw["signal_history"] = [scen.rand_signal(rng, t0 - h + i) if rng.random() < 0.5 else None for i in range(h)]
        kw["center_lanelet_ids_history"] = [{rng.randint(1, 9)} for _ in range(h)]
        kw["shape_lanelet_ids_history"] = [{rng.randint(1, 9)} for _ in range(h)]
    return DynamicObstacle(oid, scen.ObstacleType.CAR, shape, init, pred, **kw)


def gen_static(rng, oid=500):
    return scen.rand_obstacle(rng, oid, role="static", shape_kinds=("rect", "circ", "poly"))


def gen_lanelet(rng, lid=1, dim3=None):
    la = scen.strip_lanelets(rng, 1, 1, first_id=lid, origin=(scen.rnd(rng, -5, 5), scen.rnd(rng, -5, 5)))[0]
    dim3 = rng.random() < 0.3 if dim3 is None else dim3
    if dim3:
        n = len(la.center_vertices)
        z = np.array([[round(0.4 * i * rng.choice([1, -1, 2]), 3)] for i in range(n)])
        la = Lanelet(np.hstack([la.left_vertices, z]), np.hstack([la.center_vertices, z]),
                     np.hstack([la.right_vertices, z]), lid, lanelet_type=set(la.lanelet_type))
    elif rng.random() < 0.4:
        la.stop_line = StopLine(la.left_vertices[-1].copy(), la.right_vertices[-1].copy(),
                                rng.choice(list(scen.LineMarking)))
    return la


def gen_cycle(rng):
    n = rng.randint(1, 4)
    return TrafficLightCycle([TrafficLightCycleElement(rng.choice(list(scen.TrafficLightState)), rng.randint(1, 20))
                              for _ in range(n)], time_offset=rng.choice([0, 0, 3, 7]), active=rng.random() < 0.8)


def gen_scenario(rng):
    sc = scen.rand_scenario(rng, roles=["static", "dynamic", "dynamic", "dynamic_set", "dynamic_none", "phantom"])
    # two vehicles driving the same path: the second trajectory is built over the very list of states the first one
    # holds (Trajectory keeps the list it is given); moving one vehicle must not reach the other (seed C11-14)
    dyn = [o for o in sc.dynamic_obstacles if isinstance(o.prediction, TrajectoryPrediction)]
    if dyn and rng.random() < 0.5:
        a = dyn[0]
        tr = a.prediction.trajectory
        sc.add_objects(DynamicObstacle(sc.generate_object_id(), a.obstacle_type, copy.deepcopy(a.obstacle_shape),
                                       copy.deepcopy(a.initial_state),
                                       TrajectoryPrediction(Trajectory(tr.initial_time_step, tr.state_list),
                                                            copy.deepcopy(a.prediction.shape))))
    return sc


def make(kind, seed):
    rng = random.Random(seed)
    if kind == "pred":
        return gen_pred(rng)
    if kind == "dyn":
        return gen_dyn(rng)
    if kind == "static":
        return gen_static(rng)
    if kind == "lanelet":
        return gen_lanelet(rng)
    if kind == "net":
        return scen.rand_network(rng)
    if kind == "cycle":
        return gen_cycle(rng)
    if kind == "light":
        return scen.rand_light(rng, 300)
    if kind == "scenario":
        return gen_scenario(rng)
    raise ValueError(kind)
