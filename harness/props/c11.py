"""C11 — derived data never goes stale under mutation.
oracle: histories (query* ; mutate)+ ; query* (<= 12 ops) on generated predictions, obstacles, lanelets, networks,
        traffic lights / cycles and scenarios; every query answer on the mutated object is compared with the same
        query on an object rebuilt through the public constructors from the mutated object's primary data
        (tolerance 1e-9); update_initial_state is compared with lastn m (history ++ [init]).
corr:   Model/Caches.v run by vm_compute on the same histories predicts, after every step, which caches are
        empty / populated-and-valid; the harness observes the same from the implementation (Corr/C11.v)."""
import copy
import math
import random

import numpy as np

from vlib import scen
from vlib.core import outcome_of, qz, qb, qlist
from vlib.flow import load_corpus

from props import c11_objs as O

from commonroad.geometry.shape import Circle, Polygon, Rectangle, ShapeGroup
from commonroad.prediction.prediction import SetBasedPrediction, TrajectoryPrediction
from commonroad.scenario.obstacle import DynamicObstacle, PhantomObstacle, StaticObstacle
from commonroad.scenario.state import InitialState
from commonroad.scenario.traffic_light import TrafficLightCycleElement

TWO_PI = 2.0 * math.pi
KINDS = ["pred", "dyn", "static", "lanelet", "net", "cycle", "light", "scenario"]

RULE = ("cases = (object kind, object seed, op list): (query{0..3} mutate){1..3} query{1..4}, <= 12 ops, on "
        "TrajectoryPrediction, Dynamic/StaticObstacle, Lanelet (2-D and 3-D), LaneletNetwork, TrafficLightCycle, "
        "TrafficLight, Scenario; mutators: translate_rotate (shifts 5..60, angles 0, +-0.03, +-pi/2, random), shape / "
        "trajectory / prediction / initial-state setters, update_initial_state (max_history 1..4), update_prediction, "
        "add / remove lanelet, add_lanelets_from_network, convert_to_2d, cycle_elements / time_offset / active setters; "
        "queries: occupancy / state at t, occupancy_set, polygon, distance, inner_distance, interpolate_position, "
        "contains_points, find_lanelet_by_position / _by_shape (points relative to current and to original place), "
        "traffic-light state, cycle_init_timesteps, scenario occupancies / obstacle states.  distinct = distinct case "
        "dicts; non-trivial = at least one query follows a mutator that was itself preceded by a query")
ASSUME = ["answers of the mutated and of the rebuilt object are computed by the same float code from the same primary "
          "data; compared with tolerance 1e-9*max(1,|x|), lanelet id lists as sets",
          "mutators are applied to the object that owns the queried cache or to an owner of it (scenario > network > "
          "lanelet, obstacle > prediction, light > cycle) or through the setters named in the property; editing a "
          "shared sub-object behind its owner's back (a member Lanelet of a network, the Trajectory object of a "
          "prediction, a cycle element, list.append on a stored list) is outside the quantifier",
          "remove_lanelet / add_lanelet with rtree=False are deferred-index calls and only judged once the index has "
          "been rebuilt by the public compound operation (add_lanelets_from_network)",
          "Coq model: recomputation functions are abstract (Section variables); the theorems are about invalidation "
          "logic only"]


# ------------------------------------------------------------------------------------------ applying ops
def _tr_args(op):
    return np.array([float(op[1]), float(op[2])]), float(op[3])


def _pred_of(obj):
    p = obj.prediction if isinstance(obj, (DynamicObstacle, PhantomObstacle)) else obj
    return p if isinstance(p, TrajectoryPrediction) else None


def resolve_points(net, specs):
    """point specs -> absolute coordinates on the *current* network"""
    lls = net.lanelets
    pts = []
    for sp in specs:
        if sp[0] == "abs" or not lls:
            pts.append(np.array([float(sp[-2]), float(sp[-1])]))
        else:
            la = lls[sp[1] % len(lls)]
            v = la.center_vertices[sp[2] % len(la.center_vertices)]
            pts.append(np.array([float(v[0]) + sp[3], float(v[1]) + sp[4]]))
    return pts


def new_lanelet(net, seed):
    rng = random.Random(seed)
    used = {la.lanelet_id for la in net.lanelets}
    lid = max(used | {0}) + 1 + rng.randint(0, 3)
    la = O.gen_lanelet(rng, lid, dim3=False)
    la.translate_rotate(np.array([scen.rnd(rng, 60, 90), scen.rnd(rng, -40, 40)]), 0.0)
    return O.rb_lanelet(la)


STOP = ("stop",)


def mutate(kind, obj, op):
    """apply a mutator through the public API; returns None, a (signature, what) found while applying it, or STOP
    when the mutator raised an exception that belongs to another property (the object is then unspecified)"""
    try:
        return _mutate(kind, obj, op)
    except AttributeError as e:
        # State.translate_rotate assigns the read-only PMState.orientation (judged by C05, not here)
        if "has no setter" in str(e) and op[0] in ("tr", "obst_tr"):
            return STOP
        raise


def nudged(st, seed, dt):
    """the state again, a hair's breadth away (well inside numpy.isclose's default tolerance at these coordinates,
    a million times the tolerance of the comparison): a vehicle creeping forward, a filter correcting the pose"""
    rng = random.Random(seed)
    new = copy.deepcopy(st)
    new.time_step = st.time_step + dt
    if isinstance(st.position, np.ndarray):
        new.position = st.position + np.array([rng.choice([-1, 1]) * 4e-6 * max(1.0, abs(float(st.position[0]))),
                                               rng.choice([-1, 1]) * 4e-6 * max(1.0, abs(float(st.position[1])))])
    if isinstance(getattr(st, "orientation", None), float):
        new.orientation = st.orientation + rng.choice([-1, 1]) * 4e-6 * max(1.0, abs(st.orientation))
    return new


_FORKS = []


def _mutate(kind, obj, op):
    name = op[0]
    if name == "tr":
        t, a = _tr_args(op)
        obj.translate_rotate(t, a)
    elif name == "set_shape":
        p, rng = _pred_of(obj), random.Random(op[1])
        sh = p.shape
        if len(op) > 2 and op[2] == "inplace" and isinstance(sh, (Rectangle, Circle, Polygon)):
            # the shape the prediction holds is edited through its own setters and handed back: the SAME object.
            # (First a private copy is handed over, so that the edit reaches nobody else - an obstacle may hold the very
            # same shape object as its obstacle_shape - and the occupancies are read once, as a user would have.)
            sh = copy.deepcopy(sh)
            p.shape = sh
            _ = p.occupancy_set
            if isinstance(sh, Rectangle):
                sh.length, sh.width = scen.rnd(rng, 1, 7), scen.rnd(rng, 0.5, 3)
            elif isinstance(sh, Circle):
                sh.radius = scen.rnd(rng, 0.3, 4)
            else:
                sh.vertices = scen.rand_shape(rng, ("poly",)).vertices
            p.shape = sh
        else:
            p.shape = scen.rand_shape(rng, ("rect", "circ", "poly"))
    elif name == "set_traj":
        p = _pred_of(obj)
        if len(op) > 2 and op[2] == "inplace":
            # the trajectory the prediction holds grows by one state and is handed back: the SAME object
            tr = p.trajectory
            st = copy.deepcopy(tr.final_state)
            st.time_step = tr.final_state.time_step + 1
            tr.append_state(st)
            p.trajectory = tr
        else:
            p.trajectory = O.gen_traj(random.Random(op[1]), p.trajectory.initial_time_step)
    elif name == "set_init":
        obj.initial_state = nudged(obj.initial_state, op[1], 0) if len(op) > 2 and op[2] == "nudge" else \
            scen.rand_state(random.Random(op[1]), InitialState, obj.initial_state.time_step)
    elif name in ("set_pred", "update_pred"):
        rng = random.Random(op[1])
        t0 = obj.initial_state.time_step + 1
        p = O.gen_pred(rng, t0) if op[2] == "traj" else O.gen_set_pred(rng, t0) if op[2] == "set" else None
        if isinstance(p, TrajectoryPrediction) and isinstance(p.shape, ShapeGroup):
            p.shape = O.rb_shape(obj.obstacle_shape)
        if name == "set_pred":
            obj.prediction = p
        else:
            obj.update_prediction(p, None)
    elif name == "update_init":
        return update_initial_state(obj, op)
    elif name == "conv2d":
        obj.convert_to_2d()
    elif name == "set_verts":
        # the three public vertex setters, with the polylines of a freshly generated lanelet of the same dimension
        rng = random.Random(op[1])
        src = O.gen_lanelet(rng, obj.lanelet_id, dim3=obj.center_vertices.shape[1] == 3)
        src.translate_rotate(np.array([scen.rnd(rng, -30, 30), scen.rnd(rng, -30, 30)]), 0.0) \
            if src.center_vertices.shape[1] == 2 else None
        order = ["left_vertices", "right_vertices", "center_vertices"]
        rng.shuffle(order)
        if len(op) > 2 and op[2] == "inplace":
            # `lanelet.left_vertices += d`: the array the lanelet holds is edited in place and assigned back
            d = np.array([scen.rnd(rng, -5, 5), scen.rnd(rng, 2, 6)] + [0.0] * (obj.center_vertices.shape[1] - 2))
            for a in order:
                arr = getattr(obj, a)
                arr += d * (1.0 if a != "center_vertices" else 1.5)
                setattr(obj, a, arr)
        else:
            for a in order:
                setattr(obj, a, np.array(getattr(src, a)))
    elif name == "add_lanelet":
        net = obj.lanelet_network if kind == "scenario" else obj
        if len(op) > 2 and op[2] == "fork":
            # a deep copy of the object is taken first and goes its own way (another lanelet is added to the copy, or
            # its first lanelet is removed): nothing of that may reach the original (seed C11-15)
            other = copy.deepcopy(obj)
            onet = other.lanelet_network if kind == "scenario" else other
            if op[1] % 2 == 0 or not onet.lanelets:
                (other.add_objects if kind == "scenario" else other.add_lanelet)(new_lanelet(onet, op[1] + 7))
            else:
                other.remove_lanelet(onet.lanelets[0]) if kind == "scenario" else \
                    other.remove_lanelet(onet.lanelets[0].lanelet_id)
            _FORKS.append(other)
            del _FORKS[:-4]
        la = new_lanelet(net, op[1])
        if kind == "scenario":
            obj.add_objects(la)
        else:
            obj.add_lanelet(la)
    elif name == "remove_lanelet":
        net = obj.lanelet_network if kind == "scenario" else obj
        lls = net.lanelets
        if may_remove(lls, op):
            la = lls[op[1] % len(lls)]
            if kind == "scenario":
                if len(op) > 3 and op[3] == "norefs":
                    # the documented non-default: signs and lights that only this lanelet refers to stay (seed C11-16)
                    obj.remove_lanelet(la, referenced_elements=False)
                else:
                    obj.remove_lanelet(la)
            elif len(op) > 3 and op[3] == "lazy_flush":
                # the batch idiom: the removal defers the index (rtree=False), a last call - here for an id that is not
                # in the network any more - rebuilds it
                obj.remove_lanelet(la.lanelet_id, rtree=False)
                obj.remove_lanelet(la.lanelet_id, rtree=True)
            else:
                obj.remove_lanelet(la.lanelet_id)
    elif name == "add_from_net":
        other = O.LaneletNetwork()
        for i in range(op[2]):
            la = new_lanelet(obj, op[1] + i)
            if la.lanelet_id not in {x.lanelet_id for x in other.lanelets}:
                other.add_lanelet(la)
            if i == 0 and len(op) > 3 and op[3] and obj.lanelets:
                # the other network also holds a lanelet whose id the receiver already has, after a new one: the call
                # warns and stops there - the lanelets added before it are in the network AND in its index
                ex = obj.lanelets[op[1] % len(obj.lanelets)]
                if ex.lanelet_id not in {x.lanelet_id for x in other.lanelets}:
                    other.add_lanelet(O.rb_lanelet(ex))
        obj.add_lanelets_from_network(other)
    elif name in ("set_elems", "set_offset", "set_active", "set_cycle"):
        cyc = _cycle_of(kind, obj, op)
        if cyc is None:
            return None
        if name == "set_elems":
            rng = random.Random(op[1])
            new = [TrafficLightCycleElement(rng.choice(list(scen.TrafficLightState)), rng.randint(1, 20))
                   for _ in range(rng.randint(1, 4))]
            if int(op[1]) % 3 == 0:
                # the list the getter hands out is edited in place and assigned back: the SAME list object
                els = cyc.cycle_elements
                els[:] = new
                cyc.cycle_elements = els
            else:
                cyc.cycle_elements = new
        elif name == "set_offset":
            cyc.time_offset = int(op[1])
        elif name == "set_active":
            cyc.active = bool(op[1])
        else:
            _light_of(kind, obj, op).traffic_light_cycle = O.gen_cycle(random.Random(op[1]))
    elif name == "obst_tr":
        obs = obj.obstacles
        if obs:
            o = obs[op[4] % len(obs)]
            if hasattr(o, "translate_rotate"):
                o.translate_rotate(np.array([float(op[1]), float(op[2])]), float(op[3]))
    else:
        raise ValueError(name)
    return None


def _light_of(kind, obj, op):
    if kind == "light":
        return obj
    net = obj.lanelet_network if kind == "scenario" else obj
    tls = net.traffic_lights
    return tls[op[-1] % len(tls)] if tls else None


def _cycle_of(kind, obj, op):
    if kind == "cycle":
        return obj
    t = _light_of(kind, obj, op)
    return None if t is None else t.traffic_light_cycle


def lastn(m, xs):
    return xs[len(xs) - m:] if len(xs) > m else list(xs)


def update_initial_state(obj, op):
    """DynamicObstacle.update_initial_state against  history' = lastn m (history ++ [init])"""
    rng = random.Random(op[1])
    m = int(op[2])
    names = ["history", "signal_history", "center_lanelet_ids_history", "shape_lanelet_ids_history"]
    before = [list(getattr(obj, n)) for n in names]
    inits = [obj.initial_state, obj.initial_signal_state, obj.initial_center_lanelet_ids,
             obj.initial_shape_lanelet_ids]
    cur = scen.rand_state(rng, InitialState, obj.initial_state.time_step + 1)
    if len(op) > 3 and op[3] == "nudge":
        cur = nudged(obj.initial_state, op[1], 1)
    sig = scen.rand_signal(rng, cur.time_step) if rng.random() < 0.5 else None
    cen = {rng.randint(1, 9)} if rng.random() < 0.5 else None
    shp = {rng.randint(1, 9)} if rng.random() < 0.5 else None
    obj.update_initial_state(cur, sig, cen, shp, max_history_length=m)
    equal_before = len({len(b) for b in before}) == 1
    for n, b, i in zip(names, before, inits):
        after = list(getattr(obj, n))
        want = lastn(m, b + [i])
        if n == "history" or equal_before:
            if len(after) != len(want) or any(x is not y for x, y in zip(after, want)):
                return ("dyn:update_initial_state:" + n,
                        f"{n} after update_initial_state(max_history_length={m}) has length {len(after)}, expected "
                        f"the last {m} of the {len(b) + 1} previous entries in order")
    if equal_before and len({len(getattr(obj, n)) for n in names}) != 1:
        return ("dyn:update_initial_state:lengths", "history lists of unequal length after update_initial_state")
    if obj.initial_state is not cur or obj.initial_signal_state is not sig or obj.prediction is not None:
        return ("dyn:update_initial_state:current", "current state / signal not installed or prediction not dropped")
    return None


# ------------------------------------------------------------------------------------------ queries
def query(kind, obj, op, ctxobj=None):
    """canonical answer of a query; ctxobj = the object point specs are resolved on (the mutated one)"""
    name = op[0]
    ctxobj = obj if ctxobj is None else ctxobj
    if name == "q_occ":
        if kind == "pred":
            return O.c_val(obj.occupancy_at_time_step(int(op[1])))
        return O.c_val(obj.occupancy_at_time(int(op[1])))
    if name == "q_occset":
        p = obj if kind == "pred" else obj.prediction
        return None if p is None else O.c_val(p.occupancy_set)
    if name == "q_state":
        return O.c_val(obj.state_at_time(int(op[1])))
    if name == "q_poly":
        return O.c_val(obj.polygon)
    if name == "q_dist":
        return O.c_val(obj.distance)
    if name == "q_inner":
        return O.c_val(obj.inner_distance)
    if name == "q_interp":
        d = float(ctxobj.distance[-1]) * op[1]
        r = obj.interpolate_position(min(d, float(obj.distance[-1])))
        return O.c_val(list(r))
    if name == "q_contains":
        v = ctxobj.center_vertices
        pts = np.array([[float(v[i % len(v)][0]) + dx, float(v[i % len(v)][1]) + dy] for i, dx, dy in op[1]])
        return O.c_val([bool(b) for b in obj.contains_points(pts)])
    net = obj.lanelet_network if kind == "scenario" else obj
    cnet = ctxobj.lanelet_network if kind == "scenario" else ctxobj
    if name == "q_pos":
        pts = resolve_points(cnet, op[1])
        return [sorted(int(i) for i in ids) for ids in net.find_lanelet_by_position(pts)]
    if name == "q_shape":
        c = resolve_points(cnet, [op[1]])[0]
        shp = Rectangle(op[2], op[3], c, op[4]) if op[5] == "rect" else Circle(op[2], c)
        return sorted(int(i) for i in net.find_lanelet_by_shape(shp))
    if name == "q_polys":
        return O.c_val(net.lanelet_polygons)
    if name == "q_ldist":
        lls = net.lanelets
        if not lls:
            return []       # nothing to ask in an emptied network
        la = lls[op[1] % len(lls)]
        return [la.lanelet_id, O.c_val(la.distance), O.c_val(la.polygon)]
    if name == "q_light":
        if kind == "cycle":
            return O.c_val(obj.get_state_at_time_step(int(op[1])))
        t = _light_of(kind, obj, op)
        return None if t is None or t.traffic_light_cycle is None else O.c_val(t.get_state_at_time_step(int(op[1])))
    if name == "q_init":
        c = _cycle_of(kind, obj, op)
        return None if c is None else O.c_val(np.asarray(c.cycle_init_timesteps))
    if name == "q_occs":
        return O.c_val(obj.occupancies_at_time_step(int(op[1])))
    if name == "q_states":
        return O.c_val(obj.obstacle_states_at_time_step(int(op[1])))
    raise ValueError(name)


def is_query(op):
    return op[0].startswith("q_")


# which mutators can change the answer of which query family (used to name the culprit in a failure signature)
FAMILY = {
    "occ": ({"q_occ", "q_occset", "q_occs", "q_state", "q_states"},
            {"tr", "obst_tr", "set_shape", "set_traj", "set_init", "set_pred", "update_pred", "update_init"}),
    "lanelet": ({"q_pos", "q_shape", "q_polys", "q_ldist", "q_poly", "q_dist", "q_inner", "q_interp", "q_contains"},
                {"tr", "add_lanelet", "remove_lanelet", "add_from_net", "conv2d", "set_verts"}),
    "light": ({"q_light", "q_init"}, {"set_elems", "set_offset", "set_active", "set_cycle"}),
}


def culprit(ops, i):
    """the last mutator before step i that can affect the query at step i"""
    q = ops[i][0]
    for qs, ms in FAMILY.values():
        if q in qs:
            for op in reversed(ops[:i]):
                if op[0] in ms:
                    return op[0]
    return "none"


def _g_outcome(kind, obj, op, ctxobj):
    r = outcome_of(query, kind, obj, op, ctxobj)
    return list(r)


# ------------------------------------------------------------------------------------------ the oracle
def oracle(case):
    """the property statement: every query answer on the mutated object equals the answer of an object rebuilt
    from the current primary data; returns None | (signature, what)"""
    kind = case["kind"]
    obj = O.make(kind, case["seed"])
    rebuild = O.REBUILD[kind]
    for i, op in enumerate(case["ops"]):
        if not is_query(op):
            r = mutate(kind, obj, op)
            if r is STOP:
                return None
            if r:
                return r
            continue
        last_mut = culprit(case["ops"], i)
        fresh = rebuild(obj)
        got = _g_outcome(kind, obj, op, obj)
        want = _g_outcome(kind, fresh, op, obj)
        if got[0] != want[0]:
            return (f"{kind}:{op[0]} after {last_mut}:outcome",
                    f"step {i} {op}: mutated object -> {str(got)[:120]}, rebuilt object -> {str(want)[:120]}")
        d = O.diff(got[1], want[1]) if got[0] == "ok" else ([] if got[1] == want[1] else [f"{got[1]} != {want[1]}"])
        if d:
            return (f"{kind}:{op[0]} after {last_mut}",
                    f"step {i} {op} on a {kind} (seed {case['seed']}) after {last_mut}: answer differs from the "
                    f"answer of an object rebuilt from the current primary data at {d[0][:160]}")
    return None


# ------------------------------------------------------------------------------------------ generators
def g_tr(rng):
    k = rng.random()
    if k < 0.15:
        t = (0.0, 0.0)
    else:
        t = (scen.rnd(rng, 5, 60) * rng.choice([1, -1]), scen.rnd(rng, 5, 60) * rng.choice([1, -1, 0]))
    a = rng.choice([0.0, 0.0, 0.03, -0.03, math.pi / 2, -math.pi / 2, math.pi, scen.rnd(rng, -6.2, 6.2),
                    scen.rnd(rng, -1, 1)])
    if t == (0.0, 0.0) and a == 0.0:
        a = 1.0
    return ["tr", t[0], t[1], a]


def g_point_specs(rng, n=None):
    out = []
    for _ in range(n or rng.randint(1, 4)):
        if rng.random() < 0.6:
            out.append(["rel", rng.randint(0, 20), rng.randint(0, 8), scen.rnd(rng, -2, 2), scen.rnd(rng, -2, 2)])
        else:
            out.append(["abs", scen.rnd(rng, -5, 40), scen.rnd(rng, -4, 10)])
    return out


def g_times(rng, obj):
    lo, hi = 0, 6
    init = getattr(obj, "initial_state", None)
    if init is not None:
        lo = init.time_step
    p = getattr(obj, "prediction", obj if isinstance(obj, TrajectoryPrediction) else None)
    if p is not None:
        lo = min(lo, p.initial_time_step)
        f = p.final_time_step
        hi = f if isinstance(f, int) else 6
    return rng.randint(max(0, lo - 1), hi + 1)


def g_query(rng, kind, obj):
    if kind == "pred":
        return rng.choice([["q_occ", g_times(rng, obj)], ["q_occ", g_times(rng, obj)], ["q_occset"]])
    if kind == "dyn":
        return rng.choice([["q_occ", g_times(rng, obj)], ["q_occ", g_times(rng, obj)], ["q_state", g_times(rng, obj)],
                           ["q_occset"]])
    if kind == "static":
        return rng.choice([["q_occ", rng.randint(0, 5)], ["q_state", rng.randint(0, 5)]])
    if kind == "lanelet":
        return rng.choice([["q_poly"], ["q_dist"], ["q_dist"], ["q_inner"], ["q_interp", scen.rnd(rng, 0, 1)],
                           ["q_contains", [[rng.randint(0, 8), scen.rnd(rng, -2, 2), scen.rnd(rng, -2, 2)]
                                           for _ in range(3)]]])
    if kind in ("cycle", "light"):
        return rng.choice([["q_light", rng.randint(0, 80), 0], ["q_light", rng.randint(0, 80), 0], ["q_init", 0]])
    qs = [["q_pos", g_point_specs(rng)], ["q_pos", g_point_specs(rng)],
          ["q_shape", g_point_specs(rng, 1)[0], scen.rnd(rng, 0.5, 6), scen.rnd(rng, 0.5, 4), scen.rnd(rng, -3, 3),
           rng.choice(["rect", "circ"])],
          ["q_light", rng.randint(0, 80), rng.randint(0, 5)]]
    if kind == "net":
        qs += [["q_polys"], ["q_ldist", rng.randint(0, 20)]]
    else:
        qs += [["q_occs", rng.randint(0, 7)], ["q_occs", rng.randint(0, 7)], ["q_states", rng.randint(0, 7)]]
    return rng.choice(qs)


def may_remove(lls, op):
    """remove_lanelet ops leave the last lanelet alone unless they carry the flag 'also the last one'"""
    return len(lls) > 1 or (len(lls) == 1 and len(op) > 2 and bool(op[2]))


def g_mutator(rng, kind, obj):
    s = rng.getrandbits(30)
    if kind == "pred":
        return rng.choice([g_tr(rng), g_tr(rng), ["set_shape", s], ["set_traj", s], ["set_shape", s, "inplace"],
                           ["set_traj", s, "inplace"]])
    if kind == "dyn":
        ms = [g_tr(rng), g_tr(rng), ["set_init", s], ["update_init", s, rng.randint(1, 4)],
              ["set_init", s, "nudge"], ["update_init", s, rng.randint(1, 4), "nudge"],
              ["update_pred", s, rng.choice(["traj", "traj", "set"])],
              ["set_pred", s, rng.choice(["traj", "set", "none"])]]
        if _pred_of(obj) is not None:
            ms += [["set_shape", s], ["set_traj", s], ["set_shape", s, "inplace"], ["set_traj", s, "inplace"]]
        return rng.choice(ms)
    if kind == "static":
        return rng.choice([g_tr(rng), g_tr(rng), ["set_init", s], ["set_init", s, "nudge"]])
    if kind == "lanelet":
        if obj.center_vertices.shape[1] == 3:
            return ["conv2d"]
        return rng.choice([g_tr(rng), g_tr(rng), g_tr(rng), ["conv2d"], ["set_verts", s], ["set_verts", s, "inplace"]])
    if kind == "cycle":
        return rng.choice([["set_elems", s], ["set_offset", rng.randint(0, 9)], ["set_offset", rng.randint(0, 9)],
                           ["set_active", rng.random() < 0.5]])
    if kind == "light":
        return rng.choice([["set_elems", s, 0], ["set_offset", rng.randint(0, 9), 0], ["set_cycle", s, 0], g_tr(rng)])
    ms = [g_tr(rng), g_tr(rng), g_tr(rng), ["add_lanelet", s], ["add_lanelet", s, "fork"],
          ["remove_lanelet", rng.randint(0, 20), rng.random() < 0.3],
          ["set_offset", rng.randint(0, 9), rng.randint(0, 5)], ["set_elems", s, rng.randint(0, 5)]]
    if kind == "net":
        ms += [["add_from_net", s, rng.randint(1, 3), rng.random() < 0.4],
               ["remove_lanelet", rng.randint(0, 20), False, "lazy_flush"]]
    else:
        ms += [["obst_tr"] + g_tr(rng)[1:] + [rng.randint(0, 5)],
               ["remove_lanelet", rng.randint(0, 20), rng.random() < 0.3, "norefs"]]
    return rng.choice(ms)


def gen_drain_case(rng, kind):
    """the network is emptied lanelet by lanelet (the last one too), queried when empty, then refilled"""
    seed = rng.getrandbits(30)
    obj = O.make(kind, seed)
    net = obj.lanelet_network if kind == "scenario" else obj
    ops = [g_query(rng, kind, obj)]
    outcome_of(query, kind, obj, ops[-1])
    for _ in range(len(net.lanelets)):
        ops.append(["remove_lanelet", rng.randint(0, 20), True])
        if mutate(kind, obj, ops[-1]) is STOP:
            return gen_case(rng, kind)
    qs = [op for op in (g_query(rng, kind, obj) for _ in range(12)) if op[0] in ("q_pos", "q_shape", "q_polys")][:3]
    ops += qs or [["q_pos", g_point_specs(rng)]]
    if rng.random() < 0.6:
        ops.append(["add_lanelet", rng.getrandbits(30)])
        ops.append(["q_pos", g_point_specs(rng)])
    return {"kind": kind, "seed": seed, "ops": ops}


def gen_case(rng, kind=None):
    kind = kind or rng.choice(KINDS)
    if kind in ("net", "scenario") and rng.random() < 0.1:
        return gen_drain_case(rng, kind)
    seed = rng.getrandbits(30)
    obj = O.make(kind, seed)
    ops = []
    if kind == "scenario" and rng.random() < 0.5:
        # two vehicles over one list of states (c11_objs.gen_scenario): ask, move the first one alone, ask again
        obs = obj.obstacles
        lists = [id(o.prediction.trajectory.state_list) if isinstance(getattr(o, "prediction", None), TrajectoryPrediction)
                 else None for o in obs]
        shared = [i for i, x in enumerate(lists) if x is not None and lists.count(x) > 1]
        if shared:
            t = rng.randint(0, 7)
            for op in (["q_occs", t], ["obst_tr"] + g_tr(rng)[1:] + [shared[0]], ["q_occs", t]):
                ops.append(op)
                if is_query(op):
                    outcome_of(query, kind, obj, op)
                elif mutate(kind, obj, op) is STOP:
                    return gen_case(rng, kind)
    for _ in range(rng.randint(1, 3)):
        for _ in range(rng.randint(0, 3)):
            ops.append(g_query(rng, kind, obj))
            outcome_of(query, kind, obj, ops[-1])
        m = g_mutator(rng, kind, obj)
        ops.append(m)
        if mutate(kind, obj, m) is STOP:
            return gen_case(rng, kind)
    asked = [op for op in ops if is_query(op)]
    for _ in range(rng.randint(1, 4)):
        # ask again what was asked before the mutators (whatever remembered that answer is now on the spot)
        ops.append(copy.deepcopy(rng.choice(asked)) if asked and rng.random() < 0.6 else g_query(rng, kind, obj))
    return {"kind": kind, "seed": seed, "ops": ops[:12] if is_query(ops[:12][-1]) else ops[:11] + [ops[-1]]}


def gen(rng, n):
    return [gen_case(rng) for _ in range(n)]


def nontrivial(case):
    """a query follows a mutator that was itself preceded by a query (so a cache could be stale)"""
    st = 0
    for op in case["ops"]:
        if is_query(op):
            if st == 2:
                return True
            st = max(st, 1)
        elif st >= 1:
            st = 2
    return False


def kind(case):
    return case["kind"]


# ------------------------------------------------------------------------------------------ correspondence
def _st(populated, valid):
    return "Empty" if not populated else ("Valid" if valid else "Stale")


def _same(a, b):
    return not O.diff(O.c_val(a), O.c_val(b))


def pred_status(p):
    if not isinstance(p, TrajectoryPrediction):
        return ["Empty"]
    pop = "occupancy_set" in p.__dict__
    return [_st(pop, pop and _same(p.__dict__["occupancy_set"], O.rb_pred(p).occupancy_set))]


def obst_status(o):
    fresh = O.rb_obstacle(o)
    t = o.initial_state.time_step
    return [_st(True, _same(o._initial_occupancy_shape, fresh.occupancy_at_time(t).shape))] + \
        pred_status(getattr(o, "prediction", None))


def lanelet_status(la):
    fresh = O.rb_lanelet(la)
    return [_st(True, _same(la._polygon, fresh.polygon)),
            _st(la._distance is not None, la._distance is not None and _same(la._distance, fresh.distance)),
            _st(la._inner_distance is not None,
                la._inner_distance is not None and _same(la._inner_distance, fresh.inner_distance))]


def cycle_status(c):
    pop = hasattr(c, "_cycle_init_timesteps")
    return [_st(pop, pop and _same(np.asarray(c._cycle_init_timesteps),
                                   np.asarray(O.rb_cycle(c).cycle_init_timesteps)))]


def _coords(poly):
    return np.asarray(poly.exterior.coords)


def net_status(net):
    want = [(la.lanelet_id, _coords(O.rb_lanelet(la).polygon.shapely_object)) for la in net.lanelets]

    def same(entries):
        return len(entries) == len(want) and all(i == j and a.shape == b.shape and _same(a, b)
                                                 for (i, a), (j, b) in zip(entries, want))
    buf = [(i, _coords(g)) for i, g in net._buffered_polygons.items()]
    out = [_st(True, same(buf))]
    if net._strtee is None:
        out.append("Empty")
    else:
        tree = [(net._lanelet_id_index_by_id.get(id(g)), _coords(g)) for g in net._strtee.geometries]
        out.append(_st(True, same(tree)))
    for la in net.lanelets:
        out += lanelet_status(la)
    for t in net.traffic_lights:
        out += cycle_status(t.traffic_light_cycle)
    return out


def modelled_obstacles(sc):
    return [o for o in sc.obstacles if isinstance(o, (StaticObstacle, DynamicObstacle))]


def scenario_status(sc):
    out = net_status(sc.lanelet_network)
    for o in modelled_obstacles(sc):
        out += obst_status(o)
    return out


STATUS = {"pred": pred_status, "dyn": obst_status, "static": obst_status, "lanelet": lanelet_status,
          "net": net_status, "cycle": cycle_status, "light": lambda t: cycle_status(t.traffic_light_cycle),
          "scenario": scenario_status}


class Tok:
    def __init__(self):
        self.k = 0

    def new(self):
        self.k += 1
        return f"(T {qz(self.k)})"

    def z(self):
        self.k += 1
        return qz(self.k)


def _qoptz(x, tk):
    return "None" if x is None else f"(Some {tk.z()})"


def q_state_tok(st, tk):
    return f"({qz(st.time_step)}, {tk.new()})"


def q_pprim(p, tk):
    if isinstance(p, TrajectoryPrediction):
        return f"(PPTraj TokW {tk.new()} {tk.new()})"
    if isinstance(p, SetBasedPrediction):
        return f"(PPSet TokW {tk.new()})"
    return "(PPNone TokW)"


def q_oprim(o, tk):
    static = isinstance(o, StaticObstacle)
    hist = [] if static else o.history
    sh = [] if static else o.signal_history
    ch = [] if static else o.center_lanelet_ids_history
    ph = [] if static else o.shape_lanelet_ids_history
    d = (f"(Build_odata TokW {qb(static)} {tk.new()} {q_state_tok(o.initial_state, tk)} "
         f"{_qoptz(o.initial_signal_state, tk)} {_qoptz(o.initial_center_lanelet_ids, tk)} "
         f"{_qoptz(o.initial_shape_lanelet_ids, tk)} {_qoptz(o.signal_series, tk)} "
         f"{qlist([q_state_tok(s, tk) for s in hist])} {qlist([_qoptz(s, tk) for s in sh])} "
         f"{qlist([_qoptz(s, tk) for s in ch])} {qlist([_qoptz(s, tk) for s in ph])})")
    return f"({d}, {q_pprim(None if static else o.prediction, tk)})"


COLOURS = {c: i for i, c in enumerate(scen.TrafficLightState)}


def q_elems(elems):
    return qlist([f"({qz(COLOURS[e.state])}, {qz(e.duration)})" for e in elems])


def q_cprim(c):
    return f"({q_elems(c.cycle_elements)}, {qz(c.time_offset)}, {qb(c.active)})"


def q_nprim(net, tk):
    return (f"(Build_nprim TokW {qlist([f'({qz(la.lanelet_id)}, {tk.new()})' for la in net.lanelets])} "
            f"{qlist([q_cprim(t.traffic_light_cycle) for t in net.traffic_lights])})")


def q_obs(status, err=False, hist=(), lens=()):
    return (f"{{| ob_status := {qlist(status)}; ob_err := {qb(err)}; ob_hist := {qlist([qz(x) for x in hist])}; "
            f"ob_lens := {qlist([qz(x) for x in lens])} |}}")


def _net_op(kind, obj, op, tk):
    """Coq term of a network-level op (as a nop), or None when the op has no counterpart in the model"""
    net = obj.lanelet_network if kind == "scenario" else obj
    name = op[0]
    if name == "add_lanelet":
        return f"(NAdd TokW ({qz(new_lanelet(net, op[1]).lanelet_id)}, {tk.new()}) true)"
    if name == "remove_lanelet":
        lls = net.lanelets
        # "lazy_flush" (deferred removal + flushing call) has the same net effect as the eager removal: same model op
        return f"(NRemove TokW {qz(lls[op[1] % len(lls)].lanelet_id)} true)" if may_remove(lls, op) else None
    if name == "add_from_net":
        ids = []
        for i in range(op[2]):
            lid = new_lanelet(net, op[1] + i).lanelet_id
            if lid not in ids:
                ids.append(lid)
            if i == 0 and len(op) > 3 and op[3] and net.lanelets:
                ex = net.lanelets[op[1] % len(net.lanelets)].lanelet_id
                if ex not in ids:
                    ids.append(ex)
        return f"(NAddFrom TokW {qlist([f'({qz(i)}, {tk.new()})' for i in ids])})"
    if name == "tr":
        return f"(NMove TokW {tk.z()})"
    if name in ("q_pos", "q_shape"):
        return f"({'NQPos' if name == 'q_pos' else 'NQShape'} TokW tt)"
    if name == "q_ldist":
        return f"(NLanelet TokW {op[1] % len(net.lanelets)}%nat (LQDist TokW))" if net.lanelets else None
    tls = net.traffic_lights
    if name in ("q_light", "q_init", "set_offset", "set_elems", "set_active"):
        if not tls:
            return None
        k = op[-1] % len(tls)
        return f"(NLight TokW {k}%nat {_cycle_op(op)})"
    return None


def _cycle_op(op):
    name = op[0]
    if name == "q_light":
        return f"(CQState TokW {qz(op[1])})"
    if name == "q_init":
        return "(CQInit TokW)"
    if name == "set_offset":
        return f"(CSetOffset TokW {qz(op[1])})"
    if name == "set_active":
        return f"(CSetActive TokW {qb(op[1])})"
    if name == "set_elems":
        rng = random.Random(op[1])
        el = [(rng.choice(list(scen.TrafficLightState)), rng.randint(1, 20)) for _ in range(rng.randint(1, 4))]
        return f"(CSetElems TokW {qlist([f'({qz(COLOURS[c])}, {qz(d)})' for c, d in el])})"
    if name == "set_cycle":
        return "REPLACE"
    raise ValueError(name)


def _obst_op(obj, op, tk):
    name = op[0]
    if name == "tr":
        return f"(OMove TokW {tk.z()})"
    if name == "set_init":
        return f"(OSetInit TokW ({qz(obj.initial_state.time_step)}, {tk.new()}))"
    if name in ("set_pred", "update_pred"):
        pp = {"traj": f"(PPTraj TokW {tk.new()} {tk.new()})", "set": f"(PPSet TokW {tk.new()})",
              "none": "(PPNone TokW)"}[op[2]]
        return f"(OSetPred TokW {pp})" if name == "set_pred" else f"(OUpdatePred TokW {pp} None)"
    if name == "set_shape":
        return f"(OPred TokW (PSetShape TokW {tk.new()}))"
    if name == "set_traj":
        return f"(OPred TokW (PSetTraj TokW {tk.new()}))"
    if name == "q_occ":
        return f"(OQOcc TokW {qz(op[1])})"
    if name == "q_state":
        return f"(OQState TokW {qz(op[1])})"
    if name == "q_occset":
        return "(OPred TokW (PQOccSet TokW))" if _pred_of(obj) is not None else None
    raise ValueError(name)


def encode_case(case):
    """run the history on the implementation and print the Coq case: initial primary data as tokens, every op with
    the cache status observed after it"""
    kind = case["kind"]
    obj = O.make(kind, case["seed"])
    tk = Tok()
    if kind == "pred":
        head = f"CPred {tk.new()} {tk.new()}"
    elif kind in ("dyn", "static"):
        head = f"CObst {q_oprim(obj, tk)}"
    elif kind == "lanelet":
        head = f"CLanelet ({qz(obj.lanelet_id)}, {tk.new()})"
    elif kind == "cycle":
        head = f"CCycle {q_cprim(obj)}"
    elif kind == "light":
        head = f"CCycle {q_cprim(obj.traffic_light_cycle)}"
    elif kind == "net":
        head = f"CNet {q_nprim(obj, tk)}"
    else:
        obs_prims = qlist([q_oprim(o, tk) for o in modelled_obstacles(obj)])
        head = f"CScen ({q_nprim(obj.lanelet_network, tk)}, {obs_prims})"
    steps = []
    for op in case["ops"]:
        name = op[0]
        term = None
        # ---- the model's operation (computed before the implementation call: it may need the state before)
        if kind == "pred":
            term = {"tr": lambda: f"(PMove TokW {tk.z()})", "set_shape": lambda: f"(PSetShape TokW {tk.new()})",
                    "set_traj": lambda: f"(PSetTraj TokW {tk.new()})", "q_occset": lambda: "(PQOccSet TokW)",
                    "q_occ": lambda: f"(PQOccAt TokW {qz(op[1])})"}[name]()
        elif kind in ("dyn", "static"):
            if name == "update_init":
                term = "UPDATE_INIT"
            else:
                term = _obst_op(obj, op, tk)
        elif kind == "lanelet":
            term = {"tr": lambda: f"(LMove TokW {tk.z()})", "conv2d": lambda: "(LConv2d TokW)",
                    "set_verts": lambda: f"(LSetVerts TokW {tk.new()})",
                    "q_poly": lambda: "(LQPoly TokW)", "q_dist": lambda: "(LQDist TokW)",
                    "q_inner": lambda: "(LQInner TokW)", "q_interp": lambda: "(LQInterp TokW tt)",
                    "q_contains": lambda: "(LQContains TokW tt)"}[name]()
        elif kind in ("cycle", "light"):
            term = None if name == "tr" else _cycle_op(op)
        elif kind == "net":
            term = _net_op(kind, obj, op, tk)
        else:
            if name == "tr":
                term = f"(SMove TokW {tk.z()})"
            elif name == "add_lanelet":
                term = f"(SAddLanelet TokW ({qz(new_lanelet(obj.lanelet_network, op[1]).lanelet_id)}, {tk.new()}))"
            elif name == "remove_lanelet":
                lls = obj.lanelet_network.lanelets
                if may_remove(lls, op):
                    lights_before = [t.traffic_light_id for t in obj.lanelet_network.traffic_lights]
                    term = ("REMOVE", lls[op[1] % len(lls)].lanelet_id, lights_before)
            elif name == "obst_tr":
                obs = obj.obstacles
                tgt = obs[op[4] % len(obs)] if obs else None
                mod = modelled_obstacles(obj)
                term = f"(SObst TokW {mod.index(tgt)}%nat (OMove TokW {tk.z()}))" if tgt in mod else None
            elif name == "q_occs":
                term = f"(SQOccs TokW {qz(op[1])})"
            elif name == "q_states":
                term = None
            else:
                t = _net_op(kind, obj, op, tk)
                term = None if t is None else f"(SNet TokW {t})"
        # ---- the implementation
        err = False
        upd = None
        if is_query(op):
            # exception classes are part of the model only where it has error results (obstacles, networks)
            err = outcome_of(query, kind, obj, op)[0] == "exc" and kind in ("dyn", "static", "net", "scenario")
        else:
            r = mutate(kind, obj, op)
            if r is STOP:
                break
            if name == "update_init":
                m = int(op[2])
                o = obj
                upd = (f"(OUpdateInit TokW ({qz(o.initial_state.time_step)}, {tk.new()}) "
                       f"{_qoptz(o.initial_signal_state, tk)} {_qoptz(o.initial_center_lanelet_ids, tk)} "
                       f"{_qoptz(o.initial_shape_lanelet_ids, tk)} {m}%nat)")
        if term == "UPDATE_INIT":
            term = upd
        if isinstance(term, tuple):
            # the lights Scenario.remove_lanelet dropped as no longer referenced (oracle input of the model)
            left = [t.traffic_light_id for t in obj.lanelet_network.traffic_lights]
            cur, drop = list(term[2]), []
            for lid in term[2]:
                if lid not in left:
                    drop.append(cur.index(lid))
                    cur.remove(lid)
            term = f"(SRemoveLanelet TokW {qz(term[1])} {qlist([f'{k}%nat' for k in drop])})"
        if term == "REPLACE":
            c = obj.traffic_light_cycle
            term = f"(CReplace TokW {q_elems(c.cycle_elements)} {qz(c.time_offset)} {qb(c.active)})"
        if term is None:
            continue
        hist, lens = (), ()
        if kind == "dyn":
            hist = [s.time_step for s in obj.history]
            lens = [len(obj.history), len(obj.signal_history), len(obj.center_lanelet_ids_history),
                    len(obj.shape_lanelet_ids_history)]
        elif kind == "static":
            lens = [0, 0, 0, 0]
        elif kind in ("cycle", "light"):
            c = obj if kind == "cycle" else obj.traffic_light_cycle
            hist = [int(x) for x in c._cycle_init_timesteps] if hasattr(c, "_cycle_init_timesteps") else []
        steps.append(f"({term}, {q_obs(STATUS[kind](obj), err, hist, lens)})")
    return f"({head} {qlist(steps)})"


def corr(ctx, cases):
    terms, use = [], []
    for c in cases:
        terms.append(encode_case(c))
        use.append(c)
    imports = ("From Coq Require Import ZArith List Bool NArith.\nImport ListNotations.\n"
               "From CR Require Import Base.G5Machine Model.Caches Corr.C11.\nOpen Scope Z_scope.\n")
    bad, errors = ctx.coq_bad_indices("corr", imports, "", terms, "check", shard=200)
    ctx.coverage["correspondence_cases"] = len(terms)
    for e in errors:
        ctx.corr_break("Corr.C11.check (coqc failed)", e)
    for i in bad:
        ctx.corr_break("Corr.C11.check: cache status after every op, Model/Caches.v vs implementation", use[i])
    ctx.log(f"corr cases={len(terms)} disagree={len(bad)} coq_errors={len(errors)}")


def run(ctx):
    ctx.trusted = ["Coq 8.16.1 kernel + vm_compute (no native_compute)",
                   "axioms: none (Print Assumptions: Closed under the global context for every theorem)",
                   "hand-written model coq/Model/Caches.v of the invalidation logic in prediction.py, obstacle.py, "
                   "lanelet.py, traffic_light.py, scenario.py (line ranges in the file header), tied to the code by "
                   "the correspondence relation coq/Corr/C11.v (cache status after every operation) on every run",
                   "recomputation functions and geometry are abstract in the model (Section variable W : world): "
                   "numpy / shapely / STRtree are outside the model",
                   "harness/props/c11.py, c11_objs.py (generators, rebuild through public constructors, canonical "
                   "answers, Coq term printer); reads the private cache fields only to classify them"]
    ctx.trusted.insert(3, "harness/props/cache_src.py: parser of the syntax trees of the public setters of Lanelet (vertex setters), TrajectoryPrediction (trajectory / shape) and Obstacle (initial_state / obstacle_shape) "
                          "into rows (store / drop / rebuild, in order; conditional tail) of the table of coq/Model/CacheTable.v, "
                          "with dependency lists derived from what the filling code reads, regenerated on every run as "
                          "coq/Gen/Src_cachetable.v (fail-closed); C11_lanelet_setters_are_source / C11_trajectory_prediction_setters_are_source / C11_obstacle_setters_are_source instantiate the generic theorem of "
                          "Proofs/CacheTable.v (every history of checked setters and queries is coherent and answers as a "
                          "fresh object) with the parsed tables, whose check is evaluated by the kernel; trusted: the parser, "
                          "its SPECS (which attributes are primary / derived and where the derived ones are filled), and that "
                          "a rebuild stores the value a fresh object computes (observed by the correspondence)")
    from props import cache_src
    try:
        changed = cache_src.generate()
        ctx.notes.append(f"Gen/Src_cachetable.v regenerated from the source ({'changed' if changed else 'unchanged'})")
    except Exception as e:   # SourceShapeError, SyntaxError, OSError: the tables are no longer shown to be the source's
        ctx.proof_breaks.append({"theorem": "source parser:Gen/Src_cachetable.v (C11_lanelet_setters_are_source / C11_trajectory_prediction_setters_are_source / C11_obstacle_setters_are_source)",
                                 "where": "harness/props/cache_src.py", "log": str(e)})
        ctx.log(f"proof_broken theorem=C11_*_setters_are_source (source parser: {e})")
    ctx.build_props()
    if ctx.tier == "thorough":
        ctx.coqchk()
    n = ctx.n(1000, 20000)
    me = __import__("props.c11", fromlist=["x"])
    cases = load_corpus(ctx.prop) + gen(ctx.rng, n)

    def run_oracle(cs):
        for c in cs:
            ctx.count(c, nontrivial(c), kind(c))
            r = oracle(c)
            if r:
                ctx.fail(r[0], r[1], c)

    run_oracle(cases)
    corr(ctx, cases if ctx.quick else cases[:4000])
    if (ctx.proof_breaks or ctx.corr_breaks) and not ctx.failures:
        ctx.log(f"proof/correspondence broke ({len(ctx.proof_breaks)}/{len(ctx.corr_breaks)}); widening the search")
        around = [b["case"] for b in ctx.corr_breaks if isinstance(b.get("case"), dict)]
        run_oracle(around)
        if not ctx.failures:
            more = []
            for c in around[:40]:
                for _ in range(10):
                    more.append(gen_case(ctx.rng, c["kind"]))
            run_oracle(more + gen(ctx.rng, n * 6))
    return ctx.finish(RULE, assumptions=ASSUME)
