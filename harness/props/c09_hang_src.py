"""C09 source tie for Scenario.remove_hanging_lanelet_members (commonroad/scenario/scenario.py): parsed on every run
into the selection language of coq/Model/IdHangSrc.v and written to coq/Gen/Src_idhang.v; Proofs/SrcIdHang.v proves the
parsed program to compute remove_hanging of Model/IdPool.v.  The method is parsed as written (no normal form: its set
comprehensions are the shapes).  Fail-closed.  Variable names are free.

Trusted: this parser and the reading of the shapes (set().union(*[la.F for la in C]) = the ids referenced through F by
the lanelets of C; `x in set(X - Y)` / `x in X.difference(Y)` / `x in X and x not in Y` = in X and not in Y; LaneletNetwork.traffic_signs / traffic_lights list the stored
elements in insertion order; find_K_by_id(id) of a listed element is that element)."""
import ast
import hashlib
import os

from vlib.core import COQ, REPO
from vlib.py2coq import write_if_changed

FILE = os.path.join("commonroad", "scenario", "scenario.py")
u = ast.unparse


class SourceShapeError(Exception):
    pass


def bad(node, why):
    raise SourceShapeError(f"scenario.py:{getattr(node, 'lineno', '?')}: {why}: {ast.unparse(node)[:150]}")


KINDS = {"traffic_signs": ("KSign", "traffic_sign_id", "find_traffic_sign_by_id", "remove_traffic_sign"),
         "traffic_lights": ("KLight", "traffic_light_id", "find_traffic_light_by_id", "remove_traffic_light")}
FIELDS = {"traffic_signs": "HSigns", "traffic_lights": "HLights"}


def text():
    raw = open(os.path.join(REPO, FILE), "rb").read()
    tree = ast.parse(raw)
    fn = None
    for c in tree.body:
        if isinstance(c, ast.ClassDef) and c.name == "Scenario":
            hits = [f for f in c.body if isinstance(f, ast.FunctionDef) and f.name == "remove_hanging_lanelet_members"]
            if len(hits) == 1 and not hits[0].decorator_list:
                fn = hits[0]
    if fn is None:
        raise SourceShapeError("Scenario.remove_hanging_lanelet_members not found (or decorated / defined twice)")
    if len(fn.args.args) != 2 or fn.args.defaults or fn.args.vararg or fn.args.kwarg:
        bad(fn, "parameters")
    self_, p = fn.args.args[0].arg, fn.args.args[1].arg
    body = [s for s in fn.body if not (isinstance(s, ast.Expr) and isinstance(s.value, ast.Constant))]
    net = (f"{self_}.lanelet_network", f"{self_}._lanelet_network")
    coll = {p: "HRemoved"}          # variable -> collection of lanelets
    alias_all, id_list = set(), set()
    sets, lists, sel, calls = {}, set(), {}, []
    for s in body:
        if isinstance(s, ast.Assign) and len(s.targets) == 1 and isinstance(s.targets[0], ast.Name):
            x, v = s.targets[0].id, s.value
            if u(v) in (f"{n}.lanelets" for n in net):
                alias_all.add(x)
                continue
            if isinstance(v, ast.ListComp) and len(v.generators) == 1 and not v.generators[0].ifs \
                    and u(v.generators[0].iter) == p and u(v.elt) == f"{u(v.generators[0].target)}.lanelet_id":
                id_list.add(x)
                continue
            if isinstance(v, ast.ListComp) and len(v.generators) == 1 and len(v.generators[0].ifs) == 1 \
                    and (u(v.generators[0].iter) in alias_all or u(v.generators[0].iter) in (f"{n}.lanelets" for n in net)) \
                    and u(v.elt) == u(v.generators[0].target) \
                    and any(u(v.generators[0].ifs[0]) == f"{u(v.elt)}.lanelet_id not in {r}" for r in id_list):
                coll[x] = "HRemaining"
                continue
            if isinstance(v, ast.Call) and u(v.func) == "set().union" and len(v.args) == 1 and isinstance(v.args[0], ast.Starred) \
                    and isinstance(v.args[0].value, ast.ListComp) and not v.keywords:
                lc = v.args[0].value
                g = lc.generators[0]
                if len(lc.generators) == 1 and not g.ifs and u(g.iter) in coll and isinstance(lc.elt, ast.Attribute) \
                        and u(lc.elt.value) == u(g.target) and lc.elt.attr in FIELDS:
                    sets[x] = f"({coll[u(g.iter)]}, {FIELDS[lc.elt.attr]})"
                    continue
            if u(v) == "[]":
                lists.add(x)
                continue
            bad(s, "assignment outside the accepted shapes")
        elif isinstance(s, ast.For) and not s.orelse and isinstance(s.target, ast.Name) and len(s.body) == 1 \
                and isinstance(s.body[0], ast.If) and not s.body[0].orelse and len(s.body[0].body) == 1:
            t = s.target.id
            hit = None
            for prop, (ctor, idattr, finder, _) in KINDS.items():
                if u(s.iter) in (f"{n}.{prop}" for n in net):
                    hit = (prop, ctor, idattr, finder)
            if hit is None:
                bad(s, "loop over something else than the network's signs / lights")
            prop, ctor, idattr, finder = hit
            test = s.body[0].test
            ok = isinstance(test, ast.Compare) and len(test.ops) == 1 and isinstance(test.ops[0], ast.In) \
                and u(test.left) == f"{t}.{idattr}"
            rhs = test.comparators[0] if ok else None
            if ok and isinstance(rhs, ast.Call) and u(rhs.func) == "set" and len(rhs.args) == 1:
                rhs = rhs.args[0]
            if ok and isinstance(rhs, ast.Call) and isinstance(rhs.func, ast.Attribute) and rhs.func.attr == "difference" \
                    and len(rhs.args) == 1 and not rhs.keywords:
                rhs = ast.BinOp(left=rhs.func.value, op=ast.Sub(), right=rhs.args[0])        # X.difference(Y) = X - Y
            if not ok and isinstance(test, ast.BoolOp) and isinstance(test.op, ast.And) and len(test.values) == 2:
                a, b = test.values                  # t.id in X and t.id not in Y
                if isinstance(a, ast.Compare) and isinstance(b, ast.Compare) and len(a.ops) == 1 and len(b.ops) == 1 \
                        and isinstance(a.ops[0], ast.In) and isinstance(b.ops[0], ast.NotIn) \
                        and u(a.left) == u(b.left) == f"{t}.{idattr}":
                    ok, rhs = True, ast.BinOp(left=a.comparators[0], op=ast.Sub(), right=b.comparators[0])
            if not (ok and isinstance(rhs, ast.BinOp) and isinstance(rhs.op, ast.Sub) and u(rhs.left) in sets
                    and u(rhs.right) in sets):
                bad(s.body[0], "selection test is not `t.id in set(X - Y)`")
            app = s.body[0].body[0]
            got = None
            for L in lists:
                if u(app) in tuple(f"{L}.append({n}.{finder}({t}.{idattr}))" for n in net) + (f"{L}.append({t})",):
                    got = L
            if got is None:
                bad(app, "selected element is not appended to a result list")
            sel[got] = f"{{| hs_universe := {ctor}; hs_del := {sets[u(rhs.left)]}; hs_save := {sets[u(rhs.right)]} |}}"
        elif isinstance(s, ast.Expr) and isinstance(s.value, ast.Call) and len(s.value.args) == 1 and not s.value.keywords:
            hit = None
            for prop, (ctor, _, _, remover) in KINDS.items():
                if u(s.value.func) == f"{self_}.{remover}" and u(s.value.args[0]) in sel:
                    hit = (ctor, u(s.value.args[0]))
            if hit is None:
                bad(s, "call outside the accepted shapes")
            calls.append(hit)
        else:
            bad(s, "statement outside the accepted shapes")
    by = {c: L for c, L in calls}
    if sorted(by) != ["KLight", "KSign"] or len(calls) != 2:
        bad(fn, "remove_traffic_sign / remove_traffic_light are not called once each with a selected list")
    out = ["(* GENERATED on every run by harness/props/c09_hang_src.py from the syntax tree of "
           "Scenario.remove_hanging_lanelet_members.", f"   Do not edit.  source: {FILE} sha1={hashlib.sha1(raw).hexdigest()} *)",
           "From Coq Require Import List.", "From CR Require Import Model.IdPool Model.IdRemoveSrc Model.IdHangSrc.",
           "Import ListNotations.", "",
           "Definition src_hanging : hprog := {|", f"  hp_signs := {sel[by['KSign']]};", f"  hp_lights := {sel[by['KLight']]};",
           f"  hp_calls := [{'; '.join(c for c, _ in calls)}] |}}."]
    return "\n".join(out) + "\n"


def generate():
    return write_if_changed(os.path.join(COQ, "Gen", "Src_idhang.v"), text())


if __name__ == "__main__":
    print(text())
