"""C04 translator tie (dispatch over time steps): Trajectory.state_at_time_step (scenario/trajectory.py),
Prediction.occupancy_at_time_step (prediction/prediction.py), StaticObstacle.occupancy_at_time / state_at_time and
DynamicObstacle.occupancy_at_time / state_at_time (scenario/obstacle.py) are translated to Gallina on every run
(coq/Gen/Src_dispatch.v), one definition per static configuration: prediction None / TrajectoryPrediction /
SetBasedPrediction, stored occupancies with an int / an Interval time step.  Proofs/SrcDispatch.v proves each equal to
the dispatch function of Model/Occupancy.v specialised to that configuration.

What is primitive here (trusted, beside the translator):
  a state and a shape are opaque values (Coq types S and R); state.time_step is the function tstep;
  isinstance(shape, Shape) holds for shapes, isinstance(state, State) for states, isinstance(x, int) for integers;
  list indexing is pyindex (Model/TrafficLight.v), len is List.length;
  `for occ in occupancy_set: ... return occ` is the list recursion the translator generates (first hit);
  the objects are the records of Model/DispatchCfg.v: _initial_occupancy_shape and, for a TrajectoryPrediction, the
  value of the cached property occupancy_set are *fields* (that they equal occupancy_shape_from_state(shape,
  initial_state) resp. _create_occupancy_set() is a hypothesis of the equality lemmas, checked by the correspondence).
"""
import os

from vlib.core import COQ, REPO
from vlib.py2coq import Module, TranslationError, Translator, write_if_changed, Zv

HEADER = ("From Coq Require Import ZArith Bool List String.\n"
          "From CR Require Import Base.PyRes Model.Interval Model.TrafficLight Model.Occupancy Model.DispatchCfg.\n"
          "Open Scope Z_scope.")

OCC_STEP = ("(Z * R)", [("_time_step", "fst", "Z"), ("_shape", "snd", "R")])
OCC_ITV = ("(occ_itv R)", [("_time_step", "oi_time", ("obj", "Interval")), ("_shape", "oi_region", "R")])
OCCS = ("list", ("obj", "Occupancy"))
BASE = {
    "Interval": ("zitv", [("_start", "zlo", "Z"), ("_end", "zhi", "Z")]),
    "Trajectory": ("(traj S)", [("_initial_time_step", "t_init", "Z"), ("_state_list", "t_states", ("list", "St"))]),
    "StaticObstacle": ("(static_obs S R)", [("_initial_state", "so_init", "St"), ("_initial_occupancy_shape", "so_shape", "R")]),
    "TrajectoryPrediction": ("(traj_pred S R)", [("_trajectory", "tp_traj", ("obj", "Trajectory")),
                                                 ("occupancy_set", "tp_occs", OCCS)]),
}


def dyn(ptype, pkind):
    return (f"(dyn_obs S R {ptype})", [("_initial_state", "do_init", "St"), ("_initial_occupancy_shape", "do_shape", "R"),
                                        ("_prediction", "do_pred", pkind)])


# configuration -> the records that differ
CONFIGS = {
    "step": {"Occupancy": OCC_STEP, "SetBasedPrediction": ("(set_pred_step R)", [("_occupancy_set", "sp_occs", OCCS)])},
    "itv": {"Occupancy": OCC_ITV, "SetBasedPrediction": ("(set_pred_itv R)", [("_occupancy_set", "si_occs", OCCS)])},
}
T = ("t", "Z")
JOBS = [  # (coq name, target, params, return type, comment, occupancy configuration, DynamicObstacle record)
    ("src_traj_state_at", ("method", "Trajectory", "state_at_time_step"), [("tr", "obj", "Trajectory"), T], "S",
     "Trajectory.state_at_time_step", "step", None),
    ("src_pred_occ_step", ("method", "SetBasedPrediction", "occupancy_at_time_step"), [("p", "obj", "SetBasedPrediction"), T],
     "(occ R)", "Prediction.occupancy_at_time_step, SetBasedPrediction, int time steps", "step", None),
    ("src_pred_occ_itv", ("method", "SetBasedPrediction", "occupancy_at_time_step"), [("p", "obj", "SetBasedPrediction"), T],
     "(occ R)", "Prediction.occupancy_at_time_step, SetBasedPrediction, Interval time steps", "itv", None),
    ("src_pred_occ_traj", ("method", "TrajectoryPrediction", "occupancy_at_time_step"), [("p", "obj", "TrajectoryPrediction"), T],
     "(occ R)", "Prediction.occupancy_at_time_step, TrajectoryPrediction (cached occupancy_set)", "step", None),
    ("src_static_occ", ("method", "StaticObstacle", "occupancy_at_time"), [("o", "obj", "StaticObstacle"), T], "(occ R)",
     "StaticObstacle.occupancy_at_time", "step", None),
    ("src_static_state", ("method", "StaticObstacle", "state_at_time"), [("o", "obj", "StaticObstacle"), T], "S",
     "StaticObstacle.state_at_time", "step", None),
]
for tag, cfg, ptype, pkind in [("none", "step", "unit", "None"),
                               ("traj", "step", "(traj_pred S R)", ("obj", "TrajectoryPrediction")),
                               ("set_step", "step", "(set_pred_step R)", ("obj", "SetBasedPrediction")),
                               ("set_itv", "itv", "(set_pred_itv R)", ("obj", "SetBasedPrediction"))]:
    JOBS.append((f"src_dyn_occ_{tag}", ("method", "DynamicObstacle", "occupancy_at_time"), [("o", "obj", "DynamicObstacle"), T],
                 "(occ R)", f"DynamicObstacle.occupancy_at_time, prediction: {tag}", cfg, dyn(ptype, pkind)))
    JOBS.append((f"src_dyn_state_{tag}", ("method", "DynamicObstacle", "state_at_time"), [("o", "obj", "DynamicObstacle"), T],
                 "S", f"DynamicObstacle.state_at_time, prediction: {tag}", cfg, dyn(ptype, pkind)))


def phantom(ptype, pkind):
    return (f"(phantom_obs {ptype})", [("_prediction", "ph_pred", pkind)])


# a phantom obstacle WITH a prediction calls occupancy_at_time_step inside the condition of an `if` (a generated loop in
# expression position): outside the translatable subset, tied by correspondence only
PHANTOM_JOBS = []
# TrajectoryPrediction as _create_occupancy_set sees it: _trajectory, _shape, and _wheelbase_lengths which is None (the
# only value __init__ gives it: the setter stores under a differently spelled name); the states carry an orientation
TRAJ_PRED_SRC = ("(traj_pred_src S R)", [("_trajectory", "ts_traj", ("obj", "Trajectory")), ("_shape", "ts_shape", "R"),
                                        ("_wheelbase_lengths", "ts_wheelbase", "None")])
ENV = ("(env_obs R)", [("_obstacle_shape", "eo_shape", "R")])


def render_occupancy(tr, obj, heap, ret):
    """an Occupancy object as a value of Model/Occupancy.v's [occ R]"""
    extra = set(obj) - {"__class__", "_time_step", "_shape"}
    if extra:
        raise TranslationError(f"Occupancy carries attributes outside the model: {sorted(extra)}")
    ts, sh = obj["_time_step"], obj["_shape"]
    if sh[0] != "R":
        raise TranslationError("Occupancy.shape is not a shape")
    if ts[0] in ("Z", "num"):
        key = f"(TStep {tr.toZ(ts)[1]})"
    elif ts[0] == "ref" and heap[ts[1]]["__class__"] == "Interval" and set(heap[ts[1]]) == {"__class__", "_start", "_end"}:
        key = f"(TItv {tr.toZ(heap[ts[1]]['_start'])[1]} {tr.toZ(heap[ts[1]]['_end'])[1]})"
    else:
        raise TranslationError("Occupancy.time_step is neither an int nor an Interval")
    return "{| o_time := " + key + "; o_region := " + sh[1] + " |}"


def occupancy_pair(tr, obj, heap):
    """an Occupancy with an int time step as the pair (time_step, shape) of Model/DispatchCfg.v"""
    extra = set(obj) - {"__class__", "_time_step", "_shape"}
    if extra:
        raise TranslationError(f"Occupancy carries attributes outside the model: {sorted(extra)}")
    ts, sh = obj["_time_step"], obj["_shape"]
    if sh[0] != "R" or ts[0] not in ("Z", "num"):
        raise TranslationError("Occupancy built in a loop: time step must be an int, shape a shape")
    return f"({tr.toZ(ts)[1]}, {sh[1]})"


def occupancy_shape_from_state(tr, args, node):
    """geometry.shape.occupancy_shape_from_state(shape, state): the section variable osfs (Model/Occupancy.v part (ii)
    is its model for the concrete shapes and states; here it is opaque)"""
    if len(args) != 2 or args[0][0] != "R" or args[1][0] != "St":
        raise TranslationError("occupancy_shape_from_state(shape, state) expected")
    return ("R", f"(osfs {args[0][1]} {args[1][1]})")


def translator():
    S, P = os.path.join(REPO, "commonroad", "scenario"), os.path.join(REPO, "commonroad", "prediction")
    tr = Translator([Module("obstacle", os.path.join(S, "obstacle.py")), Module("trajectory", os.path.join(S, "trajectory.py")),
                     Module("prediction", os.path.join(P, "prediction.py")),
                     Module("util", os.path.join(REPO, "commonroad", "common", "util.py"))],
                    consts={"int": ("inttypes", None)}, records={},
                    prims={("len", "L"): lambda t, a, n: Zv(f"(Z.of_nat (List.length {a[0][2]}))")})
    tr.value_attrs = {("St", "time_step"): lambda t, base, node: Zv(f"(tstep {base[1]})")}
    tr.value_isinstance = {"R": {"Shape"}, "St": {"State", "InitialState"}}
    tr.value_types = {"St": "S", "R": "R"}
    tr.renderers = {"St": lambda t, v: v[1], "R": lambda t, v: v[1]}
    tr.object_renderers = {"Occupancy": render_occupancy}
    tr.record_ctors = {"Occupancy": occupancy_pair}
    tr.value_hasattr = {("St", "orientation"): True}
    tr.prims["occupancy_shape_from_state"] = occupancy_shape_from_state
    tr.res_type, tr.ok_ctor = "pyres", "POk"
    tr.err_text = lambda exc: f'(PRaise "{exc}"%string)'
    tr.err_pat = "(PRaise exc_)"
    return tr


def text():
    tr = translator()
    defs = []
    for nm, tg, ps, rt, cm, cfg, dynrec in JOBS:
        tr.records = dict(BASE)
        tr.records.update(CONFIGS[cfg])
        if dynrec is not None:
            tr.records["DynamicObstacle"] = dynrec
        defs.append(tr.translate(nm, tg, ps, rt, cm))
    for tag, cfg, ptype, pkind in PHANTOM_JOBS:
        tr.records = dict(BASE)
        tr.records.update(CONFIGS[cfg])
        tr.records["PhantomObstacle"] = phantom(ptype, pkind)
        defs.append(tr.translate(f"src_phantom_occ_{tag}", ("method", "PhantomObstacle", "occupancy_at_time"),
                                 [("o", "obj", "PhantomObstacle"), T], "(occ R)",
                                 f"PhantomObstacle.occupancy_at_time, prediction: {tag}"))
    tr.records = dict(BASE)
    tr.records.update(CONFIGS["step"])
    tr.records["EnvironmentObstacle"] = ENV
    defs.append(tr.translate("src_env_occ", ("method", "EnvironmentObstacle", "occupancy_at_time"),
                             [("o", "obj", "EnvironmentObstacle"), T], "(occ R)", "EnvironmentObstacle.occupancy_at_time"))
    tr.records = dict(BASE)
    tr.records.update(CONFIGS["step"])
    tr.records["TrajectoryPrediction"] = TRAJ_PRED_SRC
    defs.append(tr.translate("src_create_occs", ("method", "TrajectoryPrediction", "_create_occupancy_set"),
                             [("p", "obj", "TrajectoryPrediction")], "(list (Z * R))",
                             "TrajectoryPrediction._create_occupancy_set (states with an orientation, no wheelbase lengths)"))
    srcs = ", ".join(f"{m.path} sha1={tr.sources[m.name]}" for m in tr.modules.values())
    out = ["(* GENERATED on every run by harness/vlib/py2coq.py + harness/props/c04_src.py (symbolic execution of the Python "
           "source). Do not edit.", f"   sources: {srcs} *)", HEADER, "", "Section Src.",
           "Variables S R : Type.          (* states, shapes: opaque *)",
           "Variable tstep : S -> Z.       (* state.time_step *)",
           "Variable osfs : R -> S -> R.   (* occupancy_shape_from_state(shape, state) *)", ""]
    return "\n".join(out + tr.aux + [""] + defs + ["End Src."]) + "\n"


def generate():
    return write_if_changed(os.path.join(COQ, "Gen", "Src_dispatch.v"), text())


if __name__ == "__main__":
    print(text())
