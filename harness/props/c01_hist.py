"""C01 — writer histories: "every real value within 10^-d, d the WRITER's decimal precision" for every way the
library offers to write the file, whatever other writers exist in the process.

A case is a little program over 1..4 writer objects:
    {"op": "hist", "fmt": "xml",
     "writers": [{"seed", "edge", "prec" (1..12), "cls": "front" | "xml" | "pb"}, ...],
     "steps":   [["new", i] | ["write", i, "to_file" | "scenario"], ...]}
cls front = CommonRoadFileWriter(file_format=XML), xml = XMLFileWriter constructed directly, pb =
CommonRoadFileWriter(file_format=PROTOBUF) (its files are C02's business; here it only is another writer that exists
and is used in the process).  EVERY file an XML writer writes in the history is read back with CommonRoadFileReader
and compared (vlib/canon.py) with the content its writer was given, reals within 10^-d of THAT writer
(write_scenario_to_file: no planning problems expected back).
Correspondence: relation H (precision.decimals after every step = Model/WriterPrec.v) and relations A / B of
Corr/C01.v on the files written inside the histories."""
import contextlib
import io
import os
import tempfile
import warnings

from lxml import etree

from commonroad.common.file_reader import CommonRoadFileReader
from commonroad.common.file_writer import CommonRoadFileWriter, OverwriteExistingFile
from commonroad.common.util import FileFormat
from commonroad.common.writer.file_writer_interface import precision
from commonroad.common.writer.file_writer_xml import XMLFileWriter
from commonroad.planning.planning_problem import PlanningProblemSet

from props import codec_run
from vlib import canon

APIS = ("to_file", "scenario")
CLASSES = ("front", "xml", "pb")


# ------------------------------------------------------------------------------------------------ generator
def gen_hist(rng, n):
    """random interleavings of: construct writer i (precision uniform in 1..12, class front / xml / pb),
    i writes with either method (0..2 times; the first XML writer at least once)"""
    out = []
    for _ in range(n):
        k = rng.choice([1, 2, 2, 2, 3, 3, 4])
        writers, seqs = [], []
        for i in range(k):
            cls = "front" if i == 0 and rng.random() < 0.6 else rng.choice(["front", "front", "xml", "xml", "pb"])
            if i == 0 and cls == "pb":
                cls = "xml"
            writers.append({"seed": rng.randrange(1 << 40), "edge": rng.random() < 0.3, "prec": rng.randint(1, 12),
                            "cls": cls})
            nw = rng.choice([1, 1, 2]) if i == 0 else rng.choice([0, 1, 1, 2])
            seqs.append([["new", i]] + [["write", i, rng.choice(APIS)] for _ in range(nw)])
        steps = []
        while any(seqs):
            s = rng.choice([q for q in seqs if q])
            steps.append(s.pop(0))
        out.append({"op": "hist", "fmt": "xml", "writers": writers, "steps": steps})
    return out


def shape_of(case):
    """kind label for the input distribution"""
    ws = case["writers"]
    xml_writes = [s for s in case["steps"] if s[0] == "write" and ws[s[1]]["cls"] != "pb"]
    lower_between = False  # some write happens while a writer of LOWER precision was constructed / used after its own 'new'
    last = None
    for s in case["steps"]:
        if s[0] == "write" and ws[s[1]]["cls"] != "pb" and last is not None and ws[last]["prec"] < ws[s[1]]["prec"]:
            lower_between = True
        if s[0] == "new" or ws[s[1]]["cls"] != "pb":
            last = s[1]
    return {"writers": len(ws), "xml_writes": len(xml_writes),
            "scenario_only": sum(1 for s in xml_writes if s[2] == "scenario"),
            "direct": sum(1 for s in xml_writes if ws[s[1]]["cls"] == "xml"), "lower_between": lower_between}


# ------------------------------------------------------------------------------------------------ near-boundary cut
def fragile_polygon(v, delta):
    """Polygon.__init__ lists the vertices clockwise (shapely orient).  The writer moves every coordinate by less than
    delta = 10^-d; twice the signed area  S2 = sum x_i (y_{i+1} - y_{i-1})  then moves by at most
    delta * sum(|y_{i+1} - y_{i-1}| + |x_{i+1} - x_{i-1}|) + 2 n delta^2.  If |S2| exceeds that bound the rotation sense of
    the written vertices is the original one; otherwise it is a near-boundary decision (DESIGN 2.7): the read-back
    polygon may list the same vertices in the opposite sense."""
    n = len(v)
    if n < 3:
        return True
    s2 = sum(v[i][0] * (v[(i + 1) % n][1] - v[i - 1][1]) for i in range(n))
    span = sum(abs(v[(i + 1) % n][1] - v[i - 1][1]) + abs(v[(i + 1) % n][0] - v[i - 1][0]) for i in range(n))
    return abs(s2) <= delta * span + 2 * n * delta * delta


def polygons(c, path=""):
    """(path, dict) of every canonical polygon inside a canonical value"""
    if isinstance(c, dict):
        if c.get("k") == "poly" and "v" in c:
            yield path, c
            return
        for k in c:
            yield from polygons(c[k], f"{path}.{k}")
    elif isinstance(c, list):
        for i, x in enumerate(c):
            yield from polygons(x, f"{path}[{i}]")


def release_orientation(exp, got, tol):
    """for every polygon of exp whose rotation sense is a near-boundary decision at tol: if the read-back lists the
    same vertex cycle in the opposite sense (first vertex kept, as shapely's orient does), re-reverse it.  Everything
    else (vertex values, count, cycle order) is still compared.  Returns the number of polygons re-reversed."""
    gp = dict(polygons(got))
    n = 0
    for path, pe in polygons(exp):
        pg = gp.get(path)
        if pg is None or len(pg["v"]) != len(pe["v"]) or not fragile_polygon(pe["v"], tol):
            continue
        if canon.compare(pe["v"], pg["v"], tol):
            rev = pg["v"][:1] + pg["v"][1:][::-1]
            if not canon.compare(pe["v"], rev, tol):
                pg["v"] = rev
                n += 1
    return n


def fragile_case(case):
    """number of polygons of a basic round-trip case whose rotation sense is a near-boundary decision at its precision"""
    sc, pps, meta = codec_run.build(case)
    exp = codec_run.expected_canon(case, sc, pps, meta)
    tol = 10.0 ** (-case.get("prec", 4))
    return sum(1 for _, p in polygons(exp) if fragile_polygon(p["v"], tol))


def as_history(case):
    """a basic round-trip case (fresh CommonRoadFileWriter, write_to_file) as a one-writer history"""
    return {"op": "hist", "fmt": "xml", "steps": [["new", 0], ["write", 0, "to_file"]],
            "writers": [{"seed": case["seed"], "edge": case.get("edge", False), "prec": case.get("prec", 4), "cls": "front"}]}


# ------------------------------------------------------------------------------------------------ execution
def _quiet():
    st = contextlib.ExitStack()
    st.enter_context(contextlib.redirect_stdout(io.StringIO()))
    cw = warnings.catch_warnings()
    st.enter_context(cw)
    warnings.simplefilter("ignore")
    return st


def _subcase(w):
    return {"seed": w["seed"], "fmt": "pb" if w["cls"] == "pb" else "xml", "edge": w["edge"], "prec": w["prec"]}


def construct(w, sc, pps, meta):
    args = (sc, pps, meta["author"], meta["affiliation"], meta["source"], meta["tags"], meta["location"])
    if w["cls"] == "xml":
        return XMLFileWriter(*args, decimal_precision=w["prec"])
    fmt = FileFormat.PROTOBUF if w["cls"] == "pb" else FileFormat.XML
    return CommonRoadFileWriter(*args, decimal_precision=w["prec"], file_format=fmt)


_DONE = {}


def _key(case):
    import json
    return json.dumps(case, sort_keys=True)


def run_history(case, want_terms=False, fresh=False):
    """memoised execute(): one execution per case and run serves oracle and correspondence"""
    k = _key(case)
    if fresh or k not in _DONE or (want_terms and not _DONE[k][4]):
        if len(_DONE) > 3000:
            _DONE.clear()
        _DONE[k] = execute(case, want_terms) + (want_terms,)
    return _DONE[k][:4]


def execute(case, want_terms=False):
    """executes the history in this process.  Returns (results, globals_after, g0, terms):
    results: one dict per XML write step {step, writer, api, stage, error | diffs};
    globals_after: precision.decimals after every step; terms: Coq CaseA / CaseB terms of the written files"""
    ws = case["writers"]
    built = [codec_run.build(_subcase(w)) for w in ws]
    exp = {}
    for i, (w, (sc, pps, meta)) in enumerate(zip(ws, built)):
        if w["cls"] != "pb":
            sub = _subcase(w)
            exp[(i, "to_file")] = codec_run.expected_canon(sub, sc, pps, meta)
            exp[(i, "scenario")] = codec_run.expected_canon(sub, sc, PlanningProblemSet(), meta)
    d = tempfile.mkdtemp(prefix="verif-c01h-", dir="/var/tmp")
    objs, results, globs, terms = {}, [], [], []
    g0 = int(precision.decimals)
    try:
        for n, st in enumerate(case["steps"]):
            i = st[1]
            w = ws[i]
            sc, pps, meta = built[i]
            if st[0] == "new":
                with _quiet():
                    objs[i] = construct(w, sc, pps, meta)  # constructor failures are unexpected: propagate
                globs.append(int(precision.decimals))
                continue
            api = st[2]
            path = os.path.join(d, f"s{n}" + (".pb" if w["cls"] == "pb" else ".xml"))
            fn = objs[i].write_to_file if api == "to_file" else objs[i].write_scenario_to_file
            if w["cls"] == "pb":
                try:  # another writer being used; what it writes is judged by C02
                    with _quiet():
                        fn(path, OverwriteExistingFile.ALWAYS)
                except Exception:  # noqa
                    pass
                globs.append(int(precision.decimals))
                continue
            res = {"step": n, "writer": i, "api": api, "prec": w["prec"], "stage": "ok", "diffs": []}
            results.append(res)
            try:
                with _quiet():
                    fn(path, OverwriteExistingFile.ALWAYS)
            except Exception as e:  # noqa
                res.update(stage="write", error=f"{type(e).__name__}: {str(e)[:200]}")
                globs.append(int(precision.decimals))
                continue
            globs.append(int(precision.decimals))
            if not os.path.isfile(path):
                res.update(stage="write", error="NoFile: the call returned without writing the file")
                continue
            try:
                with _quiet():
                    sc2, pps2 = CommonRoadFileReader(path).open()
            except Exception as e:  # noqa
                res.update(stage="read", error=f"{type(e).__name__}: {str(e)[:200]}")
                continue
            got = canon.canon(sc2, pps2, "xml")
            res["reoriented"] = release_orientation(exp[(i, api)], got, 10.0 ** (-w["prec"]))
            res["diffs"] = canon.compare(exp[(i, api)], got, 10.0 ** (-w["prec"]), limit=60)
            if want_terms:
                ts = _terms(w, sc, pps if api == "to_file" else None, meta, path, sc2, pps2)
                # relation B compares vertex lists in file order: not applicable when the reader's Polygon
                # constructor turned a near-degenerate polygon around (near-boundary, counted by the caller)
                terms += ts[:1] if res["reoriented"] else ts
        return results, globs, g0, terms
    finally:
        for f in os.listdir(d):
            os.remove(os.path.join(d, f))
        os.rmdir(d)


def _terms(w, sc, pps, meta, path, sc2, pps2):
    from props import xmlfmt
    v_in = xmlfmt.extract(xmlfmt.ROOT, xmlfmt.Doc(sc, pps, meta))
    root = etree.parse(path).getroot()
    t_w = xmlfmt.parse(xmlfmt.ROOT, root, side="W")
    a = f"CaseA {w['prec']} {xmlfmt.coq_val(v_in)} {xmlfmt.coq_tree(t_w)}"
    meta2 = {"author": sc2.author, "affiliation": sc2.affiliation, "source": sc2.source, "tags": sc2.tags,
             "location": sc2.location}
    v_out = xmlfmt.extract(xmlfmt.ROOT, xmlfmt.Doc(sc2, pps2, meta2), set_sorted=True, el=root)
    t_r = xmlfmt.parse(xmlfmt.ROOT, root, set_sorted=True, side="R")
    b = f"CaseB {xmlfmt.coq_tree(t_r)} {xmlfmt.coq_val(v_out)}"
    from props.codec_gen import may_open_ring
    out = [("A: written tree = write W.xml_root (original), d = the writer's own precision, inside a history", a)]
    if not may_open_ring(w["seed"]):
        out.append(("B: read-back value = read R.xml_root (written tree), inside a history", b))
    return out


def reoriented(case):
    return sum(r.get("reoriented", 0) for r in run_history(case)[0])


# ------------------------------------------------------------------------------------------------ oracle
def describe_step(case, r):
    ws = case["writers"]
    w = ws[r["writer"]]
    others = ", ".join(f"#{j} {x['cls']} d={x['prec']}" for j, x in enumerate(ws) if j != r["writer"]) or "none"
    call = "write_to_file" if r["api"] == "to_file" else "write_scenario_to_file"
    kind = "XMLFileWriter" if w["cls"] == "xml" else "CommonRoadFileWriter"
    return (f"step {r['step']} of {case['steps']}: {kind}(decimal_precision={w['prec']}).{call}() of writer "
            f"#{r['writer']} (scenario seed={w['seed']}); other writers: {others}")


def oracle_hist_all(case):
    """every distinct kind of violation in the history: list of (signature, what)"""
    results, _, _, _ = run_history(case)
    out, seen = [], set()
    for r in results:
        if r["stage"] != "ok":
            sg = f"xml:{r['stage']}:{r['error'].split(':')[0]}"
            if sg not in seen:
                seen.add(sg)
                out.append((sg, f"{r['stage']} failed at {describe_step(case, r)}: {r['error']}"))
            continue
        for df in r["diffs"]:
            sg = f"xml:{canon.signature(df)}"
            if sg not in seen:
                seen.add(sg)
                out.append((sg, f"read-back differs at {describe_step(case, r)}: {df}"))
    return out


def oracle_hist(case, skip=()):
    for sg, what in oracle_hist_all(case):
        if sg not in skip:
            return (sg, what)
    return None


# ------------------------------------------------------------------------------------------------ correspondence
def coq_history(case, g0, globs):
    ws = case["writers"]
    steps = []
    for st in case["steps"]:
        w = ws[st[1]]
        if st[0] == "new":
            steps.append(f"New {st[1]} {'KPb' if w['cls'] == 'pb' else 'KXml'} {w['prec']}")
        else:
            steps.append(f"Write {st[1]} {'ToFile' if st[2] == 'to_file' else 'ScenarioOnly'}")
    return f"CaseH {g0} [{'; '.join(steps)}] [{'; '.join(str(g) + '%nat' for g in globs)}]"


def hist_corr(ctx, cases, n_trees):
    """relation H on every history, relations A / B on the files of the first n_trees histories"""
    light, heavy = [], []
    for k, c in enumerate(cases):
        results, globs, g0, ts = run_history(c, want_terms=k < n_trees)
        light.append(("H: precision.decimals after every step = Model/WriterPrec.v trace", c, coq_history(c, g0, globs)))
        if k < n_trees:
            heavy += [(rel, c, t) for rel, t in ts]
    imports = codec_run.XML_IMPORTS + "From CR Require Import Model.WriterPrec.\n"
    total = 0
    for name, use, shard in (("histH", light, 400), ("histAB", heavy, 5)):
        bad, errors = ctx.coq_bad_indices(name, imports, "", [u[2] for u in use], "check", shard=shard)
        total += len(use)
        for e in errors:
            ctx.corr_break("Corr.C01.check history (coqc failed)", e)
        for i in bad:
            ctx.corr_break("Corr.C01 " + use[i][0], use[i][1])
        ctx.log(f"corr histories {name} cases={len(use)} disagree={len(bad)} coq_errors={len(errors)}")
    ctx.coverage["history_correspondence_cases"] = total
