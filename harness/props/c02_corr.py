"""C02 correspondence relations A / B: the generic codec (Model/Codec.v) on the GENERATED protobuf tables
(Gen/PbFmt.v) vs the real protobuf writer / reader on generated scenarios, compared inside Coq (Corr/C02.v).
A: tree of the message the real writer serialised  =  write W.pb_root (value extracted from the original objects)
B: value extracted from the objects the real reader built  =  read R.pb_root (tree of the written message)"""
import os
import re
import tempfile

from props import c02_pbfmt as P
from props import codec_run

IMPORTS = ("From Coq Require Import QArith ZArith String List Bool NArith.\nImport ListNotations.\n"
           "From CR Require Import Model.Codec Model.EnumName Gen.PbEnums Gen.PbFmt Corr.C02.\nOpen Scope string_scope.\n"
           "Open Scope list_scope.\n")
REL_A = "A: tree of the written message = write W.pb_root (original)"
REL_B = "B: read-back value = read R.pb_root (tree of the written message)"


def written_message(data):
    msg = P.msg_class("CommonRoad")()
    msg.ParseFromString(data)
    return msg


def terms(case, build=None):
    """(CaseA term | None, CaseB term | None, note) for one generated scenario; None where the implementation
    failed to write / read (the oracle reports that) or the scenario is outside the description (note says why)"""
    sc, pps, meta = (build or codec_run.build)(case)
    d = tempfile.mkdtemp(prefix="verif-c02-", dir="/var/tmp")
    path = os.path.join(d, "f.pb")
    try:
        try:
            v_in = P.extract(P.ROOT, P.Doc(sc, pps, meta), "W")
        except P.OutOfDomain as e:
            return None, None, f"outside the description: {e}"
        try:
            codec_run.write(case, sc, pps, meta, path)
        except Exception as e:  # noqa  (expected for out-of-domain input; the oracle judges it)
            return None, None, f"writer raised {type(e).__name__}"
        msg = written_message(open(path, "rb").read())
        t = P.sort_sets(P.ROOT, P.msg_tree(msg, "CommonRoad"))
        a = f"CaseA {P.coq_val(v_in)} {P.coq_tree(t)}"
        from props.codec_gen import may_open_ring
        if may_open_ring(case.get("seed", 1)):
            return a, None, "may hold polygons with an open ring (the reader closes it: outside the tables' reader side)"
        try:
            sc2, pps2 = codec_run.read(case, path)
        except Exception as e:  # noqa
            return a, None, f"reader raised {type(e).__name__}"
        meta2 = {"author": sc2.author, "affiliation": sc2.affiliation, "source": sc2.source, "tags": sc2.tags,
                 "location": sc2.location}
        try:
            v_out = P.extract(P.ROOT, P.Doc(sc2, pps2, meta2), "R", msg=msg)
        except P.OutOfDomain as e:
            # the reader built something the description cannot express from a message the writer produced
            return a, f"CaseB {P.coq_tree(t)} (VAtom (AStr \"?read-back outside the description\"))", str(e)
        b = f"CaseB {P.coq_tree(t)} {P.coq_val(v_out)}"
        return a, b, None
    finally:
        for f in os.listdir(d):
            os.remove(os.path.join(d, f))
        os.rmdir(d)


def path_names(rel, idx):
    """child indices of Corr.C02.diagnose -> field names, for the replay file (value paths follow the table; tree
    paths are positions among the children actually present, reported as they are)"""
    codes = {555: "<model rejects the input>", 999: "<different number of children>", 888: "<different constructors>",
             666: "<different tags>", 777: "<different alternatives>"}
    if not rel.startswith("B"):
        return [codes.get(i, i) for i in idx]
    out, fmt = [], P.ROOT
    it = iter(idx)
    for i in it:
        if i in codes or isinstance(fmt, P.L):
            out.append(codes.get(i, i))
            continue
        if i >= len(fmt.fields):
            out.append(i)
            break
        f = fmt.fields[i]
        out.append(f.name)
        if f.mult_for("R") == P.MANY:
            j = next(it, None)
            if j is None:
                break
            out.append(codes.get(j, j))
            if j in codes:
                break
        fmt = f.fmt
    return out


def diagnose(ctx, name, term):
    ok, out = ctx.coq_eval(name, IMPORTS, f"Eval vm_compute in (diagnose ({term})).")
    m = re.search(r"=\s*Some\s*\[(.*?)\]", out, re.S)
    if not ok or not m:
        return None
    return [int(x) for x in re.findall(r"\d+", m.group(1))]


def run(ctx, cases, n_max, build=None):
    """relations A and B on up to n_max of the cases; records correspondence breaks (with the position of the first
    difference); returns the cases that disagreed"""
    use, ts, skipped = [], [], {}
    for c in cases[:n_max]:
        a, b, note = terms(c, build)
        if note:
            skipped[note] = skipped.get(note, 0) + 1
        for rel, t in ((REL_A, a), (REL_B, b)):
            if t is not None:
                use.append((rel, c))
                ts.append(t)
    bad, errors = ctx.coq_bad_indices("corr", IMPORTS, "", ts, "check", shard=6)
    ctx.coverage["correspondence_cases"] = len(ts)
    ctx.coverage["correspondence_not_applicable"] = skipped
    for e in errors:
        ctx.corr_break("Corr.C02.check (coqc failed)", e)
    out = []
    for k, i in enumerate(bad):
        rel, c = use[i]
        where = None
        if k < 3:
            idx = diagnose(ctx, f"diag_{k}", ts[i])
            where = None if idx is None else path_names(rel, idx)
        cc = dict(c)
        if where is not None:
            cc["first_difference_at"] = where
        ctx.corr_break("Corr.C02 " + rel, cc)
        out.append(c)
    ctx.log(f"corr A/B cases={len(ts)} disagree={len(bad)} coq_errors={len(errors)} not_applicable={sum(skipped.values())}")
    return out
