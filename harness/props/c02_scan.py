"""Presence discipline of every protobuf field, re-derived from the SOURCE of the real writer / reader on every run
(the static half of the tie of the C02 format tables to the code; the dynamic half are relations A / B).

writer (file_writer_protobuf.py, XxxMessage.create_message and the three methods of ProtobufFileWriter that fill
the CommonRoad message): for the message variable `v = xxx_pb2.Msg()` every `v.f = e`, `v.f.CopyFrom(e)`,
`v.f.append(e)` is recorded; a field is set UNCONDITIONALLY iff it is set on every path through the function
(must-set analysis over if / else; a loop body may run zero times), otherwise it is GUARDED.
reader (file_reader_protobuf.py, XxxFactory.create_from_message): every read `msg.f` is recorded together with the
HasField("..") tests of the enclosing ifs; a read is GUARDED iff an enclosing test (or a preceding early-return /
elif chain) asks HasField of the same field - or the field is the last member of a oneof all of whose other
members are asked (the else branch of the chain).
apply() compares this with the description (props/c02_pbfmt.py):
  described MReq : writer unconditional (or `tolerant`: a None guard outside the admissible domain); reader any
  described MOpt : writer guarded, else W gets MReq there; reader guarded, else R gets MReq there  (deviations -
                   they surface as fmt_diff W R <> [] in Coq and are candidate findings)
  described MMany: writer appends
  a field the description has but the code never touches, or the code touches but the description lacks: mismatch
  (fail closed).  Classes that go through setattr / getattr (State, SignalState) are marked dynamic: relations A / B
  alone tie them."""
import ast
import os

from props import c02_pbfmt as P

MSG_METHODS = {"HasField", "DESCRIPTOR", "ListFields", "CopyFrom", "SerializeToString", "ParseFromString", "WhichOneof",
               "ClearField"}


def _src(rel):
    import commonroad
    return os.path.join(os.path.dirname(commonroad.__file__), rel)


# ------------------------------------------------------------------------------------------ writer
class _WriterFn:
    def __init__(self, fn, is_msg):
        self.is_msg = is_msg      # expression -> bool: denotes the message being filled
        self.sets, self.appends, self.dynamic = set(), set(), False
        self.must = self.block(fn.body)

    def field_of(self, node):
        """`<msg>.f` -> f"""
        if isinstance(node, ast.Attribute) and self.is_msg(node.value):
            return node.attr
        return None

    def stmt(self, s):
        must = set()
        if isinstance(s, ast.If):
            a, b = self.block(s.body), self.block(s.orelse)
            self.scan_expr(s.test)
            return a & b
        if isinstance(s, (ast.For, ast.While)):
            self.block(s.body)
            self.block(s.orelse)
            return set()
        if isinstance(s, ast.Try):
            self.block(s.body)
            for h in s.handlers:
                self.block(h.body)
            return self.block(s.finalbody)
        if isinstance(s, ast.With):
            return self.block(s.body)
        if isinstance(s, ast.Assign):
            for t in s.targets:
                f = self.field_of(t)
                if f is not None:
                    self.sets.add(f)
                    must.add(f)
        for node in ast.walk(s):
            if isinstance(node, ast.Call):
                fn = node.func
                if isinstance(fn, ast.Attribute) and fn.attr in ("CopyFrom", "append", "extend", "MergeFrom"):
                    f = self.field_of(fn.value)
                    if f is not None:
                        if fn.attr in ("append", "extend"):
                            self.appends.add(f)
                        else:
                            self.sets.add(f)
                            must.add(f)
                if isinstance(fn, ast.Name) and fn.id in ("setattr", "getattr") and node.args and self.is_msg(node.args[0]):
                    self.dynamic = True
        return must

    def scan_expr(self, e):
        pass

    def block(self, stmts):
        must = set()
        for s in stmts:
            must |= self.stmt(s)
        return must


def scan_writer():
    """writer class name -> dict(sets, appends, must, dynamic)"""
    tree = ast.parse(open(_src("common/writer/file_writer_protobuf.py")).read())
    out = {}
    for cls in [n for n in tree.body if isinstance(n, ast.ClassDef)]:
        if cls.name == "ProtobufFileWriter":
            def is_root(e):
                return isinstance(e, ast.Attribute) and isinstance(e.value, ast.Name) and e.value.id == "self" and \
                    e.attr == "_commonroad_msg"
            acc = {"sets": set(), "appends": set(), "must": set(), "dynamic": False}
            for fn in cls.body:
                if isinstance(fn, ast.FunctionDef) and fn.name in ("_write_header", "_add_all_objects_from_scenario",
                                                                   "_add_all_planning_problems_from_planning_problem_set"):
                    w = _WriterFn(fn, is_root)
                    acc["sets"] |= w.sets
                    acc["appends"] |= w.appends
                    acc["must"] |= w.must
                    acc["dynamic"] |= w.dynamic
            out[cls.name] = acc
            continue
        for fn in cls.body:
            if isinstance(fn, ast.FunctionDef) and fn.name == "create_message":
                var = None
                for s in ast.walk(fn):
                    if isinstance(s, ast.Assign) and isinstance(s.value, ast.Call) and isinstance(s.value.func, ast.Attribute) \
                            and isinstance(s.value.func.value, ast.Name) and s.value.func.value.id.endswith("_pb2") \
                            and len(s.targets) == 1 and isinstance(s.targets[0], ast.Name):
                        var = s.targets[0].id
                        break
                if var is None:
                    continue
                w = _WriterFn(fn, lambda e, var=var: isinstance(e, ast.Name) and e.id == var)
                out[cls.name] = {"sets": w.sets, "appends": w.appends, "must": w.must, "dynamic": w.dynamic}
    return out


# ------------------------------------------------------------------------------------------ reader
class _ReaderFn:
    def __init__(self, fn, params):
        self.params = params
        self.reads, self.unguarded, self.asked, self.dynamic = set(), set(), set(), False
        self.block(fn.body, frozenset())

    def asked_in(self, test):
        """fields f with <msg>.HasField("f") inside a test expression"""
        out = set()
        for node in ast.walk(test):
            if isinstance(node, ast.Call) and isinstance(node.func, ast.Attribute) and node.func.attr == "HasField" \
                    and isinstance(node.func.value, ast.Name) and node.func.value.id in self.params:
                if node.args and isinstance(node.args[0], ast.Constant) and isinstance(node.args[0].value, str):
                    out.add(node.args[0].value)
                else:
                    self.dynamic = True
        return out

    def expr(self, e, guards):
        for node in ast.walk(e):
            if isinstance(node, ast.Attribute) and isinstance(node.value, ast.Name) and node.value.id in self.params \
                    and node.attr not in MSG_METHODS:
                self.reads.add(node.attr)
                if node.attr not in guards:
                    self.unguarded.add(node.attr)
            if isinstance(node, ast.Call) and isinstance(node.func, ast.Name) and node.func.id in ("getattr", "hasattr") \
                    and node.args and isinstance(node.args[0], ast.Name) and node.args[0].id in self.params:
                self.dynamic = True
        self.asked |= self.asked_in(e)

    def block(self, stmts, guards):
        for s in stmts:
            if isinstance(s, ast.If):
                g = self.asked_in(s.test)
                negated = isinstance(s.test, ast.UnaryOp) and isinstance(s.test.op, ast.Not)
                self.expr(s.test, guards)
                self.block(s.body, guards if negated else guards | g)
                self.block(s.orelse, guards | g if negated else guards)
            elif isinstance(s, (ast.For, ast.While)):
                self.expr(s.iter if isinstance(s, ast.For) else s.test, guards)
                self.block(s.body, guards)
                self.block(s.orelse, guards)
            elif isinstance(s, ast.Try):
                self.block(s.body, guards)
                for h in s.handlers:
                    self.block(h.body, guards)
                self.block(s.finalbody, guards)
            elif isinstance(s, ast.With):
                self.block(s.body, guards)
            elif isinstance(s, (ast.FunctionDef, ast.ClassDef)):
                continue
            else:
                self.expr(s, guards)


def scan_reader():
    """reader class name -> dict(reads, unguarded, asked, dynamic)"""
    tree = ast.parse(open(_src("common/reader/file_reader_protobuf.py")).read())
    out = {}
    for cls in [n for n in tree.body if isinstance(n, ast.ClassDef)]:
        acc = None
        for fn in cls.body:
            if isinstance(fn, ast.FunctionDef) and fn.name in ("create_from_message", "_fill_state"):
                params = {a.arg for a in fn.args.args if a.arg.endswith("_msg")}
                if not params:
                    continue
                r = _ReaderFn(fn, params)
                if acc is None:
                    acc = {"reads": set(), "unguarded": set(), "asked": set(), "dynamic": False}
                acc["reads"] |= r.reads
                acc["unguarded"] |= r.unguarded
                acc["asked"] |= r.asked
                acc["dynamic"] |= r.dynamic
        if acc is not None:
            out[cls.name] = acc
    return out


# ------------------------------------------------------------------------------------------ comparison
def apply():
    """sets wmult / rmult of every described field from the source; returns (problems, deviations, summary)"""
    P.check_descriptors()
    ws, rs = scan_writer(), scan_reader()
    ds = P.descriptors()
    problems, deviations = [], []
    by_writer, by_reader = {}, {}
    n_static = n_dynamic = 0
    for m in P.all_messages():
        by_writer.setdefault(m.writer, []).append(m)
        by_reader.setdefault(m.reader, []).append(m)
        w, r = ws.get(m.writer), rs.get(m.reader)
        if w is None:
            problems.append(f"writer class {m.writer} (message {m.msg}) not found in file_writer_protobuf.py")
        if r is None:
            problems.append(f"reader class {m.reader} (message {m.msg}) not found in file_reader_protobuf.py")
        oneofs = {}
        for fd in ds[m.msg].fields:
            if fd.containing_oneof is not None:
                oneofs.setdefault(fd.containing_oneof.name, []).append(fd.name)
        for f in m.fields:
            f.wmult = f.rmult = f.mult
            if w is not None and not (f.dynamic and w["dynamic"]):
                n_static += 1
                touched = f.name in w["sets"] or f.name in w["appends"]
                if not touched:
                    problems.append(f"{m.writer} never fills {m.msg}.{f.name} (described {f.mult})")
                elif f.mult == P.MANY:
                    if f.name not in w["appends"]:
                        problems.append(f"{m.writer} does not append to repeated {m.msg}.{f.name}")
                elif f.name in w["appends"]:
                    problems.append(f"{m.writer} appends to {m.msg}.{f.name}, described {f.mult}")
                elif f.mult == P.REQ:
                    if f.name not in w["must"] and not f.tolerant:
                        problems.append(f"{m.writer} fills {m.msg}.{f.name} only conditionally, described required")
                elif f.name in w["must"]:
                    f.wmult = P.REQ
                    deviations.append(f"W {m.label}.{f.name}: optional data, but the writer sets the field unconditionally")
            elif w is not None:
                n_dynamic += 1
            if r is not None and not (f.dynamic and r["dynamic"]):
                touched = f.name in r["reads"] or f.name in r["asked"]
                if not touched:
                    problems.append(f"{m.reader} never reads {m.msg}.{f.name} (described {f.mult})")
                elif f.mult == P.OPT and f.name in r["unguarded"]:
                    grp = [g for g in oneofs.values() if f.name in g]
                    complement = bool(grp) and all(o in r["asked"] for o in grp[0] if o != f.name)
                    if not complement:
                        f.rmult = P.REQ
                        deviations.append(f"R {m.label}.{f.name}: optional data, but the reader reads the field without HasField")
    # fields the code touches that no table of the class describes
    for cname, ms in by_writer.items():
        w = ws.get(cname)
        if w is None:
            continue
        known = {f.name for m in ms for f in m.fields} | {b for (a, b) in list(P.IGNORED) + list(P.SCAN_EXEMPT) if a in {m.msg for m in ms}}
        for f in sorted((w["sets"] | w["appends"]) - known):
            if any(f in ds[m.msg].fields_by_name for m in ms):
                problems.append(f"{cname} fills {ms[0].msg}.{f}, which the description does not have")
    for cname, ms in by_reader.items():
        r = rs.get(cname)
        if r is None:
            continue
        known = {f.name for m in ms for f in m.fields} | {b for (a, b) in list(P.IGNORED) + list(P.SCAN_EXEMPT) if a in {m.msg for m in ms}}
        for f in sorted((r["reads"] | r["asked"]) - known):
            if any(f in ds[m.msg].fields_by_name for m in ms):
                problems.append(f"{cname} reads {ms[0].msg}.{f}, which the description does not have")
    summary = {"fields_tied_statically": n_static, "fields_dynamic_only": n_dynamic,
               "writer_classes": len(ws), "reader_classes": len(rs)}
    return problems, deviations, summary
