"""C03 — every written XML scenario file is valid against the 2020a schema (and accepted by the own reader).
oracle: generated schema-expressible scenarios (70% with the edge stream of magnitudes) written by the real writer,
        validated with lxml against the shipped XSD, read by the real reader
corr:   relation A of Corr/C01.v with the DOCUMENT ORDER kept inside xs:sequence elements: the tree written by
        the implementation = write W v (ties the order theorem to the code); float_to_str / number formatting"""
import re
from fractions import Fraction

import numpy as np

import gen_tables
from props import c01, codec_run
from vlib.flow import load_corpus

RULE = c01.RULE + "; for C03 70% of the scenarios use the edge stream (1e-7 .. 1e5, lengths below 1e-4, orientations 1e-6)"
ASSUME = ["lxml's XMLSchema validator is the arbiter of validity (not modelled)",
          "np.format_float_positional prints the shortest round-trip repr in positional notation"]
PLAIN = re.compile(r"-?\d+(\.\d+)?")


def gen(rng, n):
    return codec_run.gen_cases(rng, n, "xml", edge_share=0.7)


def num_cases(rng, n):
    out = []
    for _ in range(n):
        x = rng.choice([rng.uniform(-1, 1) * 10.0 ** rng.randint(-12, 12), 1e-5, 3e-5, 1e-4 / 3, 1e16, 1e22, 5e-324,
                        1.5e300, 0.1, 123456.789, float(rng.randint(-10**6, 10**6)), rng.randint(-999, 999)])
        out.append({"op": "num", "x": x})
    return out


def oracle_num(c):
    from commonroad.common.writer import file_writer_xml as w
    fn = getattr(w, "number_to_str", None)
    if fn is None:  # helper renamed / removed: the scenario-level oracle still judges the written files
        return None
    s = fn(c["x"])
    if not PLAIN.fullmatch(s):
        return ("number_to_str:not plain decimal", f"number_to_str({c['x']!r}) = {s!r}")
    if Fraction(s) != Fraction(c["x"]) and float(s) != float(c["x"]):
        return ("number_to_str:lossy", f"number_to_str({c['x']!r}) = {s!r}")
    return None


def oracle(case):
    if case.get("op") == "num":
        return oracle_num(case)
    if case.get("op") == "f2s":
        return c01.oracle_f2s(case)
    return codec_run.oracle_valid(case)


def run(ctx):
    ctx.trusted = ["Coq 8.16.1 kernel + vm_compute (no native_compute)",
                   "axioms: none (Print Assumptions: Closed under the global context)",
                   "translators in harness/props/xmlfmt.py: writer table W (coq/Gen/XmlFmt.v) and the xs:sequence order of "
                   "the shipped XSD (coq/Gen/XsdOrder.v, fail-closed on non-sequence types), regenerated on every run",
                   "correspondence relation A (Corr/C01.v) with document order kept: ties W's order to the real writer",
                   "lxml XMLSchema (validity oracle); numpy format_float_positional; CPython repr/format"]
    changed = gen_tables.main(["XmlFmt.v", "XsdOrder.v"])
    if changed:
        ctx.notes.append(f"regenerated {changed} from /repo")
    ctx.build_props(extra_targets=["Corr/C01.vo"])
    if ctx.tier == "thorough":
        ctx.coqchk()
    n = ctx.n(120, 3000)
    cases = load_corpus("C03") + gen(ctx.rng, n)
    extra = num_cases(ctx.rng, ctx.n(500, 20000)) + c01.f2s_cases(ctx.rng, ctx.n(300, 10000))

    def run_oracle(cs):
        for c in cs:
            if c.get("op") in ("num", "f2s"):
                ctx.count(c, True, c["op"])
            else:
                ctx.count(c, True, "xml scenario" + (" (edge magnitudes)" if c.get("edge") else ""))
            r = oracle(c)
            if r:
                ctx.fail(r[0], r[1], c)

    run_oracle(cases + extra)
    codec_run.xml_corr(ctx, cases, ctx.n(40, 400), doc_order=True)
    if (ctx.proof_breaks or ctx.corr_breaks) and not ctx.failures:
        ctx.log("proof/correspondence broke; widening the search")
        run_oracle([b["case"] for b in ctx.corr_breaks if isinstance(b.get("case"), dict)])
        if not ctx.failures:
            run_oracle(gen(ctx.rng, n * 5) + num_cases(ctx.rng, 5000))
    return ctx.finish(RULE, assumptions=ASSUME)
