"""C03 — every written XML scenario file is valid against the 2020a schema (and accepted by the own reader).
oracle: generated schema-expressible scenarios (70% with the edge stream of magnitudes) written by the real writer,
        validated with lxml against the shipped XSD, read by the real reader
tables: coq/Gen/Xsd2020a.v — the shipped XSD translated (fail-closed, props/c03_xsd.py) on every run into the data
        the Gallina validator Model/XsdCheck.v runs on; coq/Gen/XmlFmt.v, XsdOrder.v — the writer's table
corr:   relation A of Corr/C01.v with the DOCUMENT ORDER kept inside xs:sequence elements: the tree written by
        the implementation = write W v (ties the theorems to the code); float_to_str / number formatting;
        relations V and S of Corr/C03.v (props/c03_corr.py): the Gallina validator = lxml's verdict on the written
        documents, on deliberately perturbed variants of them, and on single leaf texts per simple type"""
import os
import re
from fractions import Fraction

import numpy as np

import gen_tables
from props import c01, c03_corr, c03_xsd, codec_run
from vlib.flow import load_corpus

RULE = c01.RULE + "; for C03 70% of the scenarios use the edge stream (1e-7 .. 1e5, lengths below 1e-4, orientations 1e-6)"
ASSUME = ["lxml's XMLSchema validator is the arbiter of validity; the Gallina validator (the XSD subset the shipped schema "
          "uses, generated from the file) is compared with it on every written document, on perturbed variants and on "
          "leaf texts (relations V, S) - agreement is observed, not proved",
          "number printer (hypothesis num_printer_ok of the theorems): plain decimal text, a positive number is not "
          "printed as zero; float_to_str's lexical half is proved, np.format_float_positional (number_to_str) prints "
          "the shortest round-trip repr in positional notation (checked per case)",
          "the id/ref identity constraints are checked by the validator and compared with lxml, not derived from the "
          "value (theorems ..._partial)"]
PLAIN = re.compile(r"-?\d+(\.\d+)?")


def gen(rng, n):
    return codec_run.gen_cases(rng, n, "xml", edge_share=0.7)


def num_cases(rng, n):
    out = []
    for _ in range(n):
        x = rng.choice([rng.uniform(-1, 1) * 10.0 ** rng.randint(-12, 12), 1e-5, 3e-5, 1e-4 / 3, 1e16, 1e22, 5e-324,
                        1.5e300, 0.1, 123456.789, float(rng.randint(-10**6, 10**6)), rng.randint(-999, 999)])
        out.append({"op": "num", "x": x})
    return out


def oracle_num(c):
    from commonroad.common.writer import file_writer_xml as w
    fn = getattr(w, "number_to_str", None)
    if fn is None:  # helper renamed / removed: the scenario-level oracle still judges the written files
        return None
    s = fn(c["x"])
    if not PLAIN.fullmatch(s):
        return ("number_to_str:not plain decimal", f"number_to_str({c['x']!r}) = {s!r}")
    if Fraction(s) != Fraction(c["x"]) and float(s) != float(c["x"]):
        return ("number_to_str:lossy", f"number_to_str({c['x']!r}) = {s!r}")
    return None


# ------------------------------------------------------------------------------------ one writer, an edited scenario
EDITS = ["remove_lanelet", "remove_sign", "remove_light", "remove_obstacle", "remove_intersection", "translate"]


def gen_rewrite(rng, cases, every=4):
    """a writer object writes, the scenario is edited through the public API (removals clean the references themselves),
    the same writer writes again: the second file is a file 'produced by the XML writer' for the edited scenario"""
    out = []
    for c in cases[::every]:
        if c.get("op") != "xml":
            continue
        out.append({"op": "rewrite", "seed": c["seed"], "edge": c.get("edge", False), "prec": c.get("prec", 4),
                    "edits": [[rng.choice(EDITS), rng.randrange(1 << 16)] for _ in range(rng.randint(1, 3))]})
    return out


def apply_edit(sc, kind, pick):
    import numpy as np
    net = sc.lanelet_network

    def choose(xs):
        return xs[pick % len(xs)] if xs else None
    if kind == "remove_lanelet":
        # prefer a lanelet that others refer to (successor / predecessor / adjacent): their references have to go too
        refd = [la for la in net.lanelets if la.predecessor or la.successor or la.adj_left or la.adj_right]
        la = choose(refd or list(net.lanelets))
        if la is not None and len(net.lanelets) > 1:
            sc.remove_lanelet(la)
    elif kind == "remove_sign":
        x = choose(list(net.traffic_signs))
        if x is not None:
            sc.remove_traffic_sign(x)
    elif kind == "remove_light":
        x = choose(list(net.traffic_lights))
        if x is not None:
            sc.remove_traffic_light(x)
    elif kind == "remove_obstacle":
        x = choose(list(sc.obstacles))
        if x is not None:
            sc.remove_obstacle(x)
    elif kind == "remove_intersection":
        x = choose(list(net.intersections))
        if x is not None:
            sc.remove_intersection(x)
    elif kind == "translate":
        sc.translate_rotate(np.array([float(pick % 7) - 3.0, 2.5]), 0.0)


def oracle_rewrite(case):
    import contextlib, io, tempfile, warnings
    from lxml import etree
    from commonroad.common.file_writer import CommonRoadFileWriter, OverwriteExistingFile
    sc, pps, meta = codec_run.build(case)
    d = tempfile.mkdtemp(prefix="verif-c03-", dir="/var/tmp")

    def writer():
        return CommonRoadFileWriter(sc, pps, meta["author"], meta["affiliation"], meta["source"], meta["tags"],
                                    meta["location"], decimal_precision=case["prec"])

    def verdict(path):
        doc = etree.parse(path)
        ok = codec_run.schema().validate(doc)
        errs = [f"{e.path}: {e.message}"[:240] for e in list(codec_run.schema().error_log)[:3]]
        if ok:
            try:
                codec_run.read({"fmt": "xml"}, path)
            except Exception as e:  # noqa
                return False, [f"own reader: {type(e).__name__}: {str(e)[:160]}"]
        return bool(ok), errs
    try:
        with contextlib.redirect_stdout(io.StringIO()), warnings.catch_warnings():
            warnings.simplefilter("ignore")
            try:
                w = writer()
                w.write_to_file(os.path.join(d, "a.xml"), OverwriteExistingFile.ALWAYS)
                for kind, pick in case["edits"]:
                    apply_edit(sc, kind, pick)
            except Exception:  # noqa - first write / the edits themselves are judged elsewhere (C03 plain cases, C09, C10)
                return None
            try:
                writer().write_to_file(os.path.join(d, "fresh.xml"), OverwriteExistingFile.ALWAYS)
                fresh_ok, _ = verdict(os.path.join(d, "fresh.xml"))
            except Exception:  # noqa
                return None
            if not fresh_ok:
                return None     # the edited scenario itself is not schema-expressible: outside the quantifier
            try:
                w.write_to_file(os.path.join(d, "b.xml"), OverwriteExistingFile.ALWAYS)
            except Exception as e:  # noqa
                return ("rewrite:second write raises", f"the second write_to_file of one writer raises {type(e).__name__} "
                                                      f"after {case['edits']} (seed={case['seed']})")
            ok, errs = verdict(os.path.join(d, "b.xml"))
        if not ok:
            kinds = "+".join(sorted({k for k, _ in case["edits"]}))
            return (f"rewrite:invalid after {kinds}",
                    f"a writer that wrote before the scenario was edited ({case['edits']}) writes an invalid file for the "
                    f"edited scenario, a fresh writer a valid one (seed={case['seed']}): {errs[:1]}")
        return None
    finally:
        for f in os.listdir(d):
            os.remove(os.path.join(d, f))
        os.rmdir(d)


def oracle(case):
    if case.get("op") == "rewrite":
        return oracle_rewrite(case)
    if case.get("op") == "num":
        return oracle_num(case)
    if case.get("op") == "f2s":
        return c01.oracle_f2s(case)
    if case.get("op") in ("xsdv", "xsds"):  # replays of correspondence cases: nothing to judge in the implementation
        return codec_run.oracle_valid(case["base"]) if case.get("op") == "xsdv" else None
    return codec_run.oracle_valid(case)


def run(ctx):
    ctx.trusted = ["Coq 8.16.1 kernel + vm_compute (no native_compute)",
                   "axioms: none (Print Assumptions: Closed under the global context)",
                   "translators: harness/props/c03_xsd.py (shipped XSD -> coq/Gen/Xsd2020a.v, fail-closed on every construct "
                   "outside sequence / choice / all / occurrence bounds / 8 built-in simple types / enumeration and "
                   "min-max facets / one key + keyref; cross-checked against lxml by relations V and S), "
                   "harness/props/xmlfmt.py (writer table W -> coq/Gen/XmlFmt.v, xs:sequence order -> XsdOrder.v); all "
                   "regenerated on every run",
                   "correspondence relation A (Corr/C01.v) with document order kept: ties W to the real writer; relations "
                   "V, S (Corr/C03.v): ties Model/XsdCheck.v + Gen/Xsd2020a.v to lxml's validator",
                   "lxml XMLSchema (validity arbiter); numpy format_float_positional; CPython repr/format"]
    changed = gen_tables.main(["XmlFmt.v", "XsdOrder.v"])
    try:
        if c03_xsd.generate():
            changed = list(changed) + ["Xsd2020a.v"]
    except c03_xsd.XsdError as e:  # the shipped schema left the supported subset: fail closed
        ctx.proof_breaks.append({"theorem": "translator c03_xsd (XSD outside the supported subset)", "where": str(e)[:300],
                                 "log": ""})
        ctx.log(f"xsd translator refused the schema: {e}")
        stale = os.path.join(c03_xsd.GEN, "Xsd2020a.v")
        for ext in (".v", ".vo", ".vos", ".vok", ".glob"):  # never prove anything about a table that no longer
            if os.path.exists(stale[:-2] + ext):            # mirrors the shipped file
                os.remove(stale[:-2] + ext)
    if changed:
        ctx.notes.append(f"regenerated {changed} from /repo")
    ctx.build_props(extra_targets=["Corr/C01.vo"])
    if ctx.tier == "thorough":
        ctx.coqchk()
    n = ctx.n(120, 3000)
    cases = load_corpus("C03") + gen(ctx.rng, n)
    extra = num_cases(ctx.rng, ctx.n(500, 20000)) + c01.f2s_cases(ctx.rng, ctx.n(300, 10000))

    def run_oracle(cs):
        for c in cs:
            if c.get("op") in ("num", "f2s", "rewrite"):
                ctx.count(c, True, c["op"])
            else:
                ctx.count(c, True, "xml scenario" + (" (edge magnitudes)" if c.get("edge") else ""))
            r = oracle(c)
            if r:
                ctx.fail(r[0], r[1], c)

    rewrites = gen_rewrite(ctx.rng, cases)
    run_oracle(cases + extra + rewrites)
    ctx.coverage["write / edit the scenario / write again with the same writer"] = len(rewrites)
    codec_run.xml_corr(ctx, cases, ctx.n(40, 400), doc_order=True)
    # the Gallina validator vs lxml: written documents + perturbed variants (V), leaf texts (S)
    if os.path.exists(os.path.join(c03_xsd.GEN, "Xsd2020a.v")) and not any("translator" in b["theorem"] for b in ctx.proof_breaks):
        c03_corr.doc_cases(ctx, cases, ctx.n(20, 200), ctx.n(7, 12))
        c03_corr.leaf_cases(ctx, ctx.n(2500, 40000))
        c03_corr.expr_cases(ctx, cases, ctx.n(40, 400))
        ctx.coverage["correspondence_cases"] = ctx.coverage.get("correspondence_cases", 0) + \
            ctx.coverage["validator_vs_lxml_documents"]["documents"] + \
            ctx.coverage["validator_vs_lxml_documents"]["variants"] + \
            ctx.coverage["validator_vs_lxml_leaf_texts"]["accepted"] + ctx.coverage["validator_vs_lxml_leaf_texts"]["rejected"] + \
            ctx.coverage["expressible_values"]["cases"]
    if (ctx.proof_breaks or ctx.corr_breaks) and not ctx.failures:
        ctx.log("proof/correspondence broke; widening the search")
        run_oracle([b["case"] for b in ctx.corr_breaks if isinstance(b.get("case"), dict)])
        if not ctx.failures:
            run_oracle(gen(ctx.rng, n * 5) + num_cases(ctx.rng, 5000))
    return ctx.finish(RULE, assumptions=ASSUME)
